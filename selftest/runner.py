"""Self-validation of the rules (thorough tier).

For the property being checked, every variant is applied to a scratch copy of
the CURRENT /repo/desper (created under $TMPDIR, removed before returning) and
the property's rules are re-run on it, in-process:

* breaking variants (the sub-agent seeded changes under seeded/, the reverse
  patches of the fix: commits under regressions/) must make the rules report
  at least one violation;
* benign variants (behaviour-preserving refactors, selftest/benign.py) must
  leave the rules silent (no violation, no analysis error).

A variant whose patch / anchor text does not apply to the current tree is
skipped and reported.  A missed breaking variant or a firing benign variant
means the CHECKER is broken: it is reported as an analysis error (exit 2),
never as a violation of the property.
"""
import importlib
import json
import os
import shutil
import subprocess
import tempfile
from concurrent.futures import ProcessPoolExecutor

from dlint.model import Program, AnalysisError
from dlint.report import Report, VIOLATED, INCONCLUSIVE, load_known, VERIF

SEEDED = os.path.join(VERIF, 'seeded')
REGR = os.path.join(VERIF, 'regressions')


# behaviour-preserving refactorings whose shape the analysis does not cover:
# the honest outcome is ANALYSIS-ERROR (never a VIOLATION); DESIGN.md 9.5b
KNOWN_UNSUPPORTED = {
    'C08-f1': 'wake scan behind a cached earliest deadline: whether the cache '
              'stays a lower bound of the heap is not modelled (9.5h)',
    'C10-f1': 'the transform setters walk the listener table themselves (an '
              'inlined copy of the delivery loop): not modelled (9.5h)',
    'C05-g1': 'automatic ids tested with get_components(id): equivalent to '
              'the membership test only because rows are never left empty '
              '(9.5i)',
    'C06-g1': 'visited-set test applied to multi-base types only: an '
              'argument about the class graph (9.5i)',
    'C08-g1': 'sentinel-free frame counting in the coroutine processor: the '
              'sentinel rules do not model it (9.5i)',
    'C06-h1': 'subclasses pushed by their position among the bases: an '
              'argument about the class graph (9.5j)',
    'C16-h1': 'conflict established by looking into the top layer of the '
              'receiving map: rests on the back-link invariants (9.5j)',
    'C01-i1': 'get() answered from a per-type memo of pairs: the reader rule '
              'looks for the loop over the type index (9.5k)',
    'C04-i1': 'release by a cursor kept in the dispatcher instead of removing '
              'the front element: no argument carried (9.5k)',
    'C08-i1': 'wake loop on a cached wake time: equality with the heap head '
              'at every read is not modelled (9.5k)',
    'C15-i1': 'argument mapping through a shared write-back helper: the '
              'mapped function is not found (9.5k)',
    'C16-i1': 'keys assembled by string arithmetic from the relative path of '
              'the rule directory: an argument about os.path (9.5k)',
}


def _variants(prop):
    out = []
    # which recorded change each property's rules are expected to report
    # (established once on the repaired tree, tools/run_seeds.py --matrix)
    try:
        with open(os.path.join(SEEDED, 'DETECTION.json')) as f:
            det = json.load(f)
    except OSError:
        det = {}
    for name in sorted(det):
        if prop not in det[name]:
            continue
        base = REGR if name.startswith('R') else SEEDED
        p = os.path.join(base, name, 'patch.diff')
        if os.path.exists(p):
            out.append(('B', name, p))
    from selftest import benign
    for name, edits in benign.VARIANTS.get(prop, []):
        out.append(('G', name, edits))
    # behaviour-preserving refactorings written by independent sub-agents
    # (benign/<id>-<k>/patch.diff; the suite passes with each of them)
    bdir = os.path.join(VERIF, 'benign')
    if os.path.isdir(bdir):
        for d in sorted(os.listdir(bdir)):
            p = os.path.join(bdir, d, 'patch.diff')
            if d.split('-')[0] == prop and os.path.exists(p):
                out.append(('GP', 'benign/' + d, p))
    return out


def _prepare(repo, kind, payload):
    """Scratch copy with the variant applied, or None if it does not apply."""
    tmp = tempfile.mkdtemp(prefix='dlint-variant-')
    shutil.copytree(os.path.join(repo, 'desper'), os.path.join(tmp, 'desper'),
                    ignore=shutil.ignore_patterns('__pycache__'))
    if kind in ('B', 'GP'):
        r = subprocess.run(['patch', '-p1', '--batch', '-s', '--no-backup-if-mismatch',
                            '-i', payload], cwd=tmp, capture_output=True,
                           text=True)
        if r.returncode != 0:
            shutil.rmtree(tmp, ignore_errors=True)
            return None
        return tmp
    for rel, old, new in payload:
        path = os.path.join(tmp, rel)
        try:
            with open(path) as f:
                src = f.read()
        except OSError:
            shutil.rmtree(tmp, ignore_errors=True)
            return None
        if old == '*ALL*':
            old, new = new
            if old not in src:
                shutil.rmtree(tmp, ignore_errors=True)
                return None
            src = src.replace(old, new)
        else:
            if src.count(old) != 1:
                shutil.rmtree(tmp, ignore_errors=True)
                return None
            src = src.replace(old, new)
        with open(path, 'w') as f:
            f.write(src)
    return tmp


def _run_variant(args):
    prop, repo, kind, name, payload = args
    tmp = _prepare(repo, kind, payload)
    if tmp is None:
        return name, kind, 'skipped', ''
    try:
        rep = Report(prop, 'quick', tmp)
        mod = importlib.import_module('rules.' + prop.lower())
        try:
            program = Program(tmp)
            mod.run(program, rep, 'quick')
        except AnalysisError as ex:
            rep.error(str(ex))
        except Exception as ex:
            rep.error(f'internal error {type(ex).__name__}: {ex}')
        known = {(k['rule'], k['site'], ' '.join(k['construct'].split()))
                 for k in load_known().get('open', [])
                 if k['property'] == prop}
        viol = [o for o in rep.obs if o.verdict == VIOLATED
                and (o.rule, o.site, o.construct) not in known]
        incon = [o for o in rep.obs if o.verdict == INCONCLUSIVE]
        if viol:
            o = viol[0]
            return name, kind, 'violation', f'{o.rule} at {o.site}: {o.why[:140]}'
        if incon or rep.errors:
            return name, kind, 'inconclusive', (rep.errors or [''])[0][:200]
        return name, kind, 'silent', ''
    finally:
        shutil.rmtree(tmp, ignore_errors=True)


def run(prop, rep, repo):
    variants = _variants(prop)
    jobs = [(prop, repo, k, n, p) for k, n, p in variants]
    results = []
    if jobs:
        with ProcessPoolExecutor(max_workers=min(16, len(jobs))) as ex:
            results = list(ex.map(_run_variant, jobs))
    summary = {'breaking_detected': 0, 'breaking_missed': [],
               'breaking_inconclusive': [], 'benign_silent': 0,
               'benign_fired': [], 'skipped': []}
    for name, kind, outcome, info in results:
        if outcome == 'skipped':
            summary['skipped'].append(name)
        elif kind == 'B':
            if outcome == 'violation':
                summary['breaking_detected'] += 1
            elif outcome == 'inconclusive':
                summary['breaking_inconclusive'].append(name)
            else:
                summary['breaking_missed'].append(name)
        else:
            if outcome == 'silent':
                summary['benign_silent'] += 1
            elif outcome == 'inconclusive' and name.split('/')[-1] in \
                    KNOWN_UNSUPPORTED:
                summary.setdefault('benign_unsupported', []).append(
                    f'{name}: {KNOWN_UNSUPPORTED[name.split("/")[-1]]}')
            else:
                summary['benign_fired'].append(f'{name}: {outcome} {info}')
    rep.extra['selftest'] = summary
    rep.count('selftest_variants', len(results))
    for n in summary['breaking_missed']:
        rep.error(f'self-test: the rules of {prop} stay silent on the breaking '
                  f'variant {n} (checker defect, not a property violation)')
    for n in summary['benign_fired']:
        rep.error(f'self-test: the rules of {prop} fire on the benign variant '
                  f'{n} (checker defect, not a property violation)')
