"""Benign variants: behaviour-preserving refactors on which every rule of the
named property must stay silent.  Each variant is a list of text edits
(relative file, old text occurring exactly once, new text) - or
(file, '*ALL*', (old, new)) to replace every occurrence - applied to a scratch
copy of the current tree.  A variant whose anchor text is not found is skipped.
"""
W = 'desper/logic/world.py'
EV = 'desper/events.py'
CO = 'desper/logic/coroutines.py'
TR = 'desper/model/tree.py'
LP = 'desper/loop.py'
MW = 'desper/model/world.py'
MI = 'desper/model/__init__.py'
LG = 'desper/logic/__init__.py'
SP = 'desper/logic/spatial.py'
MA = 'desper/math.py'

SETDEFAULT_INDEX = [(W, """        if component_type not in self._components:
            self._components[component_type] = set()

        self._components[component_type].add(entity)

        if entity not in self._entities:
            self._entities[entity] = {}

        self._entities[entity][component_type] = component
""", """        self._components.setdefault(component_type, set()).add(entity)
        self._entities.setdefault(entity, {})[component_type] = component
""")]
POP_ROW = [(W, """        del self._entities[entity]
        self._dead_entities.discard(entity)

    def _clear_dead_entities""", """        self._entities.pop(entity)
        self._dead_entities.discard(entity)

    def _clear_dead_entities""")]
RENAME_FRINGE = [(W, '*ALL*', ('fringe', 'pending_types'))]
PUBLIC_FLAG = [(W, """            if (ON_ADD_EVENT_NAME in component.__events__
                    and self._dispatch_enabled):
                getattr(component,
                        component.__events__[ON_ADD_EVENT_NAME])(entity, self)
            # on_add exists but dispatching is disabled
            elif (ON_ADD_EVENT_NAME in component.__events__
                    and not self._dispatch_enabled):""", """            if (ON_ADD_EVENT_NAME in component.__events__
                    and self.dispatch_enabled):
                getattr(component,
                        component.__events__[ON_ADD_EVENT_NAME])(entity, self)
            # on_add exists but dispatching is disabled
            elif (ON_ADD_EVENT_NAME in component.__events__
                    and not self.dispatch_enabled):""")]
ALWAYS_RELAY = [(W, """            if (ON_ADD_EVENT_NAME in component.__events__
                    and self._dispatch_enabled):
                getattr(component,
                        component.__events__[ON_ADD_EVENT_NAME])(entity, self)
            # on_add exists but dispatching is disabled
            elif (ON_ADD_EVENT_NAME in component.__events__
                    and not self._dispatch_enabled):
                self.dispatch(ON_SINGLE_DISPATCH_EVENT_NAME, ON_ADD_EVENT_NAME,
                              component, entity, self)

    def _on_single_dispatch""", """            if ON_ADD_EVENT_NAME in component.__events__:
                self.dispatch(ON_SINGLE_DISPATCH_EVENT_NAME, ON_ADD_EVENT_NAME,
                              component, entity, self)

    def _on_single_dispatch""")]
EXTEND_FRINGE = [(W, '*ALL*', ('fringe += subtype.__subclasses__()',
                               'fringe.extend(subtype.__subclasses__())'))]
TUPLE_SNAPSHOT = [(EV, 'in set(self._events[event_name]):',
                   'in tuple(self._events[event_name]):')]
DICT_MERGE = [(EV, """        cls.__events__ = (events | dict(zip(event_names, event_names))
                          | event_mappings)""",
               """        cls.__events__ = {**events,
                          **dict(zip(event_names, event_names)),
                          **event_mappings}""")]
WHILE_SWAPPED = [(EV, 'while self._event_queue and self._dispatch_enabled:',
                  'while self._dispatch_enabled and self._event_queue:')]
TYPE_OF = [(EV, '*ALL*', ('handler.__class__', 'type(handler)'))]
POP_LOCAL = [(W, """        while self._dead_entities:
            self._delete_entity_now(self._dead_entities.pop())""",
              """        while self._dead_entities:
            doomed = self._dead_entities.pop()
            self._delete_entity_now(doomed)""")]
INSORT_RIGHT = [(W, 'bisect.insort(self._sorted_processors',
                 'bisect.insort_right(self._sorted_processors')]
LISTCOMP_FILTER = [(W, """                self._sorted_processors = list(
                    filter(lambda p: type(p) is not subtype,
                           self._sorted_processors))""",
                    """                self._sorted_processors = [
                    p for p in self._sorted_processors
                    if type(p) is not subtype]""")]
TRUTHY_QUEUE = [(CO, 'if len(self._wait_queue) > 0:', 'if self._wait_queue:'),
                (CO, 'if len(self._wait_queue) == 0:',
                 'if not self._wait_queue:')]
POP_GENERATORS = [(CO, '*ALL*', ('del self._generators[gen]',
                                 'self._generators.pop(gen)'))]
MAPS_FIRST = [(TR, """        if last_key in value.handles:
            return value.handles[last_key]()
        else:
            return value.maps[last_key]""",
               """        if last_key in value.maps:
            return value.maps[last_key]
        else:
            return value.handles[last_key]()""")]
EARLY_RETURN_CALL = [(TR, """        if not self._cached:
            self._cache = self.load()
            self._cached = True

        return self._cache""", """        if self._cached:
            return self._cache

        self._cache = self.load()
        self._cached = True
        return self._cache""")]
POSITIONAL_FLAGS = [(LP, """    raise SwitchWorld(target_handle, clear_current=clear_current,
                      clear_next=False)""",
                     """    raise SwitchWorld(target_handle, clear_current, False)""")]
BRANCH_SWAP = [(LP, """                if self.last_timestamp is None:
                    dt = 0
                else:
                    dt = timestamp - self.last_timestamp""",
                """                if self.last_timestamp is not None:
                    dt = timestamp - self.last_timestamp
                else:
                    dt = 0""")]
RENAME_COMPONENTS = [(MW, """        components = []
        for component_dict in entity_dict.get('components', []):
            args = component_dict.get('args', [])
            kwargs = component_dict.get('kwargs', {})
            components.append(component_dict['type'](*args, **kwargs))

        world.create_entity(*components, entity_id=entity_id)""",
                      """        built = []
        for component_dict in entity_dict.get('components', []):
            args = component_dict.get('args', [])
            kwargs = component_dict.get('kwargs', {})
            built.append(component_dict['type'](*args, **kwargs))

        world.create_entity(*built, entity_id=entity_id)""")]
OSPATH_ALIAS = [(MI, '*ALL*', ('pt.', 'osp.')),
                (MI, 'import os.path as pt', 'import os.path as osp')]
RENAME_SUBSELF = [(TR, '*ALL*', ('subself', 'snapshot'))]
COMMUTED = [(MA, """        return self[0] * other[0] + self[1] * other[1] + self[2] * other[2]
""", """        zz = other[2] * self[2]
        return other[1] * self[1] + self[0] * other[0] + zz
"""),
            (MA, """        return Vec2(self[0] + (alpha * (other[0] - self[0])),
                    self[1] + (alpha * (other[1] - self[1])))""",
             """        return Vec2((1 - alpha) * self[0] + alpha * other[0],
                    (1 - alpha) * self[1] + alpha * other[1])""")]
ZIP_SUM = [(MA, """            return Vec3(sum(map(_mul, c0, other)),
                        sum(map(_mul, c1, other)),
                        sum(map(_mul, c2, other)))""",
            """            return Vec3(sum(a * b for a, b in zip(c0, other)),
                        sum(a * b for a, b in zip(c1, other)),
                        sum(a * b for a, b in zip(c2, other)))""")]
KEYWORD_FORWARD = [(LG, """    return controller.world.has_component(controller.entity, component_type)""",
                    """    return controller.world.has_component(
        controller.entity, component_type=component_type)""")]
DISPATCH_FIELD = [(SP, """        self._position = value
        self.dispatch(ON_POSITION_CHANGE_EVENT_NAME, value)

    @property
    def rotation(self) -> float:""", """        self._position = value
        self.dispatch(ON_POSITION_CHANGE_EVENT_NAME, self._position)

    @property
    def rotation(self) -> float:""")]

VARIANTS = {
    'C01': [('setdefault-index', SETDEFAULT_INDEX), ('pop-row', POP_ROW),
            ('rename-fringe', RENAME_FRINGE)],
    'C02': [('public-flag', PUBLIC_FLAG), ('always-relay', ALWAYS_RELAY),
            ('pop-row', POP_ROW), ('setdefault-index', SETDEFAULT_INDEX)],
    'C03': [('tuple-snapshot', TUPLE_SNAPSHOT), ('dict-merge', DICT_MERGE),
            ('type-of', TYPE_OF)],
    'C04': [('while-swapped', WHILE_SWAPPED), ('always-relay', ALWAYS_RELAY)],
    'C05': [('pop-local', POP_LOCAL), ('pop-row', POP_ROW)],
    'C06': [('extend-fringe', EXTEND_FRINGE), ('rename-fringe',
                                               RENAME_FRINGE)],
    'C07': [('insort-right', INSORT_RIGHT), ('listcomp-filter',
                                             LISTCOMP_FILTER)],
    'C08': [('truthy-queue', TRUTHY_QUEUE)],
    'C09': [('pop-generators', POP_GENERATORS), ('truthy-queue',
                                                 TRUTHY_QUEUE)],
    'C10': [('type-of', TYPE_OF), ('tuple-snapshot', TUPLE_SNAPSHOT)],
    'C11': [('maps-first', MAPS_FIRST)],
    'C12': [('early-return', EARLY_RETURN_CALL), ('rename-subself',
                                                  RENAME_SUBSELF)],
    'C13': [('positional-flags', POSITIONAL_FLAGS)],
    'C14': [('branch-swap', BRANCH_SWAP)],
    'C15': [('rename-components', RENAME_COMPONENTS)],
    'C16': [('ospath-alias', OSPATH_ALIAS)],
    'C17': [('rename-subself', RENAME_SUBSELF)],
    'C18': [('commuted', COMMUTED), ('zip-sum', ZIP_SUM)],
    'C19': [('keyword-forward', KEYWORD_FORWARD)],
    'C20': [('dispatch-field', DISPATCH_FIELD)],
}
