"""Canonical forms for the branch-free arithmetic of desper/math.py.

Multivariate polynomials with Fraction coefficients ({monomial: coeff}),
rational functions compared by cross-multiplication, and rewrite rules for
atoms standing for sqrt(q) (s*s -> q) and sin(t) (sin^2 -> 1 - cos^2).
This is value numbering with a complete normal form for commutative rings,
computed over syntax; no object of the analysed package is ever created.
"""
from fractions import Fraction


class Rules:
    """atom -> polynomial that atom**2 rewrites to."""

    def __init__(self):
        self.square = {}
        self.names = {}

    def sqrt_atom(self, radicand):
        key = ('sqrt', radicand.key())
        if key not in self.names:
            name = f'sqrt#{len(self.names)}'
            self.names[key] = name
            self.square[name] = radicand
        return self.names[key]

    def trig_atoms(self, angle_text):
        key = ('trig', angle_text)
        if key not in self.names:
            c, s = f'cos({angle_text})', f'sin({angle_text})'
            self.names[key] = (c, s)
            one = Poly.const(1)
            self.square[s] = one - Poly.var(c) * Poly.var(c)
        return self.names[key]


RULES = Rules()


class Poly:
    __slots__ = ('t',)

    def __init__(self, terms=None):
        self.t = {k: v for k, v in (terms or {}).items() if v != 0}

    @staticmethod
    def const(c):
        return Poly({(): Fraction(c)})

    @staticmethod
    def var(name):
        return Poly({((name, 1),): Fraction(1)})

    def key(self):
        return tuple(sorted(self.t.items()))

    def is_zero(self):
        return not self.t

    def __add__(self, o):
        r = dict(self.t)
        for k, v in o.t.items():
            r[k] = r.get(k, 0) + v
        return Poly(r)

    def __neg__(self):
        return Poly({k: -v for k, v in self.t.items()})

    def __sub__(self, o):
        return self + (-o)

    def __mul__(self, o):
        r = {}
        for k1, v1 in self.t.items():
            for k2, v2 in o.t.items():
                d = dict(k1)
                for n, e in k2:
                    d[n] = d.get(n, 0) + e
                k = tuple(sorted(d.items()))
                r[k] = r.get(k, 0) + v1 * v2
        return Poly(r).reduce()

    def reduce(self):
        """Apply atom**2 -> rule until no atom has exponent >= 2."""
        cur = self
        for _ in range(64):
            todo = None
            for k in cur.t:
                for n, e in k:
                    if e >= 2 and n in RULES.square:
                        todo = (k, n, e)
                        break
                if todo:
                    break
            if not todo:
                return cur
            k, n, e = todo
            coeff = cur.t[k]
            rest = tuple((m, x) for m, x in k if m != n)
            if e - 2 > 0:
                rest = tuple(sorted(rest + ((n, e - 2),)))
            base = Poly({kk: vv for kk, vv in cur.t.items() if kk != k})
            repl = Poly({rest: coeff})._mul_noreduce(RULES.square[n])
            cur = base + repl
        raise ArithmeticError('rewrite did not terminate')

    def _mul_noreduce(self, o):
        r = {}
        for k1, v1 in self.t.items():
            for k2, v2 in o.t.items():
                d = dict(k1)
                for n, e in k2:
                    d[n] = d.get(n, 0) + e
                k = tuple(sorted(d.items()))
                r[k] = r.get(k, 0) + v1 * v2
        return Poly(r)

    def __pow__(self, n):
        r = Poly.const(1)
        for _ in range(n):
            r = r * self
        return r

    def __eq__(self, o):
        return (self - o).reduce().is_zero()

    def __hash__(self):
        return hash(self.key())

    def __repr__(self):
        if not self.t:
            return '0'
        out = []
        for k, v in sorted(self.t.items()):
            m = '*'.join(n if e == 1 else f'{n}^{e}' for n, e in k)
            if not m:
                out.append(str(v))
            elif v == 1:
                out.append(m)
            elif v == -1:
                out.append('-' + m)
            else:
                out.append(f'{v}*{m}')
        return ' + '.join(out)


class Rat:
    __slots__ = ('n', 'd')

    def __init__(self, n, d=None):
        self.n = n
        self.d = d if d is not None else Poly.const(1)

    @staticmethod
    def const(c):
        return Rat(Poly.const(c))

    @staticmethod
    def var(name):
        return Rat(Poly.var(name))

    def __add__(self, o):
        if self.d.key() == o.d.key():
            return Rat(self.n + o.n, self.d)
        return Rat(self.n * o.d + o.n * self.d, self.d * o.d)

    def __neg__(self):
        return Rat(-self.n, self.d)

    def __sub__(self, o):
        return self + (-o)

    def __mul__(self, o):
        return Rat(self.n * o.n, self.d * o.d)

    def __truediv__(self, o):
        if o.n.is_zero():
            raise ZeroDivisionError('division by the zero polynomial')
        return Rat(self.n * o.d, self.d * o.n)

    def __pow__(self, k):
        r = Rat.const(1)
        for _ in range(k):
            r = r * self
        return r

    def equals(self, o):
        return (self.n * o.d - o.n * self.d).reduce().is_zero()

    def is_zero(self):
        return self.n.reduce().is_zero()

    def __repr__(self):
        if self.d.key() == Poly.const(1).key():
            return repr(self.n)
        return f'({self.n!r}) / ({self.d!r})'
