"""Normalisation of the parsed package before the rules run.

Every step undoes a *behaviour-preserving* presentation choice, so that the rules see the constructs under the
names and shapes they were written for; none of them changes what the code means:

1. `name = property(getter, setter)` in a class body is registered like the decorator form.
2. Private attributes that play a fixed role (the entity table, the listener table, the cache flag ...) are found by
   that role - through a public method that must use them - and renamed to the name they carry on the pinned tree.
   A consistent rename of a private attribute is therefore invisible to the rules.
3. In-repo private NamedTuple / namedtuple records are unfolded: `Rec(a, b)` becomes the tuple `(a, b)` and
   `x.field` becomes `x[i]` (only when the field name is no attribute of any class of the package).
4. Private module-level numeric constants are inlined at their uses.

What was renamed / unfolded is recorded in `program.normalised` and shown in the evidence.
"""
import ast

from .model import FuncInfo, dotted, norm


def _self_attr(n):
    if isinstance(n, ast.Attribute) and isinstance(n.value, ast.Name) \
            and n.value.id == 'self':
        return n.attr
    return None


def _walk_methods(program, cls, names):
    for nm in names:
        f = cls.methods.get(nm)
        if f is not None:
            yield f


def closure_nodes(program, cls, f, depth=2):
    return _closure_nodes(program, cls, f, depth)


def _closure_nodes(program, cls, f, depth=2):
    """The body of f and of the private helpers it calls on self."""
    out = [f.node]
    if depth <= 0:
        return out
    for c in ast.walk(f.node):
        if isinstance(c, ast.Call) and isinstance(c.func, ast.Attribute) \
                and isinstance(c.func.value, ast.Name) \
                and c.func.value.id == 'self' and c.func.attr.startswith('_') \
                and not c.func.attr.startswith('__'):
            g = cls.methods.get(c.func.attr)
            if g is not None and g.node not in out:
                out.extend(n for n in _closure_nodes(program, cls, g,
                                                      depth - 1)
                           if n not in out)
    return out


# ---------------------------------------------------------------------------
# role discovery: each returns the actual attribute name or None


def _d_world(program, cls):
    found = {}
    # pending-deletion set: delete_entity does self.X.add(<entity>)
    f = cls.methods.get('delete_entity')
    if f is not None and len(f.params()) > 1:
        ent = f.params()[1]
        for n in ast.walk(f.node):
            if isinstance(n, ast.Call) and isinstance(n.func, ast.Attribute) \
                    and n.func.attr == 'add' and _self_attr(n.func.value) \
                    and n.args and isinstance(n.args[0], ast.Name) \
                    and n.args[0].id == ent:
                found['_dead_entities'] = _self_attr(n.func.value)
    # entity table: entity_exists tests `entity in self.X`
    f = cls.methods.get('entity_exists')
    if f is not None and len(f.params()) > 1:
        ent = f.params()[1]
        for n in ast.walk(f.node):
            if isinstance(n, ast.Compare) and len(n.ops) == 1 and isinstance(
                    n.ops[0], ast.In) and isinstance(n.left, ast.Name) \
                    and n.left.id == ent and _self_attr(n.comparators[0]):
                found.setdefault('_entities', _self_attr(n.comparators[0]))
    # type index: the dict whose values are sets
    for f in cls.methods.values():
        for n in ast.walk(f.node):
            if isinstance(n, ast.Assign) and isinstance(
                    n.value, ast.Call) and dotted(n.value.func) == 'set' \
                    and not n.value.args:
                for t in n.targets:
                    if isinstance(t, ast.Subscript) and _self_attr(t.value):
                        found.setdefault('_components', _self_attr(t.value))
            if isinstance(n, ast.Call) and isinstance(n.func, ast.Attribute) \
                    and n.func.attr == 'setdefault' and _self_attr(
                        n.func.value) and len(n.args) == 2 and isinstance(
                            n.args[1], ast.Call) and dotted(
                                n.args[1].func) == 'set':
                found.setdefault('_components', _self_attr(n.func.value))
    # processor table: get_processor tests / indexes self.X with a type
    f = cls.methods.get('get_processor')
    if f is not None:
        for node in _closure_nodes(program, cls, f):
            for n in ast.walk(node):
                if isinstance(n, ast.Compare) and len(n.ops) == 1 \
                        and isinstance(n.ops[0], ast.In) and _self_attr(
                            n.comparators[0]):
                    found.setdefault('_processors',
                                     _self_attr(n.comparators[0]))
                if isinstance(n, ast.Subscript) and _self_attr(n.value):
                    found.setdefault('_processors', _self_attr(n.value))
                if isinstance(n, ast.Call) and isinstance(
                        n.func, ast.Attribute) and n.func.attr == 'get' \
                        and _self_attr(n.func.value):
                    found.setdefault('_processors', _self_attr(n.func.value))
    # execution list: the `processors` property returns (a copy of) self.X
    f = cls.methods.get('processors')
    if f is not None:
        at = {_self_attr(n) for n in ast.walk(f.node) if _self_attr(n)}
        if len(at) == 1:
            found['_sorted_processors'] = at.pop()
    return found


def _d_dispatcher(program, cls):
    found = {}
    f = cls.methods.get('dispatch')
    if f is not None and len(f.params()) > 1:
        ev = f.params()[1]
        for node in _closure_nodes(program, cls, f, 1):
            for n in ast.walk(node):
                if isinstance(n, ast.Compare) and len(n.ops) == 1 \
                        and isinstance(n.ops[0], (ast.In, ast.NotIn)) \
                        and isinstance(n.left, ast.Name) and n.left.id == ev \
                        and _self_attr(n.comparators[0]):
                    found.setdefault('_events', _self_attr(n.comparators[0]))
                if isinstance(n, ast.Call) and isinstance(
                        n.func, ast.Attribute) and n.func.attr == 'get' \
                        and _self_attr(n.func.value) and n.args \
                        and isinstance(n.args[0], ast.Name) \
                        and n.args[0].id == ev:
                    found.setdefault('_events', _self_attr(n.func.value))
                if isinstance(n, ast.Call) and isinstance(
                        n.func, ast.Attribute) and n.func.attr == 'append' \
                        and _self_attr(n.func.value):
                    found.setdefault('_event_queue',
                                     _self_attr(n.func.value))
    f = cls.methods.get('is_handler')
    if f is not None:
        for n in ast.walk(f.node):
            if isinstance(n, ast.Compare) and len(n.ops) == 1 and isinstance(
                    n.ops[0], ast.In) and _self_attr(n.comparators[0]):
                found.setdefault('_handlers', _self_attr(n.comparators[0]))
    g = program.trivial_getter_field(cls, 'dispatch_enabled')
    if g:
        found['_dispatch_enabled'] = g
    return found


def _d_handle(program, cls):
    found = {}
    g = program.trivial_getter_field(cls, 'cached')
    if g:
        found['_cached'] = g
    f = cls.methods.get('__call__')
    if f is not None:
        rets = [n for n in ast.walk(f.node) if isinstance(n, ast.Return)
                and n.value is not None and _self_attr(n.value)]
        names = {_self_attr(r.value) for r in rets}
        if len(names) == 1:
            found['_cache'] = names.pop()
    return found


def _d_loop(program, cls):
    found = {}
    for prop, canon in (('current_world', '_current_world'),
                        ('current_world_handle', '_current_world_handle')):
        g = program.trivial_getter_field(cls, prop)
        if g:
            found[canon] = g
    return found


def _d_coroutines(program, cls):
    found = {}
    init = cls.methods.get('__init__')
    for f in cls.methods.values():
        for n in ast.walk(f.node):
            if isinstance(n, ast.AugAssign) and isinstance(n.op, ast.Add) \
                    and _self_attr(n.target) and isinstance(
                        n.value, ast.Name) and n.value.id == 'dt':
                found.setdefault('_timer', _self_attr(n.target))
            if isinstance(n, ast.Call) and (dotted(n.func) or '').endswith(
                    'heappush') and n.args and _self_attr(n.args[0]):
                found.setdefault('_wait_queue', _self_attr(n.args[0]))
    if init is not None:
        for n in ast.walk(init.node):
            if isinstance(n, (ast.Assign, ast.AnnAssign)) and isinstance(
                    n.value, ast.Call) and (dotted(n.value.func) or ''
                                            ).split('.')[-1] == 'deque':
                t = n.targets[0] if isinstance(n, ast.Assign) else n.target
                if _self_attr(t):
                    found.setdefault('_active_queue', _self_attr(t))
    f = cls.methods.get('kill')
    if f is not None and len(f.params()) > 1:
        g = f.params()[1]
        for n in ast.walk(f.node):
            if isinstance(n, ast.Call) and isinstance(n.func, ast.Attribute) \
                    and n.func.attr == 'add' and _self_attr(n.func.value) \
                    and n.args and isinstance(n.args[0], ast.Name) \
                    and n.args[0].id == g:
                found.setdefault('_kill_queue', _self_attr(n.func.value))
    f = cls.methods.get('state')
    if f is not None:
        for n in ast.walk(f.node):
            a = None
            if isinstance(n, ast.Call) and isinstance(n.func, ast.Attribute) \
                    and n.func.attr == 'get':
                a = _self_attr(n.func.value)
            elif isinstance(n, ast.Subscript):
                a = _self_attr(n.value)
            elif isinstance(n, ast.Compare) and isinstance(n.ops[0], (
                    ast.In, ast.NotIn)):
                a = _self_attr(n.comparators[0])
            if a and a not in found.values():
                found.setdefault('_generators', a)
    f = cls.methods.get('start')
    if f is not None:
        for n in ast.walk(f.node):
            if isinstance(n, ast.Assign) and isinstance(
                    n.targets[0], ast.Subscript) and _self_attr(
                        n.targets[0].value) and isinstance(
                            n.value, ast.Call) and (dotted(n.value.func) or ''
                                                    ).endswith('Promise'):
                found.setdefault('_promises', _self_attr(n.targets[0].value))
    return found


ROLES = (('World', _d_world), ('EventDispatcher', _d_dispatcher),
         ('Handle', _d_handle), ('Loop', _d_loop),
         ('CoroutineProcessor', _d_coroutines))


def _all_attr_names(program):
    names = set()
    for m in program.modules.values():
        for n in ast.walk(m.tree):
            if isinstance(n, ast.Attribute):
                names.add(n.attr)
    return names


def rename_private(program, log):
    mapping = {}
    for cname, disc in ROLES:
        cs = [c for m in program.modules.values()
              for c in m.classes.values() if c.name == cname]
        if len(cs) != 1:
            continue
        try:
            found = disc(program, cs[0])
        except Exception:
            continue
        for canon, actual in found.items():
            if actual and actual != canon and actual.startswith('_') \
                    and not actual.startswith('__'):
                mapping[actual] = canon
    if not mapping:
        return
    used = _all_attr_names(program)
    # a rename is applied only if it is a bijection onto free names
    ok = {a: c for a, c in mapping.items()
          if c not in used and list(mapping.values()).count(c) == 1}
    if not ok:
        return
    for m in program.modules.values():
        for n in ast.walk(m.tree):
            if isinstance(n, ast.Attribute) and n.attr in ok:
                n.attr = ok[n.attr]
            elif isinstance(n, ast.ClassDef):
                for st in n.body:
                    if isinstance(st, ast.AnnAssign) and isinstance(
                            st.target, ast.Name) and st.target.id in ok:
                        st.target.id = ok[st.target.id]
                    if isinstance(st, ast.Assign):
                        for t in st.targets:
                            if isinstance(t, ast.Name) and t.id in ok:
                                t.id = ok[t.id]
            elif isinstance(n, ast.Constant) and isinstance(n.value, str) \
                    and n.value in ok:
                n.value = ok[n.value]
    for a, c in sorted(ok.items()):
        log.append(f'private attribute {a} analysed under its pinned name {c}')


# ---------------------------------------------------------------------------


def explicit_properties(program, log):
    for m in program.modules.values():
        for c in m.classes.values():
            for st in c.node.body:
                if not (isinstance(st, ast.Assign) and len(st.targets) == 1
                        and isinstance(st.targets[0], ast.Name)
                        and isinstance(st.value, ast.Call)
                        and dotted(st.value.func) == 'property'):
                    continue
                name = st.targets[0].id
                args = list(st.value.args)
                kw = {k.arg: k.value for k in st.value.keywords}
                fget = args[0] if args else kw.get('fget')
                fset = args[1] if len(args) > 1 else kw.get('fset')
                for fn, kind, key in ((fget, 'getter', name),
                                      (fset, 'setter', name + '.setter')):
                    if isinstance(fn, ast.Name) and fn.id in c.methods:
                        src = c.methods[fn.id]
                        c.methods[key] = FuncInfo(m, c, key, src.node, kind)
                        log.append(f'{c.name}.{name}: property({fn.id}) '
                                   f'registered as {kind}')
                for fn in (fget, fset):
                    if isinstance(fn, ast.Name):
                        c.methods.pop(fn.id, None)


# ---------------------------------------------------------------------------


def _record_classes(program):
    """{class name: [field names]} for private NamedTuple records."""
    out = {}
    for m in program.modules.values():
        for st in m.tree.body:
            if isinstance(st, ast.ClassDef) and st.name.startswith('_') \
                    and (any((dotted(b) or '').split('.')[-1] == 'NamedTuple'
                             for b in st.bases)
                         or (not st.bases and any(
                             (dotted(d.func if isinstance(d, ast.Call) else d)
                              or '').split('.')[-1] == 'dataclass'
                             and not (isinstance(d, ast.Call) and any(
                                 k.arg in ('order', 'eq', 'init')
                                 for k in d.keywords))
                             for d in st.decorator_list)
                             and all(s.value is None for s in st.body
                                     if isinstance(s, ast.AnnAssign)))):
                fields = [s.target.id for s in st.body
                          if isinstance(s, ast.AnnAssign)
                          and isinstance(s.target, ast.Name)]
                others = [s for s in st.body if not isinstance(s, ast.AnnAssign)
                          and not (isinstance(s, ast.Expr) and isinstance(
                              s.value, ast.Constant))]
                if fields and not others:
                    out[st.name] = (m, fields, st)
            if isinstance(st, ast.Assign) and len(st.targets) == 1 \
                    and isinstance(st.targets[0], ast.Name) \
                    and st.targets[0].id.startswith('_') \
                    and isinstance(st.value, ast.Call) and (dotted(
                        st.value.func) or '').split('.')[-1].lstrip('_') \
                    == 'namedtuple' and len(st.value.args) >= 2:
                f = st.value.args[1]
                fields = None
                if isinstance(f, ast.Constant) and isinstance(f.value, str):
                    fields = f.value.replace(',', ' ').split()
                elif isinstance(f, (ast.Tuple, ast.List)) and all(
                        isinstance(e, ast.Constant) for e in f.elts):
                    fields = [e.value for e in f.elts]
                if fields:
                    out[st.targets[0].id] = (m, fields, st)
    return out


def unfold_records(program, log):
    recs = _record_classes(program)
    program.records = {k: v[1] for k, v in recs.items()}
    if not recs:
        return
    # attribute names defined by classes of the package (fields that collide
    # with them cannot be rewritten by name)
    taken = set()
    for m in program.modules.values():
        for c in m.classes.values():
            if c.name in recs:
                continue
            taken |= set(c.attrs) | {k.split('.')[0] for k in c.methods}
            for n in ast.walk(c.node):
                if isinstance(n, ast.Attribute) and isinstance(
                        n.value, ast.Name) and n.value.id == 'self' \
                        and isinstance(n.ctx, ast.Store):
                    taken.add(n.attr)
    field_index = {}
    for name, (m, fields, node) in recs.items():
        if any(f in taken for f in fields):
            continue
        for i, f in enumerate(fields):
            if f in field_index and field_index[f] != i:
                field_index[f] = None
            else:
                field_index.setdefault(f, i)
    usable = {name for name, (m, fields, node) in recs.items()
              if all(field_index.get(f) is not None for f in fields)}
    # records whose field names collide with attributes of other classes are
    # still unfolded where the receiver is known to be such a record: a local
    # bound to a construction, or to a call of a function returning one
    typed_only = set(recs) - usable
    returns_rec = {}
    for f in program.all_functions():
        ann = f.node.returns
        t = None
        if isinstance(ann, ast.Constant) and isinstance(ann.value, str):
            t = ann.value
        elif ann is not None:
            t = dotted(ann)
        if t in recs:
            returns_rec[f.name] = t
        else:
            rets = [r for r in ast.walk(f.node) if isinstance(r, ast.Return)
                    and r.value is not None]
            if rets and all(isinstance(r.value, ast.Call) and dotted(
                    r.value.func) in recs for r in rets):
                names = {dotted(r.value.func) for r in rets}
                if len(names) == 1:
                    returns_rec[f.name] = names.pop()

    def rec_of_call(c):
        if not isinstance(c, ast.Call):
            return None
        d = dotted(c.func) or ''
        if d in recs:
            return d
        return returns_rec.get(d.split('.')[-1])
    if not usable and not typed_only:
        return
    for f in program.all_functions():
        local_t = {}
        for a in f.node.args.args + f.node.args.kwonlyargs:
            ann = a.annotation
            t = ann.value if isinstance(ann, ast.Constant) and isinstance(
                ann.value, str) else (dotted(ann) if ann is not None else None)
            if t in typed_only:
                local_t[a.arg] = t
        for n in ast.walk(f.node):
            if isinstance(n, ast.Assign) and len(n.targets) == 1 \
                    and isinstance(n.targets[0], ast.Name):
                t = rec_of_call(n.value)
                if t in typed_only:
                    local_t[n.targets[0].id] = t
        if not local_t:
            continue

        class TL(ast.NodeTransformer):
            def visit_Attribute(self, n):
                self.generic_visit(n)
                if isinstance(n.ctx, ast.Load) and isinstance(
                        n.value, ast.Name) and n.value.id in local_t \
                        and n.attr in recs[local_t[n.value.id]][1]:
                    i = recs[local_t[n.value.id]][1].index(n.attr)
                    return ast.copy_location(ast.Subscript(
                        n.value, ast.Constant(i), ast.Load()), n)
                return n
        TL().visit(f.node)
        ast.fix_missing_locations(f.node)
    usable = usable | typed_only

    class T(ast.NodeTransformer):
        def visit_Call(self, n):
            self.generic_visit(n)
            d = dotted(n.func)
            if d in usable and not any(isinstance(a, ast.Starred)
                                       for a in n.args):
                fields = recs[d][1]
                vals = list(n.args)
                kws = {k.arg: k.value for k in n.keywords}
                for f in fields[len(vals):]:
                    if f not in kws:
                        return n
                    vals.append(kws[f])
                if len(vals) != len(fields):
                    return n
                return ast.copy_location(ast.Tuple(vals, ast.Load()), n)
            return n

        def visit_Attribute(self, n):
            self.generic_visit(n)
            if isinstance(n.ctx, ast.Load) and n.attr in field_index \
                    and field_index[n.attr] is not None and any(
                        n.attr in recs[u][1] for u in usable) \
                    and not (isinstance(n.value, ast.Name)
                             and n.value.id in ('self', 'cls')):
                return ast.copy_location(
                    ast.Subscript(n.value, ast.Constant(field_index[n.attr]),
                                  ast.Load()), n)
            return n

    for m in program.modules.values():
        new_body = []
        for st in m.tree.body:
            if isinstance(st, ast.ClassDef) and st.name in usable:
                continue
            if isinstance(st, ast.Assign) and isinstance(
                    st.targets[0], ast.Name) and st.targets[0].id in usable:
                continue
            new_body.append(st)
        m.tree.body = new_body
        for u in usable:
            m.classes.pop(u, None)
        T().visit(m.tree)
        ast.fix_missing_locations(m.tree)
    for u in sorted(usable):
        log.append(f'private record type {u} unfolded into plain tuples')


# ---------------------------------------------------------------------------


def inline_private_constants(program, log):
    for m in program.modules.values():
        consts = {}
        assigned = {}
        for n in ast.walk(m.tree):
            if isinstance(n, ast.Name) and isinstance(n.ctx, ast.Store):
                assigned[n.id] = assigned.get(n.id, 0) + 1
        for st in m.tree.body:
            if isinstance(st, ast.Assign) and len(st.targets) == 1 \
                    and isinstance(st.targets[0], ast.Name):
                nm = st.targets[0].id
                v = st.value
                if nm.startswith('_') and not nm.startswith('__') \
                        and assigned.get(nm) == 1 and isinstance(
                            v, ast.Constant) and isinstance(
                                v.value, (int, float)) and not isinstance(
                                    v.value, bool):
                    consts[nm] = v
        if not consts:
            continue

        class T(ast.NodeTransformer):
            def visit_Name(self, n):
                if isinstance(n.ctx, ast.Load) and n.id in consts:
                    return ast.copy_location(
                        ast.Constant(consts[n.id].value), n)
                return n
        T().visit(m.tree)
        for nm in sorted(consts):
            log.append(f'{m.relpath}: private constant {nm} = '
                       f'{consts[nm].value!r} inlined')


def loops_to_comprehensions(program, log):
    """`acc = []` directly followed by `for x in X: [if C:] acc.append(e)`
    is the list comprehension `acc = [e for x in X if C]`."""
    def rewrite(body, where):
        i = 0
        while i + 1 < len(body):
            a, lp = body[i], body[i + 1]
            ok = (isinstance(a, ast.Assign) and len(a.targets) == 1
                  and isinstance(a.targets[0], ast.Name)
                  and isinstance(a.value, ast.List) and not a.value.elts
                  and isinstance(lp, ast.For) and not lp.orelse
                  and isinstance(lp.target, ast.Name) and len(lp.body) == 1)
            if ok:
                acc = a.targets[0].id
                inner = lp.body[0]
                cond = None
                if isinstance(inner, ast.If) and not inner.orelse \
                        and len(inner.body) == 1:
                    cond, inner = inner.test, inner.body[0]
                call = inner.value if isinstance(inner, ast.Expr) else None
                good = (isinstance(call, ast.Call) and isinstance(
                    call.func, ast.Attribute) and call.func.attr == 'append'
                    and isinstance(call.func.value, ast.Name)
                    and call.func.value.id == acc and len(call.args) == 1
                    and not call.keywords)
                uses_acc = any(isinstance(x, ast.Name) and x.id == acc
                               for part in ([lp.iter, call.args[0]] if good
                                            else []) + ([cond] if cond else [])
                               for x in ast.walk(part))
                if good and not uses_acc:
                    comp = ast.ListComp(
                        call.args[0],
                        [ast.comprehension(lp.target, lp.iter,
                                           [cond] if cond is not None else [],
                                           0)])
                    new = ast.Assign([ast.Name(acc, ast.Store())], comp)
                    ast.copy_location(new, a)
                    ast.fix_missing_locations(new)
                    body[i:i + 2] = [new]
                    log.append(f'{where}: accumulation loop into `{acc}` read '
                               'as a list comprehension')
                    continue
            i += 1
        for st in body:
            for fld in ('body', 'orelse', 'finalbody'):
                sub_ = getattr(st, fld, None)
                if isinstance(sub_, list) and sub_ and isinstance(
                        sub_[0], ast.stmt):
                    rewrite(sub_, where)
            for h in getattr(st, 'handlers', []) or []:
                rewrite(h.body, where)
    for f in program.all_functions():
        rewrite(f.node.body, f.where)


def inline_simple_decorators(program, log):
    """A method decorated with a private in-repo decorator (factory) whose
    wrapper calls the decorated function exactly once, unconditionally, with
    its own parameters, is replaced by the wrapper body with that call
    expanded into the original body."""
    import copy

    def shape(fn_node):
        """(factory params, name of the decorated-function parameter, wrapper
        FunctionDef) for `def _d(p..): def decorator(f): def w(..): ..;
        return w; return decorator`, or the one-level form."""
        body = [s for s in fn_node.body if not (isinstance(s, ast.Expr)
                and isinstance(s.value, ast.Constant))]
        if len(body) == 2 and isinstance(body[0], ast.FunctionDef) \
                and isinstance(body[1], ast.Return) and isinstance(
                    body[1].value, ast.Name) \
                and body[1].value.id == body[0].name:
            inner = body[0]
            ibody = [s for s in inner.body if not (isinstance(s, ast.Expr)
                     and isinstance(s.value, ast.Constant))]
            if len(ibody) == 2 and isinstance(ibody[0], ast.FunctionDef) \
                    and isinstance(ibody[1], ast.Return) and isinstance(
                        ibody[1].value, ast.Name) and ibody[1].value.id == \
                    ibody[0].name and len(inner.args.args) == 1:
                # factory
                return ([a.arg for a in fn_node.args.args],
                        inner.args.args[0].arg, ibody[0])
            if len(fn_node.args.args) == 1:
                return ([], fn_node.args.args[0].arg, inner) \
                    if all(isinstance(s, (ast.Expr, ast.Return, ast.Assign,
                                          ast.If, ast.AugAssign))
                           for s in ibody) else None
        return None

    for m in program.modules.values():
        decos = {}
        for name, f in m.functions.items():
            if name.startswith('_') and not name.startswith('__'):
                sh = shape(f.node)
                if sh is not None:
                    decos[name] = sh
        if not decos:
            continue
        for c in m.classes.values():
            for key, meth in list(c.methods.items()):
                node = meth.node
                for d in list(node.decorator_list):
                    dn = dotted(d.func) if isinstance(d, ast.Call) \
                        else dotted(d)
                    if dn not in decos:
                        continue
                    fparams, fname, wrapper = decos[dn]
                    dargs = d.args if isinstance(d, ast.Call) else []
                    if len(dargs) != len(fparams) or (isinstance(
                            d, ast.Call) and d.keywords):
                        continue
                    wps = [a.arg for a in wrapper.args.args]
                    ops = [a.arg for a in node.args.args]
                    if len(wps) != len(ops) or wrapper.args.vararg \
                            or wrapper.args.kwarg:
                        continue
                    wbody = [s for s in wrapper.body if not (isinstance(
                        s, ast.Expr) and isinstance(s.value, ast.Constant))]
                    calls = [i for i, s in enumerate(wbody) if isinstance(
                        s, ast.Expr) and isinstance(s.value, ast.Call)
                        and dotted(s.value.func) == fname
                        and [norm_name(a) for a in s.value.args] == wps]
                    n_refs = sum(1 for s in wrapper.body for x in ast.walk(s)
                                 if isinstance(x, ast.Name) and x.id == fname)
                    has_ret = any(isinstance(x, ast.Return)
                                  for x in ast.walk(node))
                    if len(calls) != 1 or n_refs != 1 or has_ret:
                        continue
                    env = dict(zip(fparams, dargs))
                    ren = dict(zip(wps, ops))

                    class S(ast.NodeTransformer):
                        def visit_Name(self, x):
                            if x.id in env:
                                return copy.deepcopy(env[x.id])
                            if x.id in ren:
                                return ast.copy_location(
                                    ast.Name(ren[x.id], x.ctx), x)
                            return x
                    pre = [S().visit(copy.deepcopy(s))
                           for s in wbody[:calls[0]]]
                    post = [S().visit(copy.deepcopy(s))
                            for s in wbody[calls[0] + 1:]]
                    for s in pre + post:
                        for x in ast.walk(s):
                            if not hasattr(x, 'lineno'):
                                continue
                            x.lineno = x.end_lineno = node.lineno
                    node.body = pre + node.body + post
                    node.decorator_list.remove(d)
                    ast.fix_missing_locations(node)
                    log.append(f'{c.name}.{key}: decorator {dn} expanded '
                               'into the method body')


def walrus_out(program, log):
    """`while (x := E) <cmp> K: BODY`  ->  `while True: x = E; if not (x
    <cmp> K): break; BODY`   and   `if (x := E) ...:` -> `x = E; if x ...:`
    (the assignment expression must be the first thing the test evaluates)."""
    def first_walrus(test):
        t = test
        path = []
        while True:
            if isinstance(t, ast.NamedExpr) and isinstance(t.target, ast.Name):
                return t
            if isinstance(t, ast.Compare):
                t = t.left
            elif isinstance(t, ast.BoolOp):
                t = t.values[0]
            elif isinstance(t, ast.UnaryOp) and isinstance(t.op, ast.Not):
                t = t.operand
            else:
                return None

    def count_walrus(node):
        return sum(1 for x in ast.walk(node) if isinstance(x, ast.NamedExpr))

    def replace(test, w):
        class R(ast.NodeTransformer):
            def visit_NamedExpr(self, n):
                return ast.copy_location(ast.Name(n.target.id, ast.Load()), n) \
                    if n is w else n
        return R().visit(test)

    def rewrite(body, where):
        i = 0
        while i < len(body):
            st = body[i]
            if isinstance(st, (ast.While, ast.If)) and count_walrus(
                    st.test) == 1:
                w = first_walrus(st.test)
                if w is not None:
                    assign = ast.copy_location(ast.Assign(
                        [ast.Name(w.target.id, ast.Store())], w.value), st)
                    test = replace(st.test, w)
                    if isinstance(st, ast.If):
                        st.test = test
                        body[i:i + 1] = [assign, st]
                        i += 1
                    elif not st.orelse:
                        # x = E; while x <cmp> K: BODY; x = E   (the
                        # re-evaluation also precedes every `continue`)
                        import copy as _copy

                        def add_before_continue(stmts):
                            out = []
                            for s_ in stmts:
                                if isinstance(s_, ast.Continue):
                                    out.append(_copy.deepcopy(assign))
                                elif not isinstance(s_, (ast.While, ast.For,
                                                         ast.FunctionDef)):
                                    for fld_ in ('body', 'orelse',
                                                 'finalbody'):
                                        sub2 = getattr(s_, fld_, None)
                                        if isinstance(sub2, list) and sub2 \
                                                and isinstance(sub2[0],
                                                               ast.stmt):
                                            setattr(s_, fld_,
                                                    add_before_continue(sub2))
                                    for h_ in getattr(s_, 'handlers',
                                                      []) or []:
                                        h_.body = add_before_continue(h_.body)
                                out.append(s_)
                            return out
                        st.test = test
                        st.body = add_before_continue(st.body) + [
                            _copy.deepcopy(assign)]
                        body[i:i + 1] = [assign, st]
                        i += 1
                    ast.fix_missing_locations(st)
                    ast.fix_missing_locations(assign)
                    log.append(f'{where}: assignment expression in the test '
                               f'at line {st.lineno} written out')
            for fld in ('body', 'orelse', 'finalbody'):
                sub_ = getattr(st, fld, None)
                if isinstance(sub_, list) and sub_ and isinstance(
                        sub_[0], ast.stmt):
                    rewrite(sub_, where)
            for h in getattr(st, 'handlers', []) or []:
                rewrite(h.body, where)
            i += 1
    for f in program.all_functions():
        rewrite(f.node.body, f.where)


def inline_aliases(program, log):
    """A local bound once to a private table of self (or to a bound method of
    it, of another local, of a module) is a pure alias when nothing can
    rebind what it names: `events = self._events`, `add = visited.add`,
    `set_slot = object.__setattr__`.  Its uses are replaced by the named
    expression.  NOT done for an attribute that some method other than
    __init__ rebinds (a copy of such an attribute is a value taken at that
    moment - exactly what the stale-copy rules look for) and not for public
    attributes (they may be properties)."""
    import copy

    _ra_cache = {}

    def rebound_attrs(cls):
        if id(cls) in _ra_cache:
            return _ra_cache[id(cls)]
        out = _ra_cache.setdefault(id(cls), set())
        for m in cls.methods.values():
            if m.name == '__init__':
                continue
            for n in ast.walk(m.node):
                tg = []
                if isinstance(n, ast.Assign):
                    tg = [t for tt in n.targets for t in (
                        tt.elts if isinstance(tt, ast.Tuple) else [tt])]
                elif isinstance(n, (ast.AugAssign, ast.AnnAssign)):
                    tg = [n.target]
                elif isinstance(n, ast.Delete):
                    tg = n.targets
                for t in tg:
                    if isinstance(t, ast.Attribute) and isinstance(
                            t.value, ast.Name) and t.value.id == 'self':
                        out.add(t.attr)
        return out

    def chain_parts(e):
        parts = []
        while isinstance(e, ast.Attribute):
            parts.append(e.attr)
            e = e.value
        if isinstance(e, ast.Name):
            return e.id, list(reversed(parts))
        return None, None

    _fam_cache = {}
    for f in program.all_functions():
        fn = f.node
        cls = f.cls
        rebound = set()
        if cls is not None:
            if id(cls) not in _fam_cache:
                family = list(program.mro(cls)) + list(
                    program.subclasses(cls, strict=False))
                fr = set()
                for b in family:
                    fr |= rebound_attrs(b)
                # class-level defaults (x: bool = True) are values
                for b in family:
                    fr |= set(b.attrs)
                _fam_cache[id(cls)] = fr
            rebound = _fam_cache[id(cls)]
        params = {a.arg for a in fn.args.posonlyargs + fn.args.args
                  + fn.args.kwonlyargs}
        if fn.args.vararg:
            params.add(fn.args.vararg.arg)
        if fn.args.kwarg:
            params.add(fn.args.kwarg.arg)
        stores = {}
        aug_targets = {id(n.target) for n in ast.walk(fn)
                       if isinstance(n, ast.AugAssign)}
        aug_names = set()
        for n in ast.walk(fn):
            if isinstance(n, ast.Name) and isinstance(n.ctx, (ast.Store,
                                                              ast.Del)):
                if id(n) in aug_targets:
                    aug_names.add(n.id)     # in place for lists / deques
                    continue
                stores[n.id] = stores.get(n.id, 0) + 1
            if isinstance(n, (ast.Global, ast.Nonlocal)):
                for nm in n.names:
                    stores[nm] = 99
        for nm in aug_names:
            # x += .. rebinds numbers and strings: only containers created
            # by a display / constructor stay the same object
            made = [a for a in ast.walk(fn) if isinstance(a, ast.Assign)
                    and any(isinstance(t, ast.Name) and t.id == nm
                            for t in a.targets)]
            if not (len(made) == 1 and isinstance(
                    made[0].value, (ast.List, ast.Set, ast.Dict, ast.ListComp))
                    or (len(made) == 1 and isinstance(made[0].value, ast.Call)
                        and dotted(made[0].value.func) in (
                            'list', 'deque', 'set', 'dict',
                            'collections.deque'))):
                stores[nm] = 99
        # names bound by nested function definitions are left alone
        nested = [n for n in ast.walk(fn) if isinstance(
            n, (ast.FunctionDef, ast.Lambda)) and n is not fn]
        cands = {}
        for st in ast.walk(fn):
            if not (isinstance(st, ast.Assign) and len(st.targets) == 1
                    and isinstance(st.targets[0], ast.Name)):
                continue
            v = st.targets[0].id
            if stores.get(v) != 1 or v in params:
                continue
            root, parts = chain_parts(st.value)
            if root is None or not parts:
                continue
            ok = False
            if root == 'self' and cls is not None:
                first = parts[0]
                ok = first.startswith('_') and not first.startswith('__') \
                    and first not in rebound and len(parts) <= 2
            elif root in params or stores.get(root, 0) == 1:
                # method of a local / parameter that is bound once
                ok = len(parts) == 1 and (parts[0] == '__class__' or (
                    not parts[0].startswith('_')
                    and root not in ('self', 'cls')))
                if root in params and stores.get(root, 0) != 0:
                    ok = False
            elif root not in stores and root not in params:
                # module-level name (object.__setattr__, heapq.heappush)
                ok = len(parts) == 1 and program.lookup(
                    f.module, root) is not None or root in ('object',)
            if ok:
                cands[v] = st
        if not cands:
            continue
        done = []
        for v, st in cands.items():
            if any(isinstance(x, ast.Name) and x.id == v for nf in nested
                   for x in ast.walk(nf)):
                continue
            loads = [x for x in ast.walk(fn) if isinstance(x, ast.Name)
                     and x.id == v and isinstance(x.ctx, ast.Load)]
            if not loads or any(x.lineno < st.lineno for x in loads):
                continue
            expr = st.value

            class R(ast.NodeTransformer):
                def visit_Name(self, x):
                    if x.id == v and isinstance(x.ctx, ast.Load):
                        return ast.copy_location(copy.deepcopy(expr), x)
                    return x

                def visit_Assign(self, a):
                    if a is st:
                        p_ = ast.copy_location(ast.Pass(), a)
                        p_._alias_removed = True
                        return p_
                    return self.generic_visit(a)
            R().visit(fn)
            done.append(v)
            for holder in ast.walk(fn):
                for fld in ('body', 'orelse', 'finalbody'):
                    lst = getattr(holder, fld, None)
                    if isinstance(lst, list) and len(lst) > 1:
                        kept = [x for x in lst
                                if not getattr(x, '_alias_removed', False)]
                        if kept and len(kept) != len(lst):
                            setattr(holder, fld, kept)
        if done:
            ast.fix_missing_locations(fn)
            log.append(f'{f.where}: alias(es) {", ".join(sorted(done))} '
                       'replaced by what they name')


def slices_of_islice(program, log):
    """islice(xs, len(xs) - k) over a list is xs[:-k]; islice(xs, k) is
    xs[:k] (only the iteration idiom is rewritten: `for .. in islice(..)`)."""
    for f in program.all_functions():
        for n in ast.walk(f.node):
            if not (isinstance(n, (ast.For, ast.comprehension))
                    and isinstance(n.iter, ast.Call)):
                continue
            c = n.iter
            d = dotted(c.func) or ''
            r = program.lookup(f.module, d) if d else None
            if not (r and r[0] == 'external' and str(r[1]).endswith(
                    'itertools.islice')) or len(c.args) != 2 or c.keywords:
                continue
            xs, stop = c.args
            if not isinstance(xs, ast.Name):
                continue
            new = None
            if isinstance(stop, ast.BinOp) and isinstance(stop.op, ast.Sub) \
                    and isinstance(stop.left, ast.Call) and dotted(
                        stop.left.func) == 'len' and len(
                            stop.left.args) == 1 and isinstance(
                                stop.left.args[0], ast.Name) \
                    and stop.left.args[0].id == xs.id and isinstance(
                        stop.right, ast.Constant) and isinstance(
                            stop.right.value, int) and stop.right.value > 0:
                new = ast.Subscript(xs, ast.Slice(None, ast.UnaryOp(
                    ast.USub(), ast.Constant(stop.right.value)), None),
                    ast.Load())
            elif isinstance(stop, ast.Constant) and isinstance(
                    stop.value, int) and stop.value >= 0:
                new = ast.Subscript(xs, ast.Slice(None, stop, None),
                                    ast.Load())
            if new is not None:
                n.iter = ast.copy_location(new, c)
                ast.fix_missing_locations(n.iter)
                log.append(f'{f.where}: islice over {xs.id} read as a slice')


def pop_last_idiom(program, log):
    """`last = xs.pop()` on a local list that is afterwards only iterated
    (`for x in xs`) reads `last = xs[-1]` ... `for x in xs[:-1]`."""
    for f in program.all_functions():
        fn = f.node
        stores = {}
        for n in ast.walk(fn):
            if isinstance(n, ast.Name) and isinstance(n.ctx, ast.Store):
                stores[n.id] = stores.get(n.id, 0) + 1
        for st in ast.walk(fn):
            if not (isinstance(st, ast.Assign) and len(st.targets) == 1
                    and isinstance(st.targets[0], ast.Name)
                    and isinstance(st.value, ast.Call)
                    and isinstance(st.value.func, ast.Attribute)
                    and st.value.func.attr == 'pop' and not st.value.args
                    and not st.value.keywords
                    and isinstance(st.value.func.value, ast.Name)):
                continue
            xs = st.value.func.value.id
            if stores.get(xs) != 1:
                continue
            origin = [a for a in ast.walk(fn) if isinstance(a, ast.Assign)
                      and any(isinstance(t, ast.Name) and t.id == xs
                              for t in a.targets)]
            if len(origin) != 1 or not isinstance(origin[0].value, ast.Call):
                continue        # must be a fresh list (a call result)
            loads = [x for x in ast.walk(fn) if isinstance(x, ast.Name)
                     and x.id == xs and isinstance(x.ctx, ast.Load)
                     and x is not st.value.func.value]
            iters = {id(n.iter): n for n in ast.walk(fn)
                     if isinstance(n, (ast.For, ast.comprehension))}
            after = [x for x in loads if x.lineno > st.lineno]
            before = [x for x in loads if x.lineno <= st.lineno]
            if before or not after or not all(id(x) in iters for x in after):
                continue
            st.value = ast.copy_location(ast.Subscript(
                ast.Name(xs, ast.Load()), ast.UnaryOp(
                    ast.USub(), ast.Constant(1)), ast.Load()), st.value)
            for x in after:
                iters[id(x)].iter = ast.copy_location(ast.Subscript(
                    ast.Name(xs, ast.Load()), ast.Slice(None, ast.UnaryOp(
                        ast.USub(), ast.Constant(1)), None), ast.Load()), x)
            ast.fix_missing_locations(fn)
            log.append(f'{f.where}: `{st.targets[0].id} = {xs}.pop()` + '
                       f'iteration read as {xs}[-1] / {xs}[:-1]')


def context_managers_to_try(program, log):
    """`with _CM(a, ..): BODY` for a private context-manager class of the
    package whose __init__ only files its arguments, whose __enter__ is
    straight-line and returns nothing, and whose __exit__ has the shape

        if exc_type is not None and issubclass(exc_type, X): STMTS; return True
        return False

    reads   ENTER; try: BODY; except X: STMTS   (self.<field> replaced by the
    argument filed under it).  Anything else is left alone."""
    import copy as _copy

    def simple_init(c):
        ini = c.methods.get('__init__')
        if ini is None:
            return None
        ps = ini.params()[1:]
        fields = {}
        for s in strip(ini.node.body):
            if isinstance(s, ast.AnnAssign) and s.value is not None:
                tg, v = s.target, s.value
            elif isinstance(s, ast.Assign) and len(s.targets) == 1:
                tg, v = s.targets[0], s.value
            else:
                return None
            if not (isinstance(tg, ast.Attribute) and isinstance(
                    tg.value, ast.Name) and tg.value.id == 'self'
                    and isinstance(v, ast.Name) and v.id in ps):
                return None
            fields[tg.attr] = ps.index(v.id)
        return ps, fields

    def strip(body):
        return [s for s in body if not (isinstance(s, ast.Expr) and isinstance(
            s.value, ast.Constant) and isinstance(s.value.value, str))
            and not isinstance(s, ast.Pass)]

    def subst(stmts, fields, args):
        class R(ast.NodeTransformer):
            ok = True

            def visit_Attribute(self, n):
                if isinstance(n.value, ast.Name) and n.value.id == 'self':
                    if n.attr in fields and isinstance(n.ctx, ast.Load):
                        return ast.copy_location(
                            _copy.deepcopy(args[fields[n.attr]]), n)
                    R.ok = False
                    return n
                return self.generic_visit(n)

            def visit_Name(self, n):
                if n.id == 'self':
                    R.ok = False
                return n
        R.ok = True
        out = [R().visit(_copy.deepcopy(s)) for s in stmts]
        return out if R.ok else None

    def rewrite(body, f):
        for i, st in enumerate(list(body)):
            for fld in ('body', 'orelse', 'finalbody'):
                sub_ = getattr(st, fld, None)
                if isinstance(sub_, list) and sub_ and isinstance(
                        sub_[0], ast.stmt):
                    rewrite(sub_, f)
            for h in getattr(st, 'handlers', []) or []:
                rewrite(h.body, f)
            if not (isinstance(st, ast.With) and len(st.items) == 1
                    and st.items[0].optional_vars is None
                    and isinstance(st.items[0].context_expr, ast.Call)
                    and not st.items[0].context_expr.keywords):
                continue
            call = st.items[0].context_expr
            nm = dotted(call.func) or ''
            c = program.lookup_class(f.module, nm)
            if c is None or not nm.split('.')[-1].startswith('_') or \
                    c.node.bases or not {'__enter__', '__exit__'} <= set(
                        c.methods):
                continue
            si = simple_init(c)
            if si is None or len(call.args) != len(si[0]) or not all(
                    isinstance(a, ast.Name) for a in call.args):
                continue
            ps, fields = si
            en = strip(c.methods['__enter__'].node.body)
            if any(isinstance(x, (ast.Return, ast.If, ast.For, ast.While,
                                  ast.Try, ast.With, ast.Raise, ast.Yield))
                   for s in en for x in ast.walk(s)):
                continue
            exf = c.methods['__exit__']
            xp = exf.params()
            xb = strip(exf.node.body)
            if len(xp) != 4 or not (1 <= len(xb) <= 2 and isinstance(
                    xb[0], ast.If) and not xb[0].orelse):
                continue
            if len(xb) == 2 and not (isinstance(xb[1], ast.Return) and (
                    xb[1].value is None or (isinstance(
                        xb[1].value, ast.Constant)
                        and not xb[1].value.value))):
                continue
            t = xb[0].test
            et, evn = xp[1], xp[2]
            conj = t.values if isinstance(t, ast.BoolOp) and isinstance(
                t.op, ast.And) else [t]
            cls_node = None
            okshape = True
            for cj in conj:
                tx = norm(cj)
                if tx in (f'{et} is not None', f'{evn} is not None'):
                    continue
                if isinstance(cj, ast.Call) and len(cj.args) == 2 and (
                        (dotted(cj.func) == 'issubclass'
                         and norm(cj.args[0]) == et)
                        or (dotted(cj.func) == 'isinstance'
                            and norm(cj.args[0]) == evn)) \
                        and cls_node is None:
                    cls_node = cj.args[1]
                    continue
                okshape = False
            hb = xb[0].body
            if not okshape or cls_node is None or not hb or not (
                    isinstance(hb[-1], ast.Return) and isinstance(
                        hb[-1].value, ast.Constant)
                    and hb[-1].value.value is True):
                continue
            hb = hb[:-1]
            if any(isinstance(x, (ast.Return, ast.Name)) and (
                    isinstance(x, ast.Return) or x.id in xp[1:])
                    for s in hb for x in ast.walk(s)):
                continue
            en2 = subst(en, fields, call.args)
            hb2 = subst(hb, fields, call.args)
            if en2 is None or hb2 is None:
                continue
            tr = ast.Try(body=st.body, handlers=[ast.ExceptHandler(
                type=_copy.deepcopy(cls_node), name=None,
                body=hb2 or [ast.Pass()])], orelse=[], finalbody=[])
            new = en2 + [tr]
            for n_ in new:
                ast.copy_location(n_, st)
                ast.fix_missing_locations(n_)
            j = body.index(st)
            body[j:j + 1] = new
            log.append(f'{f.where}: `with {norm(call)}` read as its '
                       f'__enter__ followed by try/except {norm(cls_node)} '
                       '(its __exit__)')

    for f in program.all_functions():
        rewrite(f.node.body, f)


def setdefault_fresh(program, log):
    """`x = Fresh()` immediately followed by `if D.setdefault(k, x) is x: BODY`
    reads `if k not in D: x = Fresh(); D[k] = x; BODY` - setdefault returns the
    brand-new object exactly when the key was absent.  Fresh() is `{}`, `[]`,
    `set()`, `dict()`, `list()` or an argument-less constructor of an in-repo
    class whose __init__ only initialises fields."""
    import copy as _copy

    def plain_ctor(f, v):
        if isinstance(v, (ast.Dict, ast.List, ast.Set)):
            return not (getattr(v, 'keys', None) or getattr(v, 'elts', None))
        if not (isinstance(v, ast.Call) and not v.args and not v.keywords):
            return False
        d = dotted(v.func) or ''
        if d in ('dict', 'list', 'set'):
            return True
        c = program.lookup_class(f.module, d)
        if c is None:
            return False
        ini = c.methods.get('__init__')
        if ini is None:
            return True
        for s in ini.node.body:
            if isinstance(s, ast.Expr) and isinstance(s.value, ast.Constant):
                continue
            tg = s.targets[0] if isinstance(s, ast.Assign) and len(
                s.targets) == 1 else getattr(s, 'target', None)
            if not (isinstance(s, (ast.Assign, ast.AnnAssign)) and _self_attr(
                    tg) is not None and s.value is not None):
                return False
            if any(isinstance(x, ast.Call) and (dotted(x.func) or ''
                                                ).split('.')[-1] not in (
                    'dict', 'list', 'set', 'ChainMap', 'deque', 'frozenset')
                    for x in ast.walk(s.value)):
                return False
        return True

    def rewrite(body, f):
        i = 0
        while i < len(body):
            st = body[i]
            for fld in ('body', 'orelse', 'finalbody'):
                sub_ = getattr(st, fld, None)
                if isinstance(sub_, list) and sub_ and isinstance(
                        sub_[0], ast.stmt):
                    rewrite(sub_, f)
            for h in getattr(st, 'handlers', []) or []:
                rewrite(h.body, f)
            nxt = body[i + 1] if i + 1 < len(body) else None
            if isinstance(st, ast.Assign) and len(st.targets) == 1 \
                    and isinstance(st.targets[0], ast.Name) \
                    and plain_ctor(f, st.value) \
                    and isinstance(nxt, ast.If) and not nxt.orelse \
                    and isinstance(nxt.test, ast.Compare) \
                    and len(nxt.test.ops) == 1 \
                    and isinstance(nxt.test.ops[0], ast.Is) \
                    and isinstance(nxt.test.comparators[0], ast.Name) \
                    and nxt.test.comparators[0].id == st.targets[0].id \
                    and isinstance(nxt.test.left, ast.Call) \
                    and isinstance(nxt.test.left.func, ast.Attribute) \
                    and nxt.test.left.func.attr == 'setdefault' \
                    and len(nxt.test.left.args) == 2 \
                    and isinstance(nxt.test.left.args[1], ast.Name) \
                    and nxt.test.left.args[1].id == st.targets[0].id:
                x = st.targets[0].id
                inside = {id(n) for s in nxt.body for n in ast.walk(s)}
                uses = [n for n in ast.walk(f.node) if isinstance(n, ast.Name)
                        and n.id == x and n is not st.targets[0]
                        and n is not nxt.test.comparators[0]
                        and n is not nxt.test.left.args[1]]
                if all(id(n) in inside for n in uses):
                    d_, k_ = nxt.test.left.func.value, nxt.test.left.args[0]
                    new_if = ast.If(
                        test=ast.Compare(_copy.deepcopy(k_), [ast.NotIn()],
                                         [_copy.deepcopy(d_)]),
                        body=[st, ast.Assign(
                            [ast.Subscript(_copy.deepcopy(d_),
                                           _copy.deepcopy(k_), ast.Store())],
                            ast.Name(x, ast.Load()))] + nxt.body,
                        orelse=[])
                    ast.copy_location(new_if, nxt)
                    for n_ in ast.walk(new_if):
                        if not hasattr(n_, 'lineno'):
                            ast.copy_location(n_, nxt)
                    ast.fix_missing_locations(new_if)
                    body[i:i + 2] = [new_if]
                    log.append(f'{f.where}: `{x} = <fresh>` + `if ...'
                               f'.setdefault(k, {x}) is {x}` read as a '
                               'membership test, construction and store')
                    continue
            i += 1

    for f in program.all_functions():
        rewrite(f.node.body, f)


def drain_loops(program, log):
    """`while D: k, v = D.popitem(); BODY` (D a local or an attribute chain;
    BODY without calls, without mention of D, k unused) reads
    `for v in D.values(): BODY` followed by `D.clear()`: every value is
    visited once and D ends empty; BODY cannot observe the difference."""
    import copy as _copy

    def rewrite(body, f):
        i = 0
        while i < len(body):
            st = body[i]
            for fld in ('body', 'orelse', 'finalbody'):
                sub_ = getattr(st, fld, None)
                if isinstance(sub_, list) and sub_ and isinstance(
                        sub_[0], ast.stmt):
                    rewrite(sub_, f)
            for h in getattr(st, 'handlers', []) or []:
                rewrite(h.body, f)
            if isinstance(st, ast.While) and not st.orelse and st.body \
                    and dotted(st.test) and isinstance(
                        st.body[0], ast.Assign) \
                    and len(st.body[0].targets) == 1 \
                    and isinstance(st.body[0].targets[0], ast.Tuple) \
                    and len(st.body[0].targets[0].elts) == 2 \
                    and all(isinstance(e, ast.Name)
                            for e in st.body[0].targets[0].elts) \
                    and isinstance(st.body[0].value, ast.Call) \
                    and isinstance(st.body[0].value.func, ast.Attribute) \
                    and st.body[0].value.func.attr == 'popitem' \
                    and not st.body[0].value.args \
                    and dotted(st.body[0].value.func.value) == dotted(
                        st.test):
                d_ = dotted(st.test)
                k_, v_ = [e.id for e in st.body[0].targets[0].elts]
                rest = st.body[1:]
                clean = not any(
                    isinstance(x, (ast.Call, ast.Break, ast.Continue,
                                   ast.Return, ast.Yield, ast.Await))
                    or (dotted(x) == d_) or (isinstance(x, ast.Name)
                                             and x.id == k_)
                    for s in rest for x in ast.walk(s))
                if clean and rest:
                    loop = ast.For(
                        target=ast.Name(v_, ast.Store()),
                        iter=ast.Call(ast.Attribute(_copy.deepcopy(st.test),
                                                    'values', ast.Load()),
                                      [], []),
                        body=rest, orelse=[])
                    clr = ast.Expr(ast.Call(ast.Attribute(
                        _copy.deepcopy(st.test), 'clear', ast.Load()), [], []))
                    for n_ in (loop, clr):
                        ast.copy_location(n_, st)
                        ast.fix_missing_locations(n_)
                    body[i:i + 1] = [loop, clr]
                    log.append(f'{f.where}: `while {d_}: _, {v_} = {d_}'
                               '.popitem()` read as a loop over the values '
                               'followed by clear()')
                    i += 2
                    continue
            i += 1

    for f in program.all_functions():
        rewrite(f.node.body, f)


def split_parallel_assign(program, log):
    """`a, b = X, Y` with X, Y plain reads (names, attribute chains, constants)
    none of which mentions a or b reads `a = X; b = Y`."""
    def rewrite(body, f):
        i = 0
        while i < len(body):
            st = body[i]
            for fld in ('body', 'orelse', 'finalbody'):
                sub_ = getattr(st, fld, None)
                if isinstance(sub_, list) and sub_ and isinstance(
                        sub_[0], ast.stmt):
                    rewrite(sub_, f)
            for h in getattr(st, 'handlers', []) or []:
                rewrite(h.body, f)
            if isinstance(st, ast.Assign) and len(st.targets) == 1 \
                    and isinstance(st.targets[0], ast.Tuple) \
                    and isinstance(st.value, ast.Tuple) \
                    and len(st.targets[0].elts) == len(st.value.elts) \
                    and all(isinstance(t, ast.Name)
                            for t in st.targets[0].elts) \
                    and all(isinstance(v, ast.Constant) or dotted(v)
                            for v in st.value.elts):
                names = {t.id for t in st.targets[0].elts}
                if not any(isinstance(x, ast.Name) and x.id in names
                           for v in st.value.elts for x in ast.walk(v)):
                    new = [ast.copy_location(ast.Assign([t], v), st)
                           for t, v in zip(st.targets[0].elts, st.value.elts)]
                    for n_ in new:
                        ast.fix_missing_locations(n_)
                    body[i:i + 1] = new
                    log.append(f'{f.where}: parallel assignment at line '
                               f'{st.lineno} split')
                    i += len(new)
                    continue
            i += 1
    for f in program.all_functions():
        rewrite(f.node.body, f)


def stat_probe(program, log):
    """`try: m = os.stat(P).st_mode` / `except (OSError, ValueError): SKIP`
    (SKIP ends in continue / return / raise) with m used only as
    `stat.S_ISDIR(m)` reads `if not os.path.exists(P): SKIP` and
    `os.path.isdir(P)`: exists() answers False for exactly the errors of
    os.stat it swallows - OSError and ValueError - and isdir() is S_ISDIR of
    the same stat.  A narrower handler (FileNotFoundError) is left alone."""
    import copy as _copy

    def rewrite(body, f):
        i = 0
        while i < len(body):
            st = body[i]
            for fld in ('body', 'orelse', 'finalbody'):
                sub_ = getattr(st, fld, None)
                if isinstance(sub_, list) and sub_ and isinstance(
                        sub_[0], ast.stmt):
                    rewrite(sub_, f)
            for h in getattr(st, 'handlers', []) or []:
                rewrite(h.body, f)
            if not (isinstance(st, ast.Try) and len(st.body) == 1
                    and len(st.handlers) == 1 and not st.orelse
                    and not st.finalbody
                    and isinstance(st.body[0], ast.Assign)
                    and len(st.body[0].targets) == 1
                    and isinstance(st.body[0].targets[0], ast.Name)):
                i += 1
                continue
            a = st.body[0]
            v = a.value
            if not (isinstance(v, ast.Attribute) and v.attr == 'st_mode'
                    and isinstance(v.value, ast.Call)
                    and dotted(v.value.func) == 'os.stat'
                    and len(v.value.args) == 1 and not v.value.keywords
                    and (dotted(v.value.args[0])
                         or isinstance(v.value.args[0], ast.Name))):
                i += 1
                continue
            h = st.handlers[0]
            tys = h.type.elts if isinstance(h.type, ast.Tuple) else (
                [h.type] if h.type is not None else [])
            if {dotted(t) for t in tys} != {'OSError', 'ValueError'} \
                    or h.name or not isinstance(
                        h.body[-1], (ast.Continue, ast.Return, ast.Raise)):
                i += 1
                continue
            m, P = a.targets[0].id, v.value.args[0]
            uses = [n for n in ast.walk(f.node) if isinstance(n, ast.Name)
                    and n.id == m and n is not a.targets[0]]
            calls = [n for n in ast.walk(f.node) if isinstance(n, ast.Call)
                     and dotted(n.func) == 'stat.S_ISDIR' and len(n.args) == 1
                     and isinstance(n.args[0], ast.Name)
                     and n.args[0].id == m]
            stores = [n for n in ast.walk(f.node) if isinstance(n, ast.Name)
                      and n.id in {x.id for x in ast.walk(P)
                                   if isinstance(x, ast.Name)}
                      and isinstance(n.ctx, ast.Store)]
            if len(uses) != len(calls) or not calls or len(stores) > 1:
                i += 1
                continue
            alias = 'os.path'
            for k, val in f.module.imports.items():
                if val == ('module', 'os.path'):
                    alias = k

            def path_fn(name):
                n = ast.parse(f'{alias}.{name}', mode='eval').body
                return n
            new_if = ast.If(
                test=ast.UnaryOp(ast.Not(), ast.Call(
                    path_fn('exists'), [_copy.deepcopy(P)], [])),
                body=h.body, orelse=[])
            ast.copy_location(new_if, st)
            for n_ in ast.walk(new_if):
                if not hasattr(n_, 'lineno'):
                    ast.copy_location(n_, st)
            ast.fix_missing_locations(new_if)
            body[i] = new_if
            for c in calls:
                c.func = ast.copy_location(path_fn('isdir'), c)
                c.args = [_copy.deepcopy(P)]
                ast.fix_missing_locations(c)
            log.append(f'{f.where}: os.stat probe with an (OSError, '
                       'ValueError) handler read as exists() / isdir()')
            i += 1

    for f in program.all_functions():
        rewrite(f.node.body, f)


def typing_noops(program, log):
    """`cast(T, x)` (typing.cast) is x; `isinstance(x, GeneratorType)`
    (types.GeneratorType) is `inspect.isgenerator(x)` - its definition."""
    for f in program.all_functions():
        imps = f.module.imports

        def resolves(n, mod, name):
            d = dotted(n)
            if d is None:
                return False
            if d == f'{mod}.{name}' and imps.get(mod) == ('module', mod):
                return True
            return imps.get(d) == ('name', mod, name)

        class R(ast.NodeTransformer):
            hit = 0

            def visit_Call(self, n):
                self.generic_visit(n)
                if resolves(n.func, 'typing', 'cast') and len(n.args) == 2 \
                        and not n.keywords:
                    R.hit += 1
                    return n.args[1]
                if dotted(n.func) == 'isinstance' and len(n.args) == 2 \
                        and resolves(n.args[1], 'types', 'GeneratorType'):
                    R.hit += 1
                    return ast.copy_location(ast.Call(
                        ast.Attribute(ast.Name('inspect', ast.Load()),
                                      'isgenerator', ast.Load()),
                        [n.args[0]], []), n)
                return n
        R.hit = 0
        R().visit(f.node)
        if R.hit:
            ast.fix_missing_locations(f.node)
            log.append(f'{f.where}: typing.cast / GeneratorType test read as '
                       'the value / inspect.isgenerator')


def relpath_abspath(program, log):
    """`v = os.path.abspath(E)` used only as the start of `os.path.relpath(p,
    v)`: relpath begins by taking abspath(start) and abspath is idempotent, so
    `relpath(p, abspath(E))` is `relpath(p, E)` (E not assigned afterwards).
    `realpath` resolves symbolic links and is NOT such a no-op."""
    import copy as _copy
    for f in program.all_functions():
        pts = {k for k, v in f.module.imports.items()
               if v == ('module', 'os.path')} | {'os.path'}
        for st in list(ast.walk(f.node)):
            if not (isinstance(st, ast.Assign) and len(st.targets) == 1
                    and isinstance(st.targets[0], ast.Name)
                    and isinstance(st.value, ast.Call)
                    and isinstance(st.value.func, ast.Attribute)
                    and st.value.func.attr == 'abspath'
                    and dotted(st.value.func.value) in pts
                    and len(st.value.args) == 1
                    and isinstance(st.value.args[0], ast.Name)):
                continue
            v, e = st.targets[0].id, st.value.args[0]
            stores_v = [n for n in ast.walk(f.node) if isinstance(n, ast.Name)
                        and n.id == v and isinstance(n.ctx, ast.Store)]
            later_e = [n for n in ast.walk(f.node) if isinstance(n, ast.Name)
                       and n.id == e.id and isinstance(n.ctx, ast.Store)
                       and n.lineno >= st.lineno]
            loads = [n for n in ast.walk(f.node) if isinstance(n, ast.Name)
                     and n.id == v and isinstance(n.ctx, ast.Load)]
            starts = [c.args[1] for c in ast.walk(f.node)
                      if isinstance(c, ast.Call) and isinstance(
                          c.func, ast.Attribute) and c.func.attr == 'relpath'
                      and dotted(c.func.value) in pts and len(c.args) == 2
                      and not c.keywords]
            if len(stores_v) != 1 or later_e or not loads or not all(
                    any(l is s for s in starts) for l in loads):
                continue
            for c in ast.walk(f.node):
                if isinstance(c, ast.Call) and len(c.args) == 2 and any(
                        c.args[1] is l for l in loads):
                    c.args[1] = ast.copy_location(_copy.deepcopy(e),
                                                  c.args[1])
            for par in ast.walk(f.node):
                for fld in ('body', 'orelse', 'finalbody'):
                    b = getattr(par, fld, None)
                    if isinstance(b, list) and st in b:
                        b[b.index(st)] = ast.copy_location(ast.Pass(), st)
            log.append(f'{f.where}: relpath(p, abspath({e.id})) read as '
                       f'relpath(p, {e.id})')


def identity_refs(program, log):
    """A private subclass of weakref.ref that only redefines equality and
    hashing (by identity of the referent) is, for everything the rules ask
    about - what is referenced, which callback fires, when it dies - a
    weakref.ref: calls of it read `weakref.ref(...)`.  The classes are listed
    in `program.identity_refs` (C03.identity asks for one)."""
    program.identity_refs = {}
    for mod in program.modules.values():
        for cd in [n for n in mod.tree.body if isinstance(n, ast.ClassDef)]:
            if not (cd.name.startswith('_') and len(cd.bases) == 1 and dotted(
                    cd.bases[0]) in ('weakref.ref', 'ref')):
                continue
            meths = {n.name for n in cd.body if isinstance(n, ast.FunctionDef)}
            if not meths <= {'__init__', '__eq__', '__ne__', '__hash__'} \
                    or not {'__eq__', '__hash__'} <= meths:
                continue
            program.identity_refs[cd.name] = mod.name
    if not program.identity_refs:
        return
    for f in program.all_functions():
        if f.cls is not None and f.cls.name in program.identity_refs:
            continue

        class R(ast.NodeTransformer):
            hit = 0

            def visit_Call(self, n):
                self.generic_visit(n)
                if isinstance(n.func, ast.Name) and n.func.id in \
                        program.identity_refs:
                    R.hit += 1
                    n.func = ast.copy_location(ast.Attribute(
                        ast.Name('weakref', ast.Load()), 'ref', ast.Load()),
                        n.func)
                return n
        R.hit = 0
        R().visit(f.node)
        if R.hit:
            ast.fix_missing_locations(f.node)
            log.append(f'{f.where}: identity-comparing reference class read '
                       'as weakref.ref')


def any_all_loops(program, log):
    """`x = any([E for v in IT])` - a LIST is built first, so E runs for every
    v - reads `x = False; for v in IT: if E: x = True`; with a generator
    expression any() stops at the first true E: the loop gets a `break`.
    (`all` likewise, with the test negated.)  Only when E has a call in it -
    otherwise there is nothing to see."""
    import copy as _copy

    def rewrite(body, f):
        i = 0
        while i < len(body):
            st = body[i]
            for fld in ('body', 'orelse', 'finalbody'):
                sub_ = getattr(st, fld, None)
                if isinstance(sub_, list) and sub_ and isinstance(
                        sub_[0], ast.stmt):
                    rewrite(sub_, f)
            for h in getattr(st, 'handlers', []) or []:
                rewrite(h.body, f)
            if isinstance(st, ast.Assign) and len(st.targets) == 1 \
                    and isinstance(st.targets[0], ast.Name) \
                    and isinstance(st.value, ast.Call) \
                    and dotted(st.value.func) in ('any', 'all') \
                    and len(st.value.args) == 1 and not st.value.keywords \
                    and isinstance(st.value.args[0], (ast.ListComp,
                                                      ast.GeneratorExp)) \
                    and len(st.value.args[0].generators) == 1 \
                    and not st.value.args[0].generators[0].ifs \
                    and any(isinstance(x, ast.Call)
                            for x in ast.walk(st.value.args[0].elt)):
                comp = st.value.args[0]
                g = comp.generators[0]
                x = st.targets[0].id
                is_any = dotted(st.value.func) == 'any'
                test = comp.elt if is_any else ast.UnaryOp(ast.Not(),
                                                           comp.elt)
                hit = [ast.Assign([ast.Name(x, ast.Store())],
                                  ast.Constant(is_any))]
                if isinstance(comp, ast.GeneratorExp):
                    hit.append(ast.Break())
                new = [ast.Assign([ast.Name(x, ast.Store())],
                                  ast.Constant(not is_any)),
                       ast.For(target=g.target, iter=g.iter,
                               body=[ast.If(test, hit, [])], orelse=[])]
                for n_ in new:
                    ast.copy_location(n_, st)
                    for y in ast.walk(n_):
                        if not hasattr(y, 'lineno'):
                            ast.copy_location(y, st)
                    ast.fix_missing_locations(n_)
                body[i:i + 1] = new
                log.append(f'{f.where}: `{x} = {dotted(st.value.func)}(<'
                           f'{"list" if isinstance(comp, ast.ListComp) else "generator"}'
                           ' comprehension with calls>)` written as a loop')
                i += 2
                continue
            i += 1
    for f in program.all_functions():
        rewrite(f.node.body, f)


def chainmap_first_hit(program, log):
    """A hand-written ChainMap lookup

        for layer in E.maps:
            h = layer.get(k)
            if h is not None: return F(h)

    (E an attribute that only ever receives ChainMap(...)) reads `if k in E:
    return F(E[k])`: the first layer that holds k is the one ChainMap's own
    lookup answers from.  Rests on stored values not being None - a None
    value makes both spellings fail (TypeError / KeyError).  A truthiness
    test (`if h:`) is a different thing and is left alone."""
    import copy as _copy
    chain_attrs = set()
    for f in program.all_functions():
        for n in ast.walk(f.node):
            if isinstance(n, (ast.Assign, ast.AnnAssign)) and isinstance(
                    n.value, ast.Call) and (dotted(n.value.func) or ''
                                            ).split('.')[-1] == 'ChainMap':
                for t in (n.targets if isinstance(n, ast.Assign)
                          else [n.target]):
                    if isinstance(t, ast.Attribute):
                        chain_attrs.add(t.attr)

    def rewrite(body, f):
        for i, st in enumerate(list(body)):
            for fld in ('body', 'orelse', 'finalbody'):
                sub_ = getattr(st, fld, None)
                if isinstance(sub_, list) and sub_ and isinstance(
                        sub_[0], ast.stmt):
                    rewrite(sub_, f)
            for h in getattr(st, 'handlers', []) or []:
                rewrite(h.body, f)
            if not (isinstance(st, ast.For) and not st.orelse
                    and isinstance(st.target, ast.Name)
                    and isinstance(st.iter, ast.Attribute)
                    and st.iter.attr == 'maps'
                    and isinstance(st.iter.value, ast.Attribute)
                    and st.iter.value.attr in chain_attrs
                    and len(st.body) == 2):
                continue
            a, c = st.body
            L = st.target.id
            if not (isinstance(a, ast.Assign) and len(a.targets) == 1
                    and isinstance(a.targets[0], ast.Name)
                    and isinstance(a.value, ast.Call)
                    and isinstance(a.value.func, ast.Attribute)
                    and a.value.func.attr == 'get'
                    and isinstance(a.value.func.value, ast.Name)
                    and a.value.func.value.id == L
                    and len(a.value.args) == 1 and not a.value.keywords):
                continue
            hname = a.targets[0].id
            if not (isinstance(c, ast.If) and not c.orelse
                    and len(c.body) == 1 and isinstance(c.body[0], ast.Return)
                    and norm(c.test) == f'{hname} is not None'):
                continue
            uses = [n for n in ast.walk(f.node) if isinstance(n, ast.Name)
                    and n.id in (hname, L) and not any(
                        n is y for y in ast.walk(st))]
            if uses:
                continue
            E, k = st.iter.value, a.value.args[0]

            class R(ast.NodeTransformer):
                def visit_Name(self, n):
                    if n.id == hname and isinstance(n.ctx, ast.Load):
                        return ast.copy_location(ast.Subscript(
                            _copy.deepcopy(E), _copy.deepcopy(k),
                            ast.Load()), n)
                    return n
            ret = R().visit(_copy.deepcopy(c.body[0]))
            new = ast.If(ast.Compare(_copy.deepcopy(k), [ast.In()],
                                     [_copy.deepcopy(E)]), [ret], [])
            ast.copy_location(new, st)
            for y in ast.walk(new):
                if not hasattr(y, 'lineno'):
                    ast.copy_location(y, st)
            ast.fix_missing_locations(new)
            body[body.index(st)] = new
            log.append(f'{f.where}: first-hit walk over the layers of '
                       f'{norm(E)} read as a ChainMap lookup')
    for f in program.all_functions():
        rewrite(f.node.body, f)


def pop_default_loop(program, log):
    """`for T in D.pop(K, ()): BODY` (BODY never mentions D) reads
    `if K in D: for T in D[K]: BODY` followed by `del D[K]`: an absent key
    iterates nothing, a present one is forgotten - before or after BODY makes
    no difference to a BODY that cannot see D."""
    import copy as _copy

    def rewrite(body, f):
        for st in list(body):
            for fld in ('body', 'orelse', 'finalbody'):
                sub_ = getattr(st, fld, None)
                if isinstance(sub_, list) and sub_ and isinstance(
                        sub_[0], ast.stmt):
                    rewrite(sub_, f)
            for h in getattr(st, 'handlers', []) or []:
                rewrite(h.body, f)
            if not (isinstance(st, ast.For) and not st.orelse
                    and isinstance(st.iter, ast.Call)
                    and isinstance(st.iter.func, ast.Attribute)
                    and st.iter.func.attr == 'pop'
                    and dotted(st.iter.func.value)
                    and len(st.iter.args) == 2 and not st.iter.keywords):
                continue
            d_, k_, dflt = st.iter.func.value, st.iter.args[0], st.iter.args[1]
            empty = (isinstance(dflt, (ast.Tuple, ast.List)) and not dflt.elts) \
                or (isinstance(dflt, ast.Dict) and not dflt.keys) \
                or (isinstance(dflt, ast.Call) and dotted(dflt.func) in (
                    'set', 'frozenset', 'tuple', 'list') and not dflt.args)
            dt = dotted(d_)
            if not empty or any(dotted(x) == dt for s in st.body
                                for x in ast.walk(s)) or any(
                    isinstance(x, (ast.Break, ast.Return, ast.Continue))
                    for s in st.body for x in ast.walk(s)):
                continue
            loop = ast.For(st.target, ast.Subscript(
                _copy.deepcopy(d_), _copy.deepcopy(k_), ast.Load()),
                st.body, [])
            dele = ast.Delete([ast.Subscript(_copy.deepcopy(d_),
                                             _copy.deepcopy(k_), ast.Del())])
            new = ast.If(ast.Compare(_copy.deepcopy(k_), [ast.In()],
                                     [_copy.deepcopy(d_)]), [loop, dele], [])
            ast.copy_location(new, st)
            for y in ast.walk(new):
                if not hasattr(y, 'lineno'):
                    ast.copy_location(y, st)
            ast.fix_missing_locations(new)
            body[body.index(st)] = new
            log.append(f'{f.where}: `for .. in {dt}.pop(k, <empty>)` read as '
                       'guarded loop + del')
    for f in program.all_functions():
        rewrite(f.node.body, f)


def rotate_idiom(program, log):
    """`q.append(q.popleft())` on a deque known to be non-empty (an earlier
    statement of the same block returns when it is empty / has at most one
    element) reads `q.rotate(-1)`."""
    def rewrite(body, f):
        for i, st in enumerate(body):
            for fld in ('body', 'orelse', 'finalbody'):
                sub_ = getattr(st, fld, None)
                if isinstance(sub_, list) and sub_ and isinstance(
                        sub_[0], ast.stmt):
                    rewrite(sub_, f)
            for h in getattr(st, 'handlers', []) or []:
                rewrite(h.body, f)
            if not (isinstance(st, ast.Expr) and isinstance(
                    st.value, ast.Call) and isinstance(
                        st.value.func, ast.Attribute)
                    and st.value.func.attr == 'append'
                    and len(st.value.args) == 1 and not st.value.keywords):
                continue
            q = st.value.func.value
            a = st.value.args[0]
            if not (isinstance(a, ast.Call) and isinstance(
                    a.func, ast.Attribute) and a.func.attr == 'popleft'
                    and not a.args and dotted(a.func.value)
                    and dotted(a.func.value) == dotted(q)):
                continue
            qt = dotted(q)
            guarded = any(
                isinstance(p, ast.If) and not p.orelse and len(p.body) == 1
                and isinstance(p.body[0], ast.Return)
                and norm(p.test) in (f'len({qt}) <= 1', f'len({qt}) < 2',
                                     f'not {qt}', f'len({qt}) == 0',
                                     f'len({qt}) < 1')
                for p in body[:i])
            if not guarded:
                continue
            st.value = ast.copy_location(ast.Call(
                ast.Attribute(q, 'rotate', ast.Load()),
                [ast.UnaryOp(ast.USub(), ast.Constant(1))], []), st.value)
            ast.fix_missing_locations(st)
            log.append(f'{f.where}: `{qt}.append({qt}.popleft())` on a '
                       'non-empty deque read as rotate(-1)')
    for f in program.all_functions():
        rewrite(f.node.body, f)


def mirror_locals(program, log):
    """A local kept equal to an attribute of self: first bound `x = self.a`,
    and from then on every store of either one is the chained assignment
    `x = self.a = V` - while no other method of the class family (except
    __init__) writes self.a, so nothing that runs in between can change it.
    Reads of x are reads of self.a; the chained stores are stores of self.a
    (`self.a = self.a + V` is written `self.a += V`)."""
    import copy as _copy
    for f in program.all_functions():
        if f.cls is None:
            continue
        fn = f.node
        firsts = {}
        for st in fn.body:
            if isinstance(st, ast.Assign) and len(st.targets) == 1 \
                    and isinstance(st.targets[0], ast.Name) \
                    and _self_attr(st.value) is not None:
                firsts.setdefault(st.targets[0].id, st)
        for x, first in firsts.items():
            a = _self_attr(first.value)
            ok = True
            chained = []
            for n in ast.walk(fn):
                if isinstance(n, (ast.FunctionDef, ast.Lambda)) and n is not fn:
                    if any(isinstance(y, ast.Name) and y.id == x
                           for y in ast.walk(n)):
                        ok = False
                if isinstance(n, ast.Assign) and n is not first:
                    tx = [t for t in n.targets if isinstance(t, ast.Name)
                          and t.id == x]
                    ta = [t for t in n.targets if _self_attr(t) == a]
                    if tx or ta:
                        if len(n.targets) == 2 and tx and ta:
                            chained.append(n)
                        else:
                            ok = False
                    for t in n.targets:
                        if isinstance(t, (ast.Tuple, ast.List)) and any(
                                (isinstance(y, ast.Name) and y.id == x)
                                or _self_attr(y) == a for y in ast.walk(t)):
                            ok = False
                elif isinstance(n, (ast.AugAssign, ast.AnnAssign)):
                    if (isinstance(n.target, ast.Name) and n.target.id == x) \
                            or _self_attr(n.target) == a:
                        ok = False
                elif isinstance(n, (ast.For, ast.comprehension)):
                    if any(isinstance(y, ast.Name) and y.id == x
                           for y in ast.walk(n.target)):
                        ok = False
                elif isinstance(n, (ast.NamedExpr,)) and n.target.id == x:
                    ok = False
                elif isinstance(n, ast.Delete):
                    ok = False if any(isinstance(y, ast.Name) and y.id == x
                                      for t in n.targets
                                      for y in ast.walk(t)) else ok
            if not ok or not chained:
                continue
            # nobody else writes the attribute
            fam = [f.cls] + program.subclasses(f.cls) + [
                b for b in program.mro(f.cls) if b is not f.cls]
            for c in fam:
                for m in c.methods.values():
                    if m.node is fn or m.name == '__init__':
                        continue
                    for n in ast.walk(m.node):
                        tg = []
                        if isinstance(n, ast.Assign):
                            tg = n.targets
                        elif isinstance(n, (ast.AugAssign, ast.AnnAssign)):
                            tg = [n.target]
                        elif isinstance(n, ast.Call) and dotted(n.func) in (
                                'setattr', 'object.__setattr__'):
                            ok = False if len(n.args) >= 2 and isinstance(
                                n.args[1], ast.Constant) and n.args[
                                    1].value == a else ok
                        if any(_self_attr(y) == a for t in tg
                               for y in ast.walk(t)):
                            ok = False
            if not ok:
                continue

            class R(ast.NodeTransformer):
                def visit_Name(self, n):
                    if n.id == x and isinstance(n.ctx, ast.Load):
                        return ast.copy_location(ast.Attribute(
                            ast.Name('self', ast.Load()), a, ast.Load()), n)
                    return n

            def fix(body):
                for i, st in enumerate(list(body)):
                    for fld in ('body', 'orelse', 'finalbody'):
                        sub_ = getattr(st, fld, None)
                        if isinstance(sub_, list) and sub_ and isinstance(
                                sub_[0], ast.stmt):
                            fix(sub_)
                    for h in getattr(st, 'handlers', []) or []:
                        fix(h.body)
                    if st is first:
                        body[body.index(st)] = ast.copy_location(ast.Pass(),
                                                                 st)
                    elif st in chained:
                        v = R().visit(st.value)
                        tgt = ast.Attribute(ast.Name('self', ast.Load()), a,
                                            ast.Store())
                        if isinstance(v, ast.BinOp) and isinstance(
                                v.op, ast.Add) and _self_attr(v.left) == a:
                            new = ast.AugAssign(tgt, ast.Add(), v.right)
                        else:
                            new = ast.Assign([tgt], v)
                        ast.copy_location(new, st)
                        ast.fix_missing_locations(new)
                        body[body.index(st)] = new
            fix(fn.body)
            R().visit(fn)
            ast.fix_missing_locations(fn)
            log.append(f'{f.where}: local `{x}` mirrors self.{a} (every store '
                       'is chained, no other writer): read as the attribute')


def sentinel_lookups(program, log):
    """`x = D.get(k, _S)` immediately followed by `if x is not _S: BODY [else:
    ELSE]` (or `if x is _S: ELSE else: BODY`), with _S a private module-level
    `object()` and x read nowhere outside BODY, reads `if k in D: x = D[k];
    BODY [else: ELSE]` - a unique sentinel is returned exactly when the key is
    absent."""
    import copy as _copy

    def pure(n):
        return all(isinstance(x, (ast.Name, ast.Attribute, ast.Constant,
                                  ast.Subscript, ast.Load, ast.Dict, ast.Tuple,
                                  ast.Call, ast.Index if hasattr(ast, 'Index')
                                  else ast.Load)) and (
            not isinstance(x, ast.Call) or (isinstance(
                x.func, ast.Attribute) and x.func.attr == 'get'))
            for x in ast.walk(n))

    def rewrite(body, f):
        i = 0
        while i < len(body):
            st = body[i]
            for fld in ('body', 'orelse', 'finalbody'):
                sub_ = getattr(st, fld, None)
                if isinstance(sub_, list) and sub_ and isinstance(
                        sub_[0], ast.stmt):
                    rewrite(sub_, f)
            for h in getattr(st, 'handlers', []) or []:
                rewrite(h.body, f)
            nxt = body[i + 1] if i + 1 < len(body) else None
            if isinstance(st, ast.Assign) and len(st.targets) == 1 \
                    and isinstance(st.targets[0], ast.Name) \
                    and isinstance(st.value, ast.Call) \
                    and isinstance(st.value.func, ast.Attribute) \
                    and st.value.func.attr == 'get' \
                    and len(st.value.args) == 2 and not st.value.keywords \
                    and isinstance(st.value.args[1], ast.Name) \
                    and program.is_sentinel(f.module, st.value.args[1].id) \
                    and isinstance(nxt, ast.If) \
                    and isinstance(nxt.test, ast.Compare) \
                    and len(nxt.test.ops) == 1 \
                    and isinstance(nxt.test.ops[0], (ast.Is, ast.IsNot)) \
                    and isinstance(nxt.test.left, ast.Name) \
                    and nxt.test.left.id == st.targets[0].id \
                    and isinstance(nxt.test.comparators[0], ast.Name) \
                    and nxt.test.comparators[0].id == st.value.args[1].id \
                    and pure(st.value.func.value) and pure(st.value.args[0]):
                x = st.targets[0].id
                present = nxt.body if isinstance(
                    nxt.test.ops[0], ast.IsNot) else nxt.orelse
                absent = nxt.orelse if isinstance(
                    nxt.test.ops[0], ast.IsNot) else nxt.body
                inside = {id(n) for s in present for n in ast.walk(s)}
                uses = [n for n in ast.walk(f.node) if isinstance(n, ast.Name)
                        and n.id == x and n is not st.targets[0]
                        and n is not nxt.test.left]
                if present and all(id(n) in inside for n in uses):
                    d_, k_ = st.value.func.value, st.value.args[0]
                    new_if = ast.If(
                        test=ast.Compare(_copy.deepcopy(k_), [ast.In()],
                                         [_copy.deepcopy(d_)]),
                        body=[ast.Assign([ast.Name(x, ast.Store())],
                                         ast.Subscript(_copy.deepcopy(d_),
                                                       _copy.deepcopy(k_),
                                                       ast.Load()))] + present,
                        orelse=absent)
                    ast.copy_location(new_if, nxt)
                    for n_ in ast.walk(new_if):
                        if not hasattr(n_, 'lineno'):
                            ast.copy_location(n_, nxt)
                    ast.fix_missing_locations(new_if)
                    body[i:i + 2] = [new_if]
                    log.append(f'{f.where}: `{x} = ....get(k, '
                               f'{st.value.args[1].id})` + identity test read '
                               'as a membership test plus indexing')
                    continue
            i += 1

    for f in program.all_functions():
        rewrite(f.node.body, f)


def rpartition_keys(program, log):
    """`p, s, last = k.rpartition(c)` followed by a walk over `p.split(c)`
    that is guarded by `s` (the separator found) reads `ks = k.split(c);
    last = ks[-1]` and a walk over `ks[:-1]`: when c occurs in k, p is
    c.join(ks[:-1]) and p.split(c) == ks[:-1]; when it does not, s is '' and
    ks[:-1] is empty.  (A guard on `p` is NOT the same thing - p is '' also
    for k = c + 'x' - and is left alone.)"""
    for f in program.all_functions():
        fn = f.node
        for blk in [n for n in ast.walk(fn) if hasattr(n, 'body')
                    and isinstance(getattr(n, 'body'), list)]:
            for st in list(blk.body):
                if not (isinstance(st, ast.Assign) and len(st.targets) == 1
                        and isinstance(st.targets[0], ast.Tuple)
                        and len(st.targets[0].elts) == 3
                        and all(isinstance(e, ast.Name)
                                for e in st.targets[0].elts)
                        and isinstance(st.value, ast.Call)
                        and isinstance(st.value.func, ast.Attribute)
                        and st.value.func.attr == 'rpartition'
                        and len(st.value.args) == 1):
                    continue
                p_, s_, l_ = [e.id for e in st.targets[0].elts]
                k_, c_ = st.value.func.value, st.value.args[0]
                ctext = ast.dump(c_)

                def is_split(n):
                    return (isinstance(n, ast.Call) and isinstance(
                        n.func, ast.Attribute) and n.func.attr == 'split'
                        and isinstance(n.func.value, ast.Name)
                        and n.func.value.id == p_ and len(n.args) == 1
                        and ast.dump(n.args[0]) == ctext)

                def is_empty(n):
                    return isinstance(n, (ast.Tuple, ast.List)) and not n.elts

                ks = f'{p_}·parts'
                sl = lambda: ast.Subscript(
                    ast.Name(ks, ast.Load()), ast.Slice(None, ast.UnaryOp(
                        ast.USub(), ast.Constant(1)), None), ast.Load())
                plan = []       # (kind, node, parent-holder)
                used = set()
                for n in ast.walk(fn):
                    if isinstance(n, ast.IfExp) and isinstance(
                            n.test, ast.Name) and n.test.id == s_ \
                            and is_split(n.body) and is_empty(n.orelse):
                        plan.append(('ifexp', n))
                        used |= {id(n.test), id(n.body.func.value)}
                    if isinstance(n, ast.If) and isinstance(
                            n.test, ast.Name) and n.test.id == s_ \
                            and not n.orelse and len(n.body) == 1 \
                            and isinstance(n.body[0], ast.For) \
                            and is_split(n.body[0].iter):
                        plan.append(('if', n))
                        used |= {id(n.test), id(n.body[0].iter.func.value)}
                others = [x for x in ast.walk(fn) if isinstance(x, ast.Name)
                          and x.id in (p_, s_) and id(x) not in used
                          and x not in st.targets[0].elts]
                if not plan or others:
                    continue
                for kind, n in plan:
                    if kind == 'ifexp':
                        for par in ast.walk(fn):
                            for fld, val in ast.iter_fields(par):
                                if val is n:
                                    setattr(par, fld, sl())
                                elif isinstance(val, list) and n in val:
                                    val[val.index(n)] = sl()
                    else:
                        loop = n.body[0]
                        loop.iter = sl()
                        for par in ast.walk(fn):
                            for fld, val in ast.iter_fields(par):
                                if isinstance(val, list) and n in val:
                                    val[val.index(n)] = loop
                i = blk.body.index(st)
                blk.body[i:i + 1] = [
                    ast.copy_location(ast.Assign(
                        [ast.Name(ks, ast.Store())], ast.Call(
                            ast.Attribute(k_, 'split', ast.Load()), [c_], [])),
                        st),
                    ast.copy_location(ast.Assign(
                        [ast.Name(l_, ast.Store())], ast.Subscript(
                            ast.Name(ks, ast.Load()), ast.UnaryOp(
                                ast.USub(), ast.Constant(1)), ast.Load())),
                        st)]
                ast.fix_missing_locations(fn)
                log.append(f'{f.where}: rpartition + walk guarded by the '
                           'separator read as split / [-1] / [:-1]')


def bool_dispatch_tables(program, log):
    """`_T = {False: a, True: b}` (a private module constant, never written)
    subscripted by a boolean expression is `b if <expr> else a`."""
    import copy
    for m in program.modules.values():
        tables = {}
        writes = {}
        for n in ast.walk(m.tree):
            if isinstance(n, ast.Name) and isinstance(n.ctx, ast.Store):
                writes[n.id] = writes.get(n.id, 0) + 1
        for st in m.tree.body:
            if isinstance(st, ast.Assign) and len(st.targets) == 1 \
                    and isinstance(st.targets[0], ast.Name) \
                    and st.targets[0].id.startswith('_') and isinstance(
                        st.value, ast.Dict) and len(st.value.keys) == 2 \
                    and all(isinstance(k, ast.Constant) and isinstance(
                        k.value, bool) for k in st.value.keys) \
                    and {k.value for k in st.value.keys} == {True, False} \
                    and writes.get(st.targets[0].id) == 1:
                tables[st.targets[0].id] = {
                    k.value: v for k, v in zip(st.value.keys,
                                               st.value.values)}
        if not tables:
            continue
        mutated = {n.value.id for n in ast.walk(m.tree) if isinstance(
            n, ast.Subscript) and isinstance(n.ctx, (ast.Store, ast.Del))
            and isinstance(n.value, ast.Name)}

        class T(ast.NodeTransformer):
            def visit_Subscript(self, n):
                self.generic_visit(n)
                if isinstance(n.value, ast.Name) and n.value.id in tables \
                        and n.value.id not in mutated and isinstance(
                            n.ctx, ast.Load) and isinstance(
                                n.slice, (ast.Compare, ast.BoolOp)) or (
                        isinstance(n.value, ast.Name)
                        and n.value.id in tables
                        and n.value.id not in mutated
                        and isinstance(n.ctx, ast.Load)
                        and isinstance(n.slice, ast.UnaryOp)
                        and isinstance(n.slice.op, ast.Not)):
                    t = tables[n.value.id]
                    return ast.copy_location(ast.IfExp(
                        n.slice, copy.deepcopy(t[True]),
                        copy.deepcopy(t[False])), n)
                return n
        T().visit(m.tree)
        ast.fix_missing_locations(m.tree)
        for nm in sorted(tables):
            log.append(f'{m.relpath}: boolean dispatch table {nm} read as a '
                       'conditional expression')


def yield_from_genexp(program, log):
    """`yield from (e for x in X if c)` is `for x in X: if c: yield e`."""
    def rewrite(body, where):
        for i, st in enumerate(body):
            if isinstance(st, ast.Expr) and isinstance(
                    st.value, ast.YieldFrom) and isinstance(
                        st.value.value, (ast.GeneratorExp, ast.ListComp)) \
                    and len(st.value.value.generators) == 1 \
                    and not st.value.value.generators[0].is_async:
                g = st.value.value.generators[0]
                inner = [ast.Expr(ast.Yield(st.value.value.elt))]
                for c in reversed(g.ifs):
                    inner = [ast.If(c, inner, [])]
                loop = ast.For(g.target, g.iter, inner, [])
                ast.copy_location(loop, st)
                ast.fix_missing_locations(loop)
                body[i] = loop
                log.append(f'{where}: `yield from <generator expression>` '
                           'written out as a loop')
            for fld in ('body', 'orelse', 'finalbody'):
                sub_ = getattr(body[i], fld, None)
                if isinstance(sub_, list) and sub_ and isinstance(
                        sub_[0], ast.stmt):
                    rewrite(sub_, where)
            for h in getattr(body[i], 'handlers', []) or []:
                rewrite(h.body, where)
    for f in program.all_functions():
        rewrite(f.node.body, f.where)


def copy_on_write_sets(program, log):
    """`self.T[k] = self.T[k] - {e}` and `self.T[k] = self.T.get(k, set()) | {e}`
    leave the table with the same content as the in-place `discard` / `add`;
    they are rewritten to those (marked `_from_cow`, so that rules about
    iteration can tell that the published sets are never mutated)."""
    def tbl(n):
        return isinstance(n, ast.Attribute) and isinstance(
            n.value, ast.Name) and n.value.id == 'self'

    def rewrite(body, where):
        for i, st in enumerate(body):
            if isinstance(st, ast.Assign) and len(st.targets) == 1 \
                    and isinstance(st.targets[0], ast.Subscript) and tbl(
                        st.targets[0].value) and isinstance(
                            st.value, ast.BinOp) and isinstance(
                                st.value.op, (ast.Sub, ast.BitOr)) \
                    and isinstance(st.value.right, ast.Set) and len(
                        st.value.right.elts) == 1:
                T = st.targets[0].value
                k = st.targets[0].slice
                left = st.value.left
                same_slot = isinstance(left, ast.Subscript) and dotted(
                    left.value) == dotted(T) and ast.dump(
                        left.slice) == ast.dump(k)
                via_get = isinstance(left, ast.Call) and isinstance(
                    left.func, ast.Attribute) and left.func.attr == 'get' \
                    and dotted(left.func.value) == dotted(T) and len(
                        left.args) == 2 and ast.dump(left.args[0]) == \
                    ast.dump(k) and isinstance(left.args[1], ast.Call) \
                    and dotted(left.args[1].func) == 'set' \
                    and not left.args[1].args
                elt = st.value.right.elts[0]
                new = None
                if isinstance(st.value.op, ast.Sub) and same_slot:
                    new = ast.Call(ast.Attribute(ast.Subscript(
                        T, k, ast.Load()), 'discard', ast.Load()), [elt], [])
                elif isinstance(st.value.op, ast.BitOr) and (same_slot
                                                             or via_get):
                    recv = ast.Subscript(T, k, ast.Load()) if same_slot \
                        else ast.Call(ast.Attribute(T, 'setdefault',
                                                    ast.Load()),
                                      [k, ast.Call(ast.Name('set', ast.Load()),
                                                   [], [])], [])
                    new = ast.Call(ast.Attribute(recv, 'add', ast.Load()),
                                   [elt], [])
                if new is not None:
                    new._from_cow = True
                    ex = ast.copy_location(ast.Expr(new), st)
                    ast.fix_missing_locations(ex)
                    body[i] = ex
                    program.cow.add(T.attr)
                    log.append(f'{where}: copy-on-write update of self.'
                               f'{T.attr}[..] read as the in-place update')
            for fld in ('body', 'orelse', 'finalbody'):
                sub_ = getattr(body[i], fld, None)
                if isinstance(sub_, list) and sub_ and isinstance(
                        sub_[0], ast.stmt):
                    rewrite(sub_, where)
            for h in getattr(body[i], 'handlers', []) or []:
                rewrite(h.body, where)
    for f in program.all_functions():
        rewrite(f.node.body, f.where)


def flattened_chainmaps(program, log):
    """`d = {}; for layer in reversed(X.maps): d.update(layer)` builds what
    `dict(X)` builds for a ChainMap X (the first layer wins)."""
    def rewrite(body, where):
        i = 0
        while i + 1 < len(body):
            a, lp = body[i], body[i + 1]
            if isinstance(a, ast.Assign) and len(a.targets) == 1 \
                    and isinstance(a.targets[0], ast.Name) and isinstance(
                        a.value, ast.Dict) and not a.value.keys \
                    and isinstance(lp, ast.For) and not lp.orelse \
                    and isinstance(lp.target, ast.Name) and len(
                        lp.body) == 1 and isinstance(lp.iter, ast.Call) \
                    and dotted(lp.iter.func) == 'reversed' and len(
                        lp.iter.args) == 1 and isinstance(
                            lp.iter.args[0], ast.Attribute) \
                    and lp.iter.args[0].attr == 'maps':
                d = a.targets[0].id
                c = lp.body[0].value if isinstance(lp.body[0],
                                                   ast.Expr) else None
                if isinstance(c, ast.Call) and isinstance(
                        c.func, ast.Attribute) and c.func.attr == 'update' \
                        and isinstance(c.func.value, ast.Name) \
                        and c.func.value.id == d and len(c.args) == 1 \
                        and isinstance(c.args[0], ast.Name) \
                        and c.args[0].id == lp.target.id:
                    new = ast.Assign([ast.Name(d, ast.Store())], ast.Call(
                        ast.Name('dict', ast.Load()),
                        [lp.iter.args[0].value], []))
                    ast.copy_location(new, a)
                    ast.fix_missing_locations(new)
                    body[i:i + 2] = [new]
                    log.append(f'{where}: layers merged bottom-up into `{d}` '
                               'read as dict(<ChainMap>)')
                    continue
            i += 1
        for st in body:
            for fld in ('body', 'orelse', 'finalbody'):
                sub_ = getattr(st, fld, None)
                if isinstance(sub_, list) and sub_ and isinstance(
                        sub_[0], ast.stmt):
                    rewrite(sub_, where)
            for h in getattr(st, 'handlers', []) or []:
                rewrite(h.body, where)
    for f in program.all_functions():
        rewrite(f.node.body, f.where)


def norm_name(a):
    return a.id if isinstance(a, ast.Name) else None


def run(program):
    log = []
    program.records = {}
    program.cow = set()
    for step in (identity_refs, explicit_properties, walrus_out,
                 inline_simple_decorators,
                 typing_noops, relpath_abspath, sentinel_lookups, setdefault_fresh, mirror_locals,
                 rotate_idiom, drain_loops, stat_probe, any_all_loops,
                 chainmap_first_hit, pop_default_loop,
                 split_parallel_assign,
                 inline_aliases, context_managers_to_try, rpartition_keys,
                 slices_of_islice,
                 pop_last_idiom,
                 bool_dispatch_tables, yield_from_genexp, copy_on_write_sets,
                 flattened_chainmaps,
                 unfold_records,
                 inline_private_constants, loops_to_comprehensions,
                 rename_private):
        try:
            step(program, log)
        except Exception as ex:       # a normalisation must never break a run
            log.append(f'normalisation step {step.__name__} skipped: '
                       f'{type(ex).__name__}: {ex}')
    return log
