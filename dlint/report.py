"""Obligations, verdicts, evidence files, known findings, exit codes."""
import json
import os
import sys
import time

from .model import norm

VERIF = os.path.dirname(os.path.dirname(os.path.abspath(__file__)))
EVIDENCE_DIR = os.environ.get('VERIF_EVIDENCE_DIR') or os.path.join(VERIF, 'evidence')
KNOWN = os.path.join(VERIF, 'known_findings.json')

DISCHARGED, VIOLATED, INCONCLUSIVE = 'discharged', 'violated', 'inconclusive'


class Obligation:
    __slots__ = ('rule', 'site', 'construct', 'verdict', 'why', 'detail',
                 'line', 'nontrivial')

    def __init__(self, rule, site, construct, verdict, why, detail=None,
                 line=None, nontrivial=True):
        self.rule = rule
        self.site = site
        self.construct = norm(construct) if construct is not None else ''
        self.verdict = verdict
        self.why = why
        self.detail = detail
        self.line = line
        self.nontrivial = nontrivial

    def key(self):
        return (self.rule, self.site, self.construct)

    def as_dict(self):
        d = {'rule': self.rule, 'site': self.site,
             'construct': self.construct, 'verdict': self.verdict,
             'why': self.why}
        if self.line:
            d['line'] = self.line
        if self.detail is not None:
            d['detail'] = self.detail
        return d


class Report:
    def __init__(self, prop, tier, repo, seed=0):
        self.prop = prop
        self.tier = tier
        self.repo = repo
        self.seed = seed
        self.t0 = time.time()
        self.obs = []
        self.analysed = {}
        self.assumptions = []
        self.not_decided = []
        self.explanation = ''
        self.rule_text = ''
        self.errors = []
        self.extra = {}
        self.advisories = []

    # ------------------------------------------------------------------
    def ok(self, rule, site, construct, why, detail=None, line=None,
           nontrivial=True):
        self.obs.append(Obligation(rule, site, construct, DISCHARGED, why,
                                   detail, line, nontrivial))

    def bad(self, rule, site, construct, why, detail=None, line=None):
        self.obs.append(Obligation(rule, site, construct, VIOLATED, why,
                                   detail, line))

    def check(self, cond, rule, site, construct, why_ok, why_bad, detail=None,
              line=None):
        if cond:
            self.ok(rule, site, construct, why_ok, detail, line)
        else:
            self.bad(rule, site, construct, why_bad, detail, line)
        return cond

    def inconclusive(self, rule, site, construct, why, line=None):
        msg = f'{rule} at {site}: {why}'
        if msg in self.errors:
            return              # one report per (rule, site, reason)
        self.obs.append(Obligation(rule, site, construct, INCONCLUSIVE, why,
                                   None, line))
        self.errors.append(msg)

    def error(self, msg):
        self.errors.append(msg)

    def count(self, key, n=1):
        self.analysed[key] = self.analysed.get(key, 0) + n

    def floor(self, rule, what, found, minimum):
        """Vacuity guard: fewer instances than confirmed by hand."""
        if found < minimum:
            self.inconclusive(rule, 'whole package', what,
                              f'matched {found} instance(s) of "{what}", '
                              f'expected at least {minimum}: the anchor of '
                              f'this rule has vanished or changed shape')
            return False
        return True

    def borrow(self, fn, *args, keep=None, rename=None, why=None):
        """Run a sibling property's rule into this report: obligations the
        predicate `keep` selects are taken over under the name rename(rule);
        the rest (also the sibling's floors / counts) is dropped."""
        n0, e0 = len(self.obs), len(self.errors)
        a0 = dict(self.analysed)
        fn(*args)
        new = self.obs[n0:]
        del self.obs[n0:]
        errs = self.errors[e0:]
        del self.errors[e0:]
        self.analysed = a0
        taken = []
        for o in new:
            if keep is not None and not keep(o):
                continue
            old = o.rule
            if rename is not None:
                o.rule = rename(o.rule)
            if o.verdict == INCONCLUSIVE:
                self.errors.append(f'{o.rule} at {o.site}: {o.why}')
            elif o.verdict == VIOLATED and why:
                o.why = f'{why} [{old}: {o.why}]'
            self.obs.append(o)
            taken.append(o)
        return taken

    # ------------------------------------------------------------------
    def finish(self):
        known = load_known()
        opens = [k for k in known.get('open', []) if k['property'] == self.prop]
        violations, known_hits = [], []
        for o in self.obs:
            if o.verdict != VIOLATED:
                continue
            hit = None
            for k in opens:
                if k['rule'] == o.rule and k['site'] == o.site and (
                        norm(k['construct']) == o.construct):
                    hit = k
                    break
            (known_hits if hit else violations).append((o, hit))
        os.makedirs(os.path.join(EVIDENCE_DIR, 'replay'), exist_ok=True)
        lines = []
        seen_known = set()
        for o, k in known_hits:
            kk = (k['rule'], k['site'], k['construct'])
            if kk in seen_known:
                continue
            seen_known.add(kk)
            lines.append(f'KNOWN-FINDING: property={self.prop} {k["what"]}')
        seen = set()
        nviol = 0
        for i, (o, _) in enumerate(violations):
            if o.key() in seen:
                continue
            seen.add(o.key())
            nviol += 1
            rp = os.path.join(EVIDENCE_DIR, 'replay',
                              f'{self.prop}-{nviol}.json')
            with open(rp, 'w') as f:
                json.dump({'property': self.prop, 'repo': self.repo,
                           'obligation': o.as_dict()}, f, indent=1)
            print(f'  violated {o.rule} at {o.site}'
                  + (f':{o.line}' if o.line else '') + f': {o.construct}')
            print(f'    why: {o.why}')
            if o.detail:
                print(f'    detail: {json.dumps(o.detail, default=str)[:600]}')
            lines.append(f'VIOLATION property={self.prop} replay={rp}')
        inconcl = [o for o in self.obs if o.verdict == INCONCLUSIVE]
        disch = [o for o in self.obs if o.verdict == DISCHARGED]
        distinct = len({o.key() for o in self.obs if o.nontrivial
                        and o.verdict != INCONCLUSIVE})
        samples = [o.as_dict() for o in self.obs[:3]]
        step = max(1, len(self.obs) // 5)
        samples += [o.as_dict() for o in self.obs[3::step]][:5]
        samples += [o.as_dict() for o, _ in violations[:5]]
        cov = {
            'explanation': self.explanation,
            'rule': self.rule_text,
            'obligations': len(self.obs),
            'discharged': len(disch),
            'violated': nviol,
            'known_findings': len(seen_known),
            'inconclusive': len(inconcl),
            'evaluations': len(self.obs),
            'distinct_nontrivial': distinct,
            'samples': samples,
            'analysed': self.analysed,
            'not_decided': self.not_decided,
            'by_rule': _by_rule(self.obs),
            'exhaustive': True,
        }
        cov.update(self.extra)
        if self.advisories:
            cov['advisories'] = self.advisories
        ev = {
            'property_id': self.prop,
            'tier': self.tier,
            'seed': self.seed,
            'level': 'other',
            'coverage': cov,
            'assumptions': self.assumptions,
            'wall_s': round(time.time() - self.t0, 3),
            'violations': nviol,
        }
        if self.errors:
            ev['coverage']['analysis_errors'] = self.errors
        with open(os.path.join(EVIDENCE_DIR, f'{self.prop}.json'), 'w') as f:
            json.dump(ev, f, indent=1, default=str)
        print(f'{self.prop} [{self.tier}] obligations={len(self.obs)} '
              f'discharged={len(disch)} violated={nviol} '
              f'known={len(seen_known)} inconclusive={len(inconcl)} '
              f'wall={ev["wall_s"]}s')
        for ln in lines:
            print(ln)
        if nviol:
            return 1
        if self.errors:
            for e in self.errors:
                print(f'ANALYSIS-ERROR property={self.prop} {e}')
            return 2
        return 0


def _by_rule(obs):
    out = {}
    for o in obs:
        d = out.setdefault(o.rule, {DISCHARGED: 0, VIOLATED: 0,
                                    INCONCLUSIVE: 0})
        d[o.verdict] += 1
    return out


def load_known():
    try:
        with open(KNOWN) as f:
            return json.load(f)
    except FileNotFoundError:
        return {'open': [], 'fixed': []}
