"""Program model of /repo/desper built from source text only (ast).

Nothing here imports or executes the analysed package.
"""
import ast
import os


class AnalysisError(Exception):
    """The analysis cannot cover the code (vanished anchor, unsupported shape).

    Reported as ANALYSIS-ERROR (exit 2), never as a violation.
    """


class FuncInfo:
    def __init__(self, module, cls, name, node, kind='function'):
        self.module = module
        self.cls = cls
        self.name = name            # 'clear', or 'dispatch_enabled.setter'
        self.node = node
        self.kind = kind            # function | method | getter | setter

    @property
    def qualname(self):
        if self.cls is not None:
            return f'{self.cls.name}.{self.name}'
        return self.name

    @property
    def where(self):
        return f'{self.module.relpath}:{self.qualname}'

    def params(self):
        a = self.node.args
        return [x.arg for x in a.posonlyargs + a.args]

    def __repr__(self):
        return f'<Func {self.module.name}:{self.qualname}>'


class ClassInfo:
    def __init__(self, module, node):
        self.module = module
        self.node = node
        self.name = node.name
        self.base_exprs = node.bases
        self.bases = []             # resolved in-repo ClassInfo
        self.ext_bases = []         # dotted text of the others
        self.methods = {}
        self.attrs = {}             # class level assignments name -> expr
        self.decorators = node.decorator_list

    def __repr__(self):
        return f'<Class {self.module.name}.{self.name}>'


class Module:
    def __init__(self, name, path, relpath, src):
        self.name = name
        self.path = path
        self.relpath = relpath
        self.src = src
        self.tree = ast.parse(src, filename=path)
        self.lines = src.splitlines()
        self.consts = {}
        self.imports = {}           # local -> ('module', full) | ('name', mod, attr)
        self.star_imports = []
        self.classes = {}
        self.functions = {}
        self.aliases = {}           # module-level  a = b  (Name = Name)
        self.is_pkg = os.path.basename(path) == '__init__.py'


def dotted(node):
    """'a.b.c' for Name/Attribute chains, else None."""
    parts = []
    while isinstance(node, ast.Attribute):
        parts.append(node.attr)
        node = node.value
    if isinstance(node, ast.Name):
        parts.append(node.id)
        return '.'.join(reversed(parts))
    return None


class Program:
    def __init__(self, repo, package='desper'):
        self.repo = os.path.abspath(repo)
        self.package = package
        self.modules = {}
        pkgdir = os.path.join(self.repo, package)
        if not os.path.isdir(pkgdir):
            raise AnalysisError(f'package directory {pkgdir} not found')
        for dirpath, dirnames, filenames in os.walk(pkgdir):
            dirnames[:] = sorted(d for d in dirnames if d != '__pycache__')
            for fn in sorted(filenames):
                if not fn.endswith('.py'):
                    continue
                path = os.path.join(dirpath, fn)
                rel = os.path.relpath(path, self.repo)
                parts = rel[:-3].split(os.sep)
                if parts[-1] == '__init__':
                    parts = parts[:-1]
                name = '.'.join(parts)
                with open(path, encoding='utf-8') as f:
                    src = f.read()
                try:
                    self.modules[name] = Module(name, path, rel, src)
                except SyntaxError as ex:
                    raise AnalysisError(f'{rel} does not parse: {ex}')
        for m in self.modules.values():
            self._scan(m)
        for m in self.modules.values():
            for c in m.classes.values():
                self._resolve_bases(c)
        # undo behaviour-preserving presentation choices (renamed private
        # attributes, explicit property(), private record types, private
        # numeric constants) - see dlint/normalise.py
        from . import normalise
        self.normalised = normalise.run(self)

    # ------------------------------------------------------------------
    def _scan(self, m):
        for st in m.tree.body:
            if isinstance(st, ast.Import):
                for a in st.names:
                    if a.asname:
                        m.imports[a.asname] = ('module', a.name)
                    else:
                        m.imports[a.name.split('.')[0]] = (
                            'module', a.name.split('.')[0])
            elif isinstance(st, ast.ImportFrom):
                base = st.module or ''
                if st.level:
                    pk = m.name.split('.')
                    if not m.is_pkg:
                        pk = pk[:-1]
                    if st.level > 1:
                        pk = pk[:-(st.level - 1)]
                    base = '.'.join(pk + ([st.module] if st.module else []))
                for a in st.names:
                    if a.name == '*':
                        m.star_imports.append(base)
                    else:
                        m.imports[a.asname or a.name] = ('name', base, a.name)
            elif isinstance(st, ast.ClassDef):
                ci = ClassInfo(m, st)
                m.classes[st.name] = ci
                self._scan_class(ci)
            elif isinstance(st, (ast.FunctionDef, ast.AsyncFunctionDef)):
                m.functions[st.name] = FuncInfo(m, None, st.name, st)
            elif isinstance(st, ast.Assign) and len(st.targets) == 1 \
                    and isinstance(st.targets[0], ast.Name):
                n = st.targets[0].id
                if isinstance(st.value, ast.Constant):
                    m.consts[n] = st.value.value
                elif isinstance(st.value, ast.Name):
                    m.aliases[n] = st.value.id

    def _scan_class(self, ci):
        for st in ci.node.body:
            if isinstance(st, (ast.FunctionDef, ast.AsyncFunctionDef)):
                kind, name = 'method', st.name
                for d in st.decorator_list:
                    dn = dotted(d)
                    if dn == 'property':
                        kind = 'getter'
                    elif dn and dn.endswith('.setter'):
                        kind, name = 'setter', st.name + '.setter'
                    elif dn and dn.endswith('.deleter'):
                        kind, name = 'deleter', st.name + '.deleter'
                ci.methods[name] = FuncInfo(ci.module, ci, name, st, kind)
            elif isinstance(st, ast.Assign):
                for t in st.targets:
                    if isinstance(t, ast.Name):
                        ci.attrs[t.id] = st.value
            elif isinstance(st, ast.AnnAssign) and isinstance(st.target,
                                                              ast.Name):
                ci.attrs[st.target.id] = st.value   # may be None

    def _resolve_bases(self, ci):
        for b in ci.base_exprs:
            e = b
            if isinstance(e, ast.Subscript):        # Generic[T], Handle[World]
                e = e.value
            d = dotted(e)
            target = self.lookup_class(ci.module, d) if d else None
            if target is not None:
                ci.bases.append(target)
            else:
                ci.ext_bases.append(d or ast.unparse(b))

    # ------------------------------------------------------------------
    def module_names(self, modname, _seen=None):
        """All names visible at module level of modname -> (kind, obj)."""
        _seen = _seen or set()
        if modname in _seen or modname not in self.modules:
            return {}
        _seen.add(modname)
        m = self.modules[modname]
        out = {}
        for base in m.star_imports:
            for k, v in self.module_names(base, set(_seen)).items():
                if not k.startswith('_'):
                    out[k] = v
        for k, v in m.imports.items():
            if v[0] == 'name':
                sub = v[1] + '.' + v[2]
                if sub in self.modules:
                    out[k] = ('module', self.modules[sub])
                else:
                    tgt = self.module_names(v[1], set(_seen)).get(v[2])
                    out[k] = tgt if tgt else ('external', v[1] + '.' + v[2])
            else:
                full = v[1]
                out[k] = (('module', self.modules[full])
                          if full in self.modules else ('external', full))
        for k, v in m.consts.items():
            out[k] = ('const', v)
        for k, v in m.classes.items():
            out[k] = ('class', v)
        for k, v in m.functions.items():
            out[k] = ('func', v)
        for k, v in m.aliases.items():
            if v in out:
                out[k] = out[v]
        return out

    def lookup(self, module, dotted_name):
        """Resolve 'a.b.c' seen in `module` -> (kind, obj) or None."""
        if not dotted_name:
            return None
        parts = dotted_name.split('.')
        names = self.module_names(module.name)
        cur = names.get(parts[0])
        if cur is None and parts[0] == self.package:
            cur = ('module', self.modules[self.package])
        for p in parts[1:]:
            if cur is None:
                return None
            if cur[0] == 'module':
                sub = cur[1].name + '.' + p
                if sub in self.modules:
                    cur = ('module', self.modules[sub])
                else:
                    cur = self.module_names(cur[1].name).get(p)
            elif cur[0] == 'external':
                cur = ('external', cur[1] + '.' + p)
            elif cur[0] == 'class':
                f = self.resolve_method(cur[1], p)
                cur = ('func', f) if f else None
            else:
                return None
        return cur

    def is_sentinel(self, module, name):
        """`name` is a module-level `NAME = object()` assigned once: a unique
        object, different from every value the program computes."""
        hits = [st for st in module.tree.body if isinstance(st, ast.Assign)
                and any(isinstance(t, ast.Name) and t.id == name
                        for t in st.targets)]
        if len(hits) != 1:
            return False
        v = hits[0].value
        stores = sum(1 for n in ast.walk(module.tree) if isinstance(
            n, ast.Name) and n.id == name and isinstance(n.ctx, ast.Store))
        return stores == 1 and isinstance(v, ast.Call) and dotted(
            v.func) == 'object' and not v.args and not v.keywords

    def lookup_class(self, module, dotted_name):
        r = self.lookup(module, dotted_name)
        return r[1] if r and r[0] == 'class' else None

    def const_value(self, module, name):
        r = self.lookup(module, name)
        if r and r[0] == 'const':
            return r[1]
        return None

    # ------------------------------------------------------------------
    def cls(self, name):
        found = [c for m in self.modules.values()
                 for c in m.classes.values() if c.name == name]
        if len(found) != 1:
            raise AnalysisError(f'class {name}: expected exactly one '
                                f'definition, found {len(found)}')
        return found[0]

    def has_cls(self, name):
        return any(name in m.classes for m in self.modules.values())

    def func(self, modname, name):
        m = self.modules.get(modname)
        if m is None or name not in m.functions:
            raise AnalysisError(f'function {modname}.{name} not found')
        return m.functions[name]

    def method(self, clsname, name, inherited=True):
        c = self.cls(clsname)
        f = self.resolve_method(c, name) if inherited else c.methods.get(name)
        if f is None:
            raise AnalysisError(f'method {clsname}.{name} not found')
        return f

    def mro(self, ci):
        # C3 over in-repo bases
        def merge(seqs):
            res = []
            seqs = [list(s) for s in seqs if s]
            while seqs:
                for s in seqs:
                    h = s[0]
                    if not any(h in t[1:] for t in seqs):
                        break
                else:
                    raise AnalysisError(f'inconsistent MRO for {ci.name}')
                res.append(h)
                seqs = [[x for x in t if x is not h] for t in seqs]
                seqs = [t for t in seqs if t]
            return res
        return [ci] + merge([self.mro(b) for b in ci.bases] + [list(ci.bases)])

    def resolve_method(self, ci, name, after=None):
        """Method `name` via the MRO of ci (after class `after` if given)."""
        chain = self.mro(ci)
        if after is not None:
            if after not in chain:
                return None
            chain = chain[chain.index(after) + 1:]
        for c in chain:
            if name in c.methods:
                return c.methods[name]
        return None

    def resolve_class_attr(self, ci, name):
        for c in self.mro(ci):
            if name in c.attrs:
                return c, c.attrs[name]
        return None, None

    def subclasses(self, ci, strict=True):
        out = []
        for m in self.modules.values():
            for c in m.classes.values():
                if c is ci and strict:
                    continue
                if ci in self.mro(c):
                    out.append(c)
        return out

    def all_functions(self):
        for m in self.modules.values():
            for f in m.functions.values():
                yield f
            for c in m.classes.values():
                for f in c.methods.values():
                    yield f

    def trivial_getter_field(self, ci, name):
        """'x' when `name` is a property whose getter is `return self.x`."""
        f = self.resolve_method(ci, name)
        if f is None or f.kind != 'getter':
            return None
        body = [s for s in f.node.body
                if not (isinstance(s, ast.Expr)
                        and isinstance(s.value, ast.Constant))]
        if len(body) == 1 and isinstance(body[0], ast.Return):
            d = dotted(body[0].value) if body[0].value is not None else None
            if d and d.startswith('self.') and d.count('.') == 1:
                return d.split('.')[1]
        return None

    def src_line(self, module, node):
        try:
            return module.lines[node.lineno - 1].strip()
        except Exception:
            return ''


def strip_docstring(body):
    if body and isinstance(body[0], ast.Expr) and isinstance(
            body[0].value, ast.Constant) and isinstance(
                body[0].value.value, str):
        return body[1:]
    return body


def norm(node):
    """Normalised statement/expression text (findings are keyed by it)."""
    if isinstance(node, str):
        return ' '.join(node.split())
    try:
        return ' '.join(ast.unparse(node).split())
    except Exception:
        return repr(node)
