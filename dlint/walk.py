"""PathEval: enumerate the paths of a function's statement tree.

A purely syntactic, path-sensitive walk of the AST (structured control flow:
if / while / for / try / with / return / raise / break / continue), with

* conditions split into leaf literals (and / or / not short-circuit),
* a symbolic environment that canonicalises expressions through local
  definitions (so two sites naming "the same thing" compare equal),
* version stamps on attribute chains, so that a value read before a mutation
  is not confused with one read after it,
* a memo of decided conditions (a condition already decided on this path, with
  no intervening write to what it reads, keeps its value),
* bounded loops (bodies walked 0..K times; longer paths are cut and counted),
* optional exception edges out of call-outs,
* inlining of calls the domain resolves (bounded depth).

Domains (one per rule) interpret the events over their own small abstract
state and may decide conditions.  No code of the analysed package is run.
"""
import ast
import copy
import os

from .model import AnalysisError, dotted, norm, strip_docstring

MUTATORS = {
    'add', 'append', 'appendleft', 'insert', 'extend', 'extendleft',
    'setdefault', 'update', 'pop', 'popleft', 'popitem', 'remove', 'discard',
    'clear', 'rotate', 'sort', 'reverse', '__setitem__', '__delitem__',
}
HEAPQ_MUT = {'heappush', 'heappop', 'heapify', 'heapreplace', 'heappushpop'}
MUTABLE_CTORS = {'list', 'dict', 'set', 'deque', 'ChainMap', 'bytearray',
                 'collections.deque', 'defaultdict', 'OrderedDict'}


class SymVal:
    """A canonicalised expression with the versions of what it read."""
    __slots__ = ('node', 'text', 'stamp', 'tag', 'info', 'binds')

    def __init__(self, node, stamp=frozenset(), tag=None, info=None,
                 binds=frozenset()):
        self.node = node
        self.text = norm(node)
        self.stamp = stamp
        self.tag = tag
        self.info = info
        # versions, at BINDING time, of the chains reached through aliases
        # of live objects (is the alias still the object the table holds?)
        self.binds = binds

    def same(self, other):
        return (isinstance(other, SymVal) and self.text == other.text
                and self.stamp == other.stamp)

    def __repr__(self):
        return f'<{self.text}>'


class Event:
    __slots__ = ('kind', 'node', 'sym', 'args', 'target', 'func', 'depth',
                 'extra', 'frame_func')

    def __init__(self, kind, node, **kw):
        self.kind = kind
        self.node = node
        self.sym = kw.get('sym')            # canonical value of node
        self.args = kw.get('args')
        self.target = kw.get('target')
        self.func = kw.get('func')
        self.depth = kw.get('depth', 0)
        self.extra = kw.get('extra')
        self.frame_func = kw.get('frame_func')

    def __repr__(self):
        t = self.sym.text if self.sym is not None else norm(self.node)
        return f'{self.kind}:{t}'


class Frame:
    __slots__ = ('func', 'cls', 'env', 'callvals', 'depth', 'gen_consumer')

    def __init__(self, func, cls, depth=0):
        self.func = func
        self.cls = cls
        self.env = {}
        self.callvals = {}
        self.depth = depth
        self.gen_consumer = None    # the For node consuming this generator

    def copy(self):
        f = Frame(self.func, self.cls, self.depth)
        f.env = dict(self.env)
        f.callvals = dict(self.callvals)
        f.gen_consumer = self.gen_consumer
        return f


class State:
    def __init__(self):
        self.frames = []
        self.versions = {}
        self.memo = {}
        self.trace = []
        self.data = {}
        self.fresh = 0

    def copy(self):
        s = State.__new__(State)
        s.frames = [f.copy() for f in self.frames]
        s.versions = dict(self.versions)
        s.memo = dict(self.memo)
        s.trace = list(self.trace)
        s.data = {k: (list(v) if isinstance(v, list) else dict(v)
                      if isinstance(v, dict) else set(v)
                      if isinstance(v, set) else v)
                  for k, v in self.data.items()}
        s.fresh = self.fresh
        return s

    @property
    def frame(self):
        return self.frames[-1]

    def bump(self, key):
        self.versions[key] = self.versions.get(key, 0) + 1

    def assumed(self):
        """The decided conditions of this path: [(text, truth)]."""
        return [(k, v[0]) for k, v in self.memo.items()]


def _container_uses(root):
    """ids of Name nodes used as containers / objects (subscripted, method
    receiver, membership target, len()/iter() argument): reading through such
    a local reads the live object, not a value copied at binding time."""
    out = set()
    for n in ast.walk(root):
        if isinstance(n, ast.Subscript) and isinstance(n.value, ast.Name):
            out.add(id(n.value))
        elif isinstance(n, ast.Attribute) and isinstance(n.value, ast.Name):
            out.add(id(n.value))
        elif isinstance(n, ast.Compare):
            for op, c in zip(n.ops, n.comparators):
                if isinstance(op, (ast.In, ast.NotIn)) and isinstance(
                        c, ast.Name):
                    out.add(id(c))
        elif isinstance(n, ast.Call) and isinstance(n.func, ast.Name) \
                and n.func.id in ('len', 'iter', 'list', 'tuple', 'set',
                                  'sorted', 'any', 'all', 'next', 'bool',
                                  'frozenset', 'reversed', 'enumerate'):
            for a in n.args:
                if isinstance(a, ast.Name):
                    out.add(id(a))
    return out


class _Subst(ast.NodeTransformer):
    def __init__(self, walker, state, container_ids=()):
        self.w = walker
        self.st = state
        self.stamps = set()
        self.binds = set()
        self.container_ids = container_ids

    def visit_Name(self, node):
        if isinstance(node.ctx, ast.Load):
            env = self.st.frame.env
            if node.id in env:
                sv = env[node.id]
                self.stamps |= sv.stamp
                if sv.tag == 'mutable':
                    lk = self._lk(node.id)
                    self.stamps.add((lk, self.st.versions.get(lk, 0)))
                    return node
                if id(node) in self.container_ids:
                    # an alias of a live object: what is read through it is
                    # read now (drop the bind-time versions of its chains)
                    new = copy.deepcopy(sv.node)
                    chains = set()
                    for x in ast.walk(new):
                        if isinstance(x, ast.Attribute):
                            d = dotted(x)
                            if d:
                                chains.add(d)
                    self.binds |= {p for p in sv.stamp if p[0] in chains}
                    self.binds |= set(sv.binds)
                    self.stamps -= {p for p in self.stamps if p[0] in chains}
                    self.stamps |= {(c, self.st.versions.get(c, 0))
                                    for c in chains}
                    self.stamps |= {p for p in sv.stamp if p[0] not in chains}
                    return new
                return copy.deepcopy(sv.node)
            c = self.w.const_of(self.st, node.id)
            if c is not None:
                return c
        return node

    def _lk(self, name):
        return f'{name}@{self.st.frame.depth}'

    def visit_Call(self, node):
        cv = self.st.frame.callvals.get(_pos(node))
        if cv is not None:
            self.stamps |= cv.stamp
            return copy.deepcopy(cv.node)
        node = self.generic_visit(node)
        if any(isinstance(a, ast.Starred) and isinstance(
                a.value, (ast.Tuple, ast.List)) for a in node.args):
            flat = []
            for a in node.args:
                if isinstance(a, ast.Starred) and isinstance(
                        a.value, (ast.Tuple, ast.List)):
                    flat.extend(a.value.elts)
                else:
                    flat.append(a)
            node.args = flat
        return node

    def visit_Attribute(self, node):
        node = self.generic_visit(node)
        d = dotted(node)
        if d is not None:
            d2 = self.w.normalise_attr(self.st, d)
            if d2 != d:
                node = ast.parse(d2, mode='eval').body
                d = d2
            self.stamps.add((d, self.st.versions.get(d, 0)))
        return node

    def visit_Lambda(self, node):
        return node

    def visit_Subscript(self, node):
        node = self.generic_visit(node)
        # (a, b, c)[1] is b
        if isinstance(node.value, (ast.Tuple, ast.List)) and isinstance(
                node.slice, ast.Constant) and isinstance(
                    node.slice.value, int) and not isinstance(
                        node.slice.value, bool) and not any(
                            isinstance(e, ast.Starred)
                            for e in node.value.elts) \
                and -len(node.value.elts) <= node.slice.value < len(
                    node.value.elts) and isinstance(node.ctx, ast.Load):
            return node.value.elts[node.slice.value]
        return node

    def visit_IfExp(self, node):
        node = self.generic_visit(node)
        t = fold_truth(node.test)
        if t is True:
            return node.body
        if t is False:
            return node.orelse
        return node

    def visit_ListComp(self, node):
        return self._comp(node)

    def visit_SetComp(self, node):
        return self._comp(node)

    def visit_DictComp(self, node):
        return self._comp(node)

    def visit_GeneratorExp(self, node):
        return self._comp(node)

    def _comp(self, node):
        # substitute free names only (comprehension targets shadow)
        bound = set()
        for g in node.generators:
            for n in ast.walk(g.target):
                if isinstance(n, ast.Name):
                    bound.add(n.id)
        env = self.st.frame.env
        hidden = {k: env.pop(k) for k in list(env) if k in bound}
        try:
            return self.generic_visit(node)
        finally:
            env.update(hidden)


class Domain:
    """Default domain: records events, folds constants, decides nothing."""
    follow_exceptions = False
    merge_states = False
    loop_bound = 2
    inline_depth = 3

    def __init__(self, program):
        self.program = program

    # --- hooks -------------------------------------------------------
    def init_state(self, state, func, cls):
        pass

    def on_event(self, state, ev):
        """Return [(outcome, state)]; outcome None or ('raise', typename)."""
        state.trace.append(ev)
        return [(None, state)]

    def may_raise(self, state, ev):
        """Call-out may raise (only asked when follow_exceptions)."""
        return ev.kind == 'call' and ev.func is None

    def decide(self, state, sym, node):
        return fold_truth(sym.node)

    def resolve_call(self, state, call, walker):
        """FuncInfo to inline for this call, with (cls, self SymVal)."""
        return walker.default_resolve(state, call)

    def resolve_setter(self, state, target, walker):
        return walker.default_resolve_setter(state, target)

    def resolve_generator(self, st, call, walker):
        """A generator function to run interleaved with the for loop that
        consumes it (default: private helpers)."""
        r = walker.resolve_helper(st, call)
        if r is not None and any(isinstance(x, (ast.Yield, ast.YieldFrom))
                                 for x in ast.walk(r[0].node)):
            return r
        return None

    def state_key(self, state):
        """Hashable key of the abstract state (equal keys are merged after a
        statement when merge_states is set); None = never merge."""
        return None

    def for_counts(self, state, node, itersym):
        """Iteration counts to explore for this loop."""
        return range(0, self.loop_bound + 1)

    def bind_loop_var(self, state, node, i, itersym, sym):
        pass

    def leave_loop(self, state, node, itersym, complete, count):
        pass


def fold_truth(n):
    """Truth of a canonical condition decidable from its text alone."""
    if isinstance(n, ast.Constant):
        return bool(n.value)
    if isinstance(n, (ast.List, ast.Tuple, ast.Set)):
        if not n.elts:
            return False
        if not any(isinstance(e, ast.Starred) for e in n.elts):
            return True
        return None
    if isinstance(n, ast.Dict):
        return bool(n.keys) if not n.keys else True
    if isinstance(n, ast.Compare) and len(n.ops) == 1:
        lt, op, rt = n.left, n.ops[0], n.comparators[0]
        if isinstance(op, (ast.Is, ast.IsNot)):
            a, b = _nullness(lt), _nullness(rt)
            if a is not None and b is not None:
                same = (a == 'none' and b == 'none')
                if a == 'none' or b == 'none':
                    return same if isinstance(op, ast.Is) else not same
        if isinstance(lt, ast.Constant) and isinstance(rt, ast.Constant):
            try:
                if isinstance(op, ast.Eq):
                    return lt.value == rt.value
                if isinstance(op, ast.NotEq):
                    return lt.value != rt.value
            except Exception:
                return None
    return None


def _nullness(n):
    if isinstance(n, ast.Constant):
        return 'none' if n.value is None else 'notnone'
    if isinstance(n, (ast.List, ast.Tuple, ast.Dict, ast.Set, ast.Lambda,
                      ast.JoinedStr)):
        return 'notnone'
    return None


class Exit:
    __slots__ = ('kind', 'state', 'payload', 'node')

    def __init__(self, kind, state, payload=None, node=None):
        self.kind = kind        # fall | return | raise | break | continue
        self.state = state
        self.payload = payload
        self.node = node


class Walker:
    def __init__(self, program, domain):
        self.p = program
        self.d = domain
        self.cuts = 0
        self.merged = 0
        self.paths = 0
        self.forks = 0
        self.steps = 0
        self.diverging = []

    # statements executed over all paths of one walker; beyond this the code
    # has a shape whose paths the enumerator cannot cover in reasonable time:
    # ANALYSIS-ERROR (exit 2), never a verdict
    STEP_BUDGET = int(os.environ.get('DLINT_STEP_BUDGET', '600000'))

    # ------------------------------------------------------------------
    def run(self, func, cls=None, state=None, bind=None):
        """All exits of `func` analysed in the context of class `cls`."""
        st = state or State()
        cls = cls or func.cls
        fr = Frame(func, cls, 0)
        st.frames.append(fr)
        a = func.node.args
        for arg in a.posonlyargs + a.args + a.kwonlyargs:
            fr.env[arg.arg] = SymVal(ast.Name(arg.arg, ast.Load()),
                                     tag='param')
        if a.vararg:
            fr.env[a.vararg.arg] = SymVal(ast.Name(a.vararg.arg, ast.Load()),
                                          tag='param')
        if a.kwarg:
            fr.env[a.kwarg.arg] = SymVal(ast.Name(a.kwarg.arg, ast.Load()),
                                         tag='param')
        if bind:
            fr.env.update(bind)
        self.d.init_state(st, func, cls)
        out = []
        for ex in self.block(strip_docstring(func.node.body), st):
            self.paths += 1
            if ex.kind in ('break', 'continue'):
                raise AnalysisError(f'{func.where}: stray {ex.kind}')
            out.append(ex)
        return out

    def run_block(self, func, stmts, cls=None, state=None):
        """All exits of a statement list of `func` (e.g. one loop body),
        including break / continue exits."""
        st = state or State()
        cls = cls or func.cls
        fr = Frame(func, cls, 0)
        st.frames.append(fr)
        a = func.node.args
        for arg in a.posonlyargs + a.args + a.kwonlyargs:
            fr.env[arg.arg] = SymVal(ast.Name(arg.arg, ast.Load()),
                                     tag='param')
        self.d.init_state(st, func, cls)
        out = []
        for ex in self.block(list(stmts), st):
            self.paths += 1
            out.append(ex)
        return out

    # ------------------------------------------------------------------
    def const_of(self, st, name):
        fr = st.frame
        r = self.p.lookup(fr.func.module, name)
        if r and r[0] == 'const' and isinstance(r[1], (str, int, float, bool,
                                                        type(None))):
            return ast.Constant(r[1])
        return None

    def normalise_attr(self, st, d):
        """self.dispatch_enabled -> self._dispatch_enabled (trivial getter)."""
        parts = d.split('.')
        if parts[0] == 'self' and len(parts) >= 2 and st.frame.cls is not None:
            f = self.p.trivial_getter_field(st.frame.cls, parts[1])
            if f:
                parts[1] = f
                return '.'.join(parts)
        return d

    def canon(self, st, node):
        if node is None:
            return SymVal(ast.Constant(None))
        cp = copy.deepcopy(node)
        sub = _Subst(self, st, _container_uses(cp))
        new = sub.visit(cp)
        ast.fix_missing_locations(new)
        return SymVal(new, frozenset(sub.stamps),
                      binds=frozenset(sub.binds))

    def fresh(self, st, hint, tag='fresh', info=None):
        st.fresh += 1
        return SymVal(ast.Name(f'{hint}${st.fresh}', ast.Load()), tag=tag,
                      info=info)

    # ------------------------------------------------------------------
    def resolve_module_func(self, st, call):
        """An in-repo module-level function called by (dotted) name."""
        d = dotted(call.func)
        if not d:
            return None
        r = self.p.lookup(st.frame.func.module, d)
        if r and r[0] == 'func' and r[1].cls is None:
            return r[1], None, None
        return None

    def resolve_helper(self, st, call, skip=()):
        """Private helper extracted from the analysed code: self._m(...),
        Class._m(...), or a module-level _f(...) of the package."""
        if isinstance(call.func, ast.Name):
            # a local bound to a method of self (notify = self._m): the call
            # goes to that method
            sv = st.frame.env.get(call.func.id)
            if sv is not None and isinstance(getattr(sv, 'node', None),
                                             ast.Attribute) and isinstance(
                    sv.node.value, ast.Name) and sv.node.value.id == 'self':
                call2 = copy.copy(call)
                call2.func = sv.node
                return self.resolve_helper(st, call2, skip)
        r = self.default_resolve(st, call)
        if r is None:
            r = self.resolve_module_func(st, call)
        if r is None and isinstance(call.func, ast.Attribute) and isinstance(
                call.func.value, ast.Name):
            c = self.p.lookup(st.frame.func.module, call.func.value.id)
            if c and c[0] == 'class':
                m = self.p.resolve_method(c[1], call.func.attr)
                if m is not None and any(dotted(d) == 'staticmethod'
                                         for d in m.node.decorator_list):
                    r = (m, c[1], None)
                elif m is not None and any(dotted(d) == 'classmethod'
                                           for d in m.node.decorator_list) \
                        and self._internal_class(c[1]):
                    # Record.make(...): the class is bound to `cls`
                    return m, c[1], SymVal(ast.Name(c[1].name, ast.Load()))
        if r is None and isinstance(call.func, ast.Attribute) and isinstance(
                call.func.value, ast.Name) and call.func.value.id == 'self' \
                and st.frame.cls is not None and 'self' in st.frame.env \
                and self._internal_class(st.frame.cls) \
                and call.func.attr not in skip:
            # self.other() inside a record's method that was itself inlined
            # on some object
            m = self.p.resolve_method(st.frame.cls, call.func.attr)
            if m is not None and m.kind == 'method' and not (
                    m.name.startswith('__') and m.name.endswith('__')):
                return m, st.frame.cls, st.frame.env['self']
        if r is None and isinstance(call.func, ast.Attribute) and not (
                isinstance(call.func.value, ast.Name)
                and call.func.value.id in ('self', 'cls')) \
                and not call.func.attr.startswith('_'):
            # obj.method(...) where `method` is defined by exactly one class
            # of the module and that class is internal (private name, or a
            # plain record): a helper method on a record
            mod = st.frame.func.module
            owners = [c for c in mod.classes.values()
                      if call.func.attr in c.methods]
            if len(owners) == 1 and self._internal_class(owners[0]) \
                    and call.func.attr not in skip:
                m = owners[0].methods[call.func.attr]
                if m.kind == 'method' and not any(
                        dotted(d) in ('staticmethod', 'classmethod')
                        for d in m.node.decorator_list):
                    return m, owners[0], self.canon(st, call.func.value)
        if r is not None and isinstance(call.func, ast.Attribute) \
                and isinstance(call.func.value, ast.Name) \
                and call.func.value.id == 'self' and st.frame.cls is not None \
                and self._internal_class(st.frame.cls) \
                and not r[0].name.startswith('__') \
                and r[0].name not in skip:
            return r            # self.method() inside a record's own method
        if r is None and isinstance(call.func, ast.Attribute) \
                and call.func.attr.startswith('_') \
                and not (call.func.attr.startswith('__')
                         and call.func.attr.endswith('__')):
            # obj._private(...): a private method defined by exactly one
            # class of this module (e.g. another instance of the same class)
            mod = st.frame.func.module
            owners = [c for c in mod.classes.values()
                      if call.func.attr in c.methods]
            if len(owners) == 1:
                m = owners[0].methods[call.func.attr]
                if not any(dotted(d) in ('staticmethod', 'classmethod')
                           for d in m.node.decorator_list):
                    r = (m, owners[0], self.canon(st, call.func.value))
        if r is None:
            return None
        name = r[0].name
        if not name.startswith('_') or (name.startswith('__')
                                        and name.endswith('__')) \
                or name in skip:
            return None
        return r

    def _internal_class(self, ci):
        """A private class, or a plain record (dataclass / NamedTuple /
        exception carrying fields): its small methods are helpers."""
        if ci.name.startswith('_'):
            return True
        decs = [(dotted(d.func if isinstance(d, ast.Call) else d) or '')
                .split('.')[-1] for d in ci.decorators]
        if 'dataclass' in decs:
            return True
        return any((e or '').split('.')[-1] in ('NamedTuple', 'Exception')
                   for e in ci.ext_bases)

    def default_resolve(self, st, call):
        f = call.func
        fr = st.frame
        if isinstance(f, ast.Attribute):
            recv = f.value
            if isinstance(recv, ast.Name) and recv.id == 'self' \
                    and fr.cls is not None and 'self' in fr.env \
                    and fr.env['self'].text == 'self':
                m = self.p.resolve_method(fr.cls, f.attr)
                if m is not None and m.kind == 'method':
                    return m, fr.cls, fr.env['self']
            if isinstance(recv, ast.Call) and isinstance(recv.func, ast.Name) \
                    and recv.func.id == 'super' and fr.func.cls is not None \
                    and fr.cls is not None:
                m = self.p.resolve_method(fr.cls, f.attr, after=fr.func.cls)
                if m is not None:
                    return m, fr.cls, fr.env.get('self')
        return None

    def default_resolve_setter(self, st, target):
        fr = st.frame
        if isinstance(target, ast.Attribute) and isinstance(
                target.value, ast.Name) and target.value.id == 'self' \
                and fr.cls is not None and 'self' in fr.env \
                and fr.env['self'].text == 'self':
            m = self.p.resolve_method(fr.cls, target.attr + '.setter')
            if m is not None:
                return m, fr.cls, fr.env['self']
        return None

    # ------------------------------------------------------------------
    def emit(self, st, ev):
        """-> list of Exit('fall'|'raise')."""
        ev.depth = st.frame.depth
        ev.frame_func = st.frame.func
        res = []
        for outcome, s in self.d.on_event(st, ev):
            if outcome is None:
                if self.d.follow_exceptions and self.d.may_raise(s, ev):
                    s2 = s.copy()
                    s2.trace.append(Event('exc-edge', ev.node, sym=ev.sym,
                                          depth=ev.depth))
                    res.append(Exit('raise', s2, None, ev.node))
                res.append(Exit('fall', s))
            else:
                res.append(Exit('raise', s, outcome[1], ev.node))
        return res

    def calls_in(self, node):
        """Call nodes of an expression, evaluation order (inner first)."""
        out = []

        def rec(n, comp):
            if isinstance(n, ast.Lambda):
                return
            if isinstance(n, (ast.ListComp, ast.SetComp, ast.DictComp,
                              ast.GeneratorExp)):
                for g in n.generators:
                    rec(g.iter, comp)
                    for c in g.ifs:
                        rec(c, True)
                if isinstance(n, ast.DictComp):
                    rec(n.key, True)
                    rec(n.value, True)
                else:
                    rec(n.elt, True)
                return
            if isinstance(n, ast.Call):
                rec(n.func, comp)
                for a in n.args:
                    rec(a, comp)
                for k in n.keywords:
                    rec(k.value, comp)
                out.append((n, comp))
                return
            for c in ast.iter_child_nodes(n):
                rec(c, comp)
        if node is not None:
            rec(node, False)
        return out

    def eval_expr(self, node, st):
        """Process the calls of an expression. -> Exits (fall / raise)."""
        states = [st]
        raised = []
        for call, in_comp in self.calls_in(node):
            nxt = []
            for s in states:
                for ex in self.do_call(call, s, in_comp):
                    if ex.kind == 'fall':
                        nxt.append(ex.state)
                    else:
                        raised.append(ex)
            states = nxt
        # yields inside the expression
        for n in ast.walk(node) if node is not None else ():
            if isinstance(n, (ast.Yield, ast.YieldFrom)):
                nxt = []
                for s in states:
                    for ex in self.emit(s, Event('yield', n, sym=self.canon(
                            s, n.value) if n.value is not None else None)):
                        if ex.kind == 'fall':
                            nxt.append(ex.state)
                        else:
                            raised.append(ex)
                states = nxt
        return [Exit('fall', s) for s in states] + raised

    def do_call(self, call, st, in_comp=False):
        res = None if in_comp else self.d.resolve_call(st, call, self)
        st.frame.callvals.pop(_pos(call), None)
        sym = self.canon(st, call)
        args = [self.canon(st, a) for a in call.args]
        if res is None:
            self._list_model(st, call)
            if isinstance(call.func, ast.Name) and call.func.id == 'next':
                st.fresh += 1
                nv = SymVal(ast.Name(f'next\u00b7{st.fresh}', ast.Load()),
                            tag='fresh', info={'call': sym})
                st.frame.callvals[_pos(call)] = nv
                st.trace.append(Event('fresh', call, sym=nv, extra=sym))
        ev = Event('call', call, sym=sym, args=args,
                   func=res[0] if res else None,
                   extra={'in_comp': in_comp, 'keywords': {
                       k.arg: self.canon(st, k.value) for k in call.keywords}})
        out = []
        cn = sym.node
        if res is None and isinstance(cn, ast.Call) and dotted(cn.func) in (
                'setattr', 'object.__setattr__') and len(cn.args) == 3 \
                and isinstance(cn.args[1], ast.Constant) and isinstance(
                    cn.args[1].value, str) and not in_comp:
            tnode = ast.Attribute(cn.args[0], cn.args[1].value, ast.Load())
            ast.copy_location(tnode, call)
            ast.fix_missing_locations(tnode)
            sev = Event('store', call, sym=SymVal(cn.args[2], sym.stamp),
                        target=SymVal(tnode, sym.stamp),
                        extra={'aug': None, 'raw_target': tnode,
                               'via': 'setattr'})
            for ex in self.emit(st, sev):
                if ex.kind == 'fall':
                    self._bump_target(ex.state, tnode)
                out.append(ex)
            return out
        for ex in self.emit(st, ev):
            if res is None and ex.kind == 'fall':
                self.note_mutation(ex.state, sym.node)
            if ex.kind != 'fall' or res is None \
                    or st.frame.depth >= self.d.inline_depth:
                out.append(ex)
                continue
            out.extend(self.inline(call, ex.state, res))
        return out

    def _list_model(self, st, call):
        f = call.func
        if not (isinstance(f, ast.Attribute) and isinstance(f.value, ast.Name)):
            return
        env = st.frame.env
        sv = env.get(f.value.id)
        if sv is None or sv.tag != 'mutable' or sv.info is None:
            return
        elems, tail = sv.info
        if f.attr == 'pop' and not call.args:
            if not tail and elems:
                st.frame.callvals[_pos(call)] = elems[-1]
                new = (elems[:-1], False)
            else:
                st.frame.callvals.pop(_pos(call), None)
                new = (elems, tail)
        elif f.attr == 'append' and len(call.args) == 1 and not tail:
            new = (elems + [self.canon(st, call.args[0])], False)
        elif f.attr in MUTATORS:
            new = (elems, True)
        else:
            return
        env[f.value.id] = SymVal(sv.node, sv.stamp, tag='mutable', info=new)

    def list_truth(self, st, node):
        """Truth of a local list with a known element model, else None."""
        if isinstance(node, ast.Name):
            sv = st.frame.env.get(node.id)
            if sv is not None and sv.tag == 'mutable' and sv.info is not None:
                elems, tail = sv.info
                if elems:
                    return True
                if not tail:
                    return False
        return None

    def inline(self, call, st, res, setter_value=None):
        fr = self._bind_frame(call, st, res, setter_value)
        func = res[0]
        st.frames.append(fr)
        st.trace.append(Event('enter', call, func=func, depth=fr.depth))
        out = []
        for ex in self.block(strip_docstring(func.node.body), st):
            s = ex.state
            s.trace.append(Event('leave', call, func=func, depth=fr.depth,
                                 extra=ex.kind))
            s.frames.pop()
            if ex.kind == 'raise':
                out.append(Exit('raise', s, ex.payload, ex.node))
            elif ex.kind in ('fall', 'return'):
                rv = ex.payload if (ex.kind == 'return'
                                    and ex.payload is not None) \
                    else SymVal(ast.Constant(None))
                if call is not None:
                    s.frame.callvals[_pos(call)] = rv
                out.append(Exit('fall', s))
            else:
                raise AnalysisError(f'{func.where}: stray {ex.kind}')
        return out

    def _bind_frame(self, call, st, res, setter_value=None):
        func, cls, selfsym = res
        caller = st.frame
        fr = Frame(func, cls, caller.depth + 1)
        a = func.node.args
        params = [x.arg for x in a.posonlyargs + a.args]
        actual = []
        if func.cls is not None and params and params[0] in ('self', 'cls',
                                                              'subself'):
            fr.env[params[0]] = selfsym if selfsym is not None else SymVal(
                ast.Name('self', ast.Load()))
            params = params[1:]
        if setter_value is not None:
            actual = [setter_value]
            kws = {}
            star = False
        else:
            star = any(isinstance(x, ast.Starred) for x in call.args)
            actual = [self.canon(st, x) for x in call.args
                      if not isinstance(x, ast.Starred)]
            # f(a, b, *rest): the positional arguments before the first
            # starred one bind positionally; if they fill every named
            # parameter the star only feeds *args
            n_before = next((i for i, x in enumerate(call.args)
                             if isinstance(x, ast.Starred)), len(call.args))
            if star and a.vararg and n_before >= len(params):
                lead = [self.canon(st, x) for x in call.args[:len(params)]]
                tail = self.canon(st, ast.Tuple(
                    list(call.args[len(params):]), ast.Load()))
                for pn, v in zip(params, lead):
                    fr.env[pn] = v
                fr.env[a.vararg.arg] = tail
                kws = {k.arg: self.canon(st, k.value) for k in call.keywords
                       if k.arg}
                for kw, d in zip(a.kwonlyargs, a.kw_defaults):
                    if kw.arg in kws:
                        fr.env[kw.arg] = kws[kw.arg]
                    elif d is not None:
                        fr.env[kw.arg] = SymVal(d)
                    else:
                        fr.env[kw.arg] = self.fresh(st, kw.arg, tag='param')
                if a.kwarg:
                    fr.env[a.kwarg.arg] = self.fresh(st, a.kwarg.arg,
                                                     tag='param')
                return fr
            kws = {k.arg: self.canon(st, k.value) for k in call.keywords
                   if k.arg}
        defaults = dict(zip(reversed(params), reversed(a.defaults)))
        for i, pn in enumerate(params):
            if i < len(actual) and not star:
                fr.env[pn] = actual[i]
            elif pn in kws:
                fr.env[pn] = kws[pn]
            elif pn in defaults and not star:
                fr.env[pn] = SymVal(defaults[pn])
            else:
                fr.env[pn] = self.fresh(st, pn, tag='param')
        if a.vararg:
            rest = actual[len(params):]
            if star:
                fr.env[a.vararg.arg] = self.canon(st, ast.Tuple(
                    list(call.args), ast.Load()))
            else:
                fr.env[a.vararg.arg] = SymVal(ast.Tuple(
                    [copy.deepcopy(x.node) for x in rest], ast.Load()),
                    frozenset().union(*[x.stamp for x in rest])
                    if rest else frozenset())
        for kw, d in zip(a.kwonlyargs, a.kw_defaults):
            if kw.arg in kws:
                fr.env[kw.arg] = kws[kw.arg]
            elif d is not None:
                fr.env[kw.arg] = SymVal(d)
            else:
                fr.env[kw.arg] = self.fresh(st, kw.arg, tag='param')
        if a.kwarg:
            fr.env[a.kwarg.arg] = self.fresh(st, a.kwarg.arg, tag='param')
        return fr

    # ------------------------------------------------------------------
    def block(self, stmts, st):
        if not stmts:
            yield Exit('fall', st)
            return
        head, rest = stmts[0], stmts[1:]
        if not self.d.merge_states:
            for ex in self.stmt(head, st):
                if ex.kind == 'fall':
                    yield from self.block(rest, ex.state)
                else:
                    yield ex
            return
        seen = set()
        for ex in self.stmt(head, st):
            if ex.kind == 'fall':
                k = self.d.state_key(ex.state)
                if k is not None:
                    if k in seen:
                        self.merged += 1
                        continue
                    seen.add(k)
                yield from self.block(rest, ex.state)
            else:
                yield ex

    def stmt(self, n, st):
        self.steps += 1
        if self.steps > self.STEP_BUDGET:
            raise AnalysisError(
                f'path budget exceeded ({self.STEP_BUDGET} statement '
                f'executions) in {st.frames[0].func.where}: the paths of '
                'this function cannot be enumerated')
        if isinstance(n, ast.Expr) and isinstance(n.value, ast.YieldFrom) \
                and st.frame.gen_consumer is not None:
            # yield from X  ==  for v in X: yield v
            tmp = f'_yf{getattr(n, "lineno", 0)}'
            loop = ast.For(ast.Name(tmp, ast.Store()), n.value.value,
                           [ast.Expr(ast.Yield(ast.Name(tmp, ast.Load())))],
                           [])
            ast.copy_location(loop, n)
            ast.fix_missing_locations(loop)
            yield from self.for_(loop, st)
            return
        if isinstance(n, ast.Expr) and isinstance(n.value, ast.Yield) \
                and st.frame.gen_consumer is not None:
            for ex in self.eval_expr(n.value.value, st):
                if ex.kind != 'fall':
                    yield ex
                else:
                    yield from self._gen_yield(n, ex.state)
            return
        if isinstance(n, ast.Expr):
            if isinstance(n.value, ast.Constant):
                yield Exit('fall', st)
                return
            yield from self.eval_expr(n.value, st)
        elif isinstance(n, ast.Assign) and isinstance(n.value, ast.IfExp) \
                and len(n.targets) == 1:
            t = n.value
            a = ast.Assign(n.targets, t.body)
            b = ast.Assign(n.targets, t.orelse)
            ast.copy_location(a, n)
            ast.copy_location(b, n)
            iff = ast.If(t.test, [a], [b])
            ast.copy_location(iff, n)
            ast.fix_missing_locations(iff)
            yield from self.stmt(iff, st)
        elif isinstance(n, (ast.Assign, ast.AnnAssign, ast.AugAssign)):
            yield from self.assign(n, st)
        elif isinstance(n, ast.Delete):
            for ex in self._seq([(lambda s, t=t: self.delete(t, s))
                                 for t in n.targets], st):
                yield ex
        elif isinstance(n, ast.Return) and isinstance(n.value, ast.IfExp):
            t = n.value
            a = ast.Return(t.body)
            b = ast.Return(t.orelse)
            ast.copy_location(a, n)
            ast.copy_location(b, n)
            iff = ast.If(t.test, [a], [b])
            ast.copy_location(iff, n)
            yield from self.stmt(iff, st)
        elif isinstance(n, ast.Return):
            for ex in self.eval_expr(n.value, st):
                if ex.kind != 'fall':
                    yield ex
                    continue
                s = ex.state
                sym = self.canon(s, n.value) if n.value is not None else None
                for e2 in self.emit(s, Event('return', n, sym=sym)):
                    if e2.kind == 'fall':
                        yield Exit('return', e2.state, sym, n)
                    else:
                        yield e2
        elif isinstance(n, ast.Raise):
            for ex in self.eval_expr(n.exc, st):
                if ex.kind != 'fall':
                    yield ex
                    continue
                s = ex.state
                tn = None
                if n.exc is not None:
                    e = n.exc.func if isinstance(n.exc, ast.Call) else n.exc
                    tn = dotted(e)
                    if tn is None:
                        tn = norm(self.canon(s, e).node)
                sym = self.canon(s, n.exc) if n.exc is not None else None
                fe = self.d.follow_exceptions
                self.d.follow_exceptions = False
                try:
                    exits = self.emit(s, Event('raise', n, sym=sym, extra=tn))
                finally:
                    self.d.follow_exceptions = fe
                for e2 in exits:
                    yield Exit('raise', e2.state, tn, n)
        elif isinstance(n, ast.If):
            for truth, s in self.branch(n.test, st):
                if isinstance(truth, Exit):
                    yield truth
                    continue
                yield from self.block(n.body if truth else n.orelse, s)
        elif isinstance(n, ast.While):
            yield from self.while_(n, st, 0)
        elif isinstance(n, ast.For):
            yield from self.for_(n, st)
        elif isinstance(n, ast.Try):
            yield from self.try_(n, st)
        elif isinstance(n, ast.With):
            yield from self.with_(n, st)
        elif isinstance(n, ast.Assert):
            # assertions are preconditions: assume them true, keep events out
            yield Exit('fall', st)
        elif isinstance(n, (ast.Pass, ast.Import, ast.ImportFrom, ast.Global,
                            ast.Nonlocal)):
            yield Exit('fall', st)
        elif isinstance(n, ast.Break):
            yield Exit('break', st, node=n)
        elif isinstance(n, ast.Continue):
            yield Exit('continue', st, node=n)
        elif isinstance(n, (ast.FunctionDef, ast.ClassDef)):
            st.frame.env[n.name] = SymVal(ast.Name(n.name, ast.Load()),
                                          tag='def', info=n)
            for ex in self.emit(st, Event('def', n)):
                yield ex
        else:
            raise AnalysisError(
                f'{st.frame.func.where}: unsupported statement '
                f'{type(n).__name__} at line {n.lineno}')

    def _seq(self, steps, st):
        states = [st]
        out = []
        for step in steps:
            nxt = []
            for s in states:
                for ex in step(s):
                    if ex.kind == 'fall':
                        nxt.append(ex.state)
                    else:
                        out.append(ex)
            states = nxt
        return [Exit('fall', s) for s in states] + out

    # ------------------------------------------------------------------
    def assign(self, n, st):
        if isinstance(n, ast.AnnAssign):
            if n.value is None:
                yield Exit('fall', st)
                return
            targets, value = [n.target], n.value
        elif isinstance(n, ast.AugAssign):
            targets, value = [n.target], n.value
        else:
            targets, value = n.targets, n.value
        for ex in self.eval_expr(value, st):
            if ex.kind != 'fall':
                yield ex
                continue
            s = ex.state
            vsym = self.canon(s, value)
            steps = []
            for t in targets:
                steps.append(lambda s2, t=t: self.store(
                    t, vsym, s2, n, aug=n.op if isinstance(
                        n, ast.AugAssign) else None))
            for e2 in self._seq(steps, s):
                yield e2

    def store(self, t, vsym, st, stmt, aug=None):
        fr = st.frame
        if isinstance(t, ast.Name):
            lk = f'{t.id}@{fr.depth}'
            if aug is not None:
                old = fr.env.get(t.id)
                ev = Event('auglocal', stmt, sym=vsym, target=t,
                           extra={'op': aug, 'old': old})
                st.bump(lk)
                if old is not None and old.tag == 'mutable':
                    if old.info is not None:
                        fr.env[t.id] = SymVal(old.node, old.stamp,
                                              tag='mutable',
                                              info=(old.info[0], True))
                else:
                    comb = ast.BinOp(copy.deepcopy(old.node) if old else
                                     ast.Name(t.id, ast.Load()), aug,
                                     copy.deepcopy(vsym.node))
                    fr.env[t.id] = SymVal(
                        comb, (old.stamp if old else frozenset())
                        | vsym.stamp)
                return self.emit(st, ev)
            if self._is_mutable_ctor(vsym.node):
                st.bump(lk)
                model = None
                if isinstance(vsym.node, ast.List) and not any(
                        isinstance(e, ast.Starred) for e in vsym.node.elts):
                    model = ([SymVal(e, vsym.stamp) for e in vsym.node.elts],
                             False)
                fr.env[t.id] = SymVal(vsym.node, vsym.stamp, tag='mutable',
                                      info=model)
            else:
                fr.env[t.id] = vsym
            return self.emit(st, Event('local', stmt, sym=vsym, target=t))
        if isinstance(t, (ast.Tuple, ast.List)):
            exits = [Exit('fall', st)]
            for i, el in enumerate(t.elts):
                if isinstance(vsym.node, (ast.Tuple, ast.List)) and len(
                        vsym.node.elts) == len(t.elts) and not any(
                            isinstance(x, ast.Starred)
                            for x in vsym.node.elts):
                    sub = SymVal(vsym.node.elts[i], vsym.stamp)
                else:
                    sub = SymVal(ast.Subscript(
                        copy.deepcopy(vsym.node), ast.Constant(i),
                        ast.Load()), vsym.stamp, tag='unpack')
                nxt = []
                for ex in exits:
                    if ex.kind == 'fall':
                        nxt.extend(self.store(el, sub, ex.state, stmt))
                    else:
                        nxt.append(ex)
                exits = nxt
            return exits
        if isinstance(t, ast.Starred):
            return self.store(t.value, self.fresh(st, 'star'), st, stmt)
        # attribute / subscript target
        out = []
        for ex in self.eval_expr(t, st):
            if ex.kind != 'fall':
                out.append(ex)
                continue
            s = ex.state
            tsym = self.canon(s, _as_load(t))
            res = self.d.resolve_setter(s, t, self) if aug is None else None
            ev = Event('store', stmt, sym=vsym, target=tsym,
                       func=res[0] if res else None,
                       extra={'aug': aug, 'raw_target': t})
            for e2 in self.emit(s, ev):
                if e2.kind == 'fall':
                    self._bump_target(e2.state, tsym.node)
                if e2.kind == 'fall' and res is not None \
                        and s.frame.depth < self.d.inline_depth:
                    out.extend(self.inline(None, e2.state, res,
                                           setter_value=vsym))
                else:
                    out.append(e2)
        return out

    def delete(self, t, st):
        if isinstance(t, ast.Name):
            st.frame.env.pop(t.id, None)
            return [Exit('fall', st)]
        out = []
        for ex in self.eval_expr(t, st):
            if ex.kind != 'fall':
                out.append(ex)
                continue
            s = ex.state
            tsym = self.canon(s, _as_load(t))
            for e2 in self.emit(s, Event('del', t, target=tsym)):
                if e2.kind == 'fall':
                    self._bump_target(e2.state, tsym.node)
                out.append(e2)
        return out

    def _bump_target(self, st, node):
        # x.f[k] = v  /  x.f = v : bump every attribute-chain prefix named
        n = node
        while isinstance(n, (ast.Subscript, ast.Attribute)):
            d = dotted(n)
            if d is not None:
                st.bump(d)
                break
            n = n.value
        if isinstance(n, ast.Name) and isinstance(node, ast.Subscript):
            st.bump(f'{n.id}@{st.frame.depth}')

    def note_mutation(self, st, call):
        """Bump versions for a mutating method / heapq call (domains call
        this from on_event through base_effects)."""
        if not isinstance(call, ast.Call):
            return False
        f = call.func
        if isinstance(f, ast.Attribute) and f.attr in MUTATORS:
            base = f.value
            while isinstance(base, ast.Subscript):
                base = base.value
            d = dotted(base)
            if d is not None:
                if isinstance(base, ast.Name):
                    st.bump(f'{base.id}@{st.frame.depth}')
                else:
                    st.bump(d)
                return True
        d = dotted(f)
        if d and d.split('.')[-1] in HEAPQ_MUT and call.args:
            base = call.args[0]
            bd = dotted(base)
            if bd:
                st.bump(bd)
                return True
        return False

    def _is_mutable_ctor(self, node):
        if isinstance(node, (ast.List, ast.Dict, ast.Set, ast.ListComp,
                             ast.DictComp, ast.SetComp)):
            return True
        if isinstance(node, ast.Call):
            d = dotted(node.func)
            return d in MUTABLE_CTORS
        return False

    # ------------------------------------------------------------------
    def branch(self, test, st):
        """Yield (truth, state) — or (Exit, None) for a raise inside."""
        if isinstance(test, ast.BoolOp):
            is_and = isinstance(test.op, ast.And)
            yield from self._boolop(test.values, is_and, st)
            return
        if isinstance(test, ast.UnaryOp) and isinstance(test.op, ast.Not):
            for truth, s in self.branch(test.operand, st):
                if isinstance(truth, Exit):
                    yield truth, s
                else:
                    yield (not truth), s
            return
        if isinstance(test, ast.Compare) and len(test.ops) == 1 \
                and isinstance(test.ops[0], (ast.NotIn, ast.IsNot,
                                             ast.NotEq)):
            pos = {ast.NotIn: ast.In, ast.IsNot: ast.Is,
                   ast.NotEq: ast.Eq}[type(test.ops[0])]()
            t2 = ast.Compare(test.left, [pos], test.comparators)
            ast.copy_location(t2, test)
            t2._orig = test
            for truth, s in self.branch(t2, st):
                if isinstance(truth, Exit):
                    yield truth, s
                else:
                    yield (not truth), s
            return
        for ex in self.eval_expr(test, st):
            if ex.kind != 'fall':
                yield ex, None
                continue
            s = ex.state
            sym = self.canon(s, test)
            key = sym.text
            evnode = getattr(test, '_orig', test)
            if isinstance(sym.node, ast.BoolOp) or (
                    isinstance(sym.node, ast.UnaryOp)
                    and isinstance(sym.node.op, ast.Not)) or (
                        isinstance(sym.node, ast.Compare)
                        and len(sym.node.ops) == 1 and isinstance(
                            sym.node.ops[0], (ast.NotIn, ast.IsNot))):
                # the leaf stood for a boolean expression (e.g. the value
                # returned by an inlined helper): decide it structurally
                yield from self._branch_canon(sym.node, sym.stamp, s, evnode)
                continue
            memo = s.memo.get(key)
            if memo is not None and memo[1] == sym.stamp:
                truth = memo[0]
            else:
                truth = self.list_truth(s, test)
                if truth is None:
                    truth = self.d.decide(s, sym, test)
            if truth is None:
                self.forks += 1
                s2 = s.copy()
                for tv, ss in ((True, s), (False, s2)):
                    ss.memo[key] = (tv, sym.stamp)
                    for e2 in self.emit(ss, Event('cond', evnode, sym=sym,
                                                  extra=tv)):
                        if e2.kind == 'fall':
                            yield tv, e2.state
                        else:
                            yield e2, None
            else:
                s.memo[key] = (truth, sym.stamp)
                for e2 in self.emit(s, Event('cond', evnode, sym=sym,
                                             extra=truth)):
                    if e2.kind == 'fall':
                        yield truth, e2.state
                    else:
                        yield e2, None

    def _branch_canon(self, node, stamp, st, evnode):
        """Decide an already canonical boolean expression (no evaluation
        events for its sub-calls: they were emitted when it was built)."""
        if isinstance(node, ast.BoolOp):
            is_and = isinstance(node.op, ast.And)

            def rec(values, s):
                head, rest = values[0], values[1:]
                for truth, s2 in self._branch_canon(head, stamp, s, evnode):
                    if isinstance(truth, Exit) or not rest \
                            or truth != is_and:
                        yield truth, s2
                    else:
                        yield from rec(rest, s2)
            yield from rec(node.values, st)
            return
        if isinstance(node, ast.UnaryOp) and isinstance(node.op, ast.Not):
            for truth, s2 in self._branch_canon(node.operand, stamp, st,
                                                evnode):
                yield (truth if isinstance(truth, Exit) else not truth), s2
            return
        if isinstance(node, ast.Compare) and len(node.ops) == 1 \
                and isinstance(node.ops[0], (ast.NotIn, ast.IsNot,
                                             ast.NotEq)):
            pos = {ast.NotIn: ast.In, ast.IsNot: ast.Is,
                   ast.NotEq: ast.Eq}[type(node.ops[0])]()
            t2 = ast.Compare(node.left, [pos], node.comparators)
            for truth, s2 in self._branch_canon(t2, stamp, st, evnode):
                yield (truth if isinstance(truth, Exit) else not truth), s2
            return
        # restrict the stamp to the chains this leaf reads
        reads = set()
        for n in ast.walk(node):
            if isinstance(n, ast.Attribute):
                d = dotted(n)
                if d:
                    reads.add(d)
        lstamp = frozenset((f, v) for f, v in stamp if f in reads
                           or '@' in f)
        sym = SymVal(node, lstamp)
        key = sym.text
        memo = st.memo.get(key)
        if memo is not None and memo[1] == sym.stamp:
            truth = memo[0]
        else:
            truth = self.d.decide(st, sym, node)
        if truth is None:
            self.forks += 1
            s2 = st.copy()
            for tv, ss in ((True, st), (False, s2)):
                ss.memo[key] = (tv, sym.stamp)
                for e2 in self.emit(ss, Event('cond', evnode, sym=sym,
                                              extra=tv)):
                    yield (tv, e2.state) if e2.kind == 'fall' else (e2, None)
        else:
            st.memo[key] = (truth, sym.stamp)
            for e2 in self.emit(st, Event('cond', evnode, sym=sym,
                                          extra=truth)):
                yield (truth, e2.state) if e2.kind == 'fall' else (e2, None)

    def _boolop(self, values, is_and, st):
        head, rest = values[0], values[1:]
        for truth, s in self.branch(head, st):
            if isinstance(truth, Exit):
                yield truth, s
            elif not rest:
                yield truth, s
            elif truth == is_and:
                yield from self._boolop(rest, is_and, s)
            else:
                yield truth, s

    # ------------------------------------------------------------------
    def while_(self, n, st, i):
        for truth, s in self.branch(n.test, st):
            if isinstance(truth, Exit):
                yield truth
                continue
            if not truth:
                yield from self.block(n.orelse, s)
                continue
            if i >= self.d.loop_bound:
                self.cuts += 1
                continue
            pure_test = not any(isinstance(x, (ast.Call, ast.NamedExpr))
                                for x in ast.walk(n.test))
            before = (dict(s.versions), {k: v.text for k, v in
                                         s.frame.env.items()}) \
                if pure_test else None
            for ex in self.block(n.body, s):
                if ex.kind in ('fall', 'continue'):
                    if pure_test and before == (
                            dict(ex.state.versions),
                            {k: v.text for k, v in
                             ex.state.frame.env.items()}):
                        # an iteration that changes nothing the (call-free)
                        # test can see: the loop never ends on this path
                        self.diverging.append(n)
                    yield from self.while_(n, ex.state, i + 1)
                elif ex.kind == 'break':
                    yield Exit('fall', ex.state)
                else:
                    yield ex

    def for_(self, n, st):
        if isinstance(n.iter, ast.Call) and st.frame.depth \
                < self.d.inline_depth:
            res = self.d.resolve_generator(st, n.iter, self)
            if res is not None:
                yield from self._for_gen(n, st, res)
                return
        for ex in self.eval_expr(n.iter, st):
            if ex.kind != 'fall':
                yield ex
                continue
            s = ex.state
            itersym = self.canon(s, n.iter)
            for e2 in self.emit(s, Event('for', n, sym=itersym)):
                if e2.kind != 'fall':
                    yield e2
                    continue
                counts = list(self.d.for_counts(e2.state, n, itersym))
                yield from self._for_iter(n, e2.state, itersym, 0, counts)

    def _for_gen(self, n, st, res):
        """`for x in helper(..)` with helper an in-repo generator: the
        helper's body runs interleaved with the loop body (each `yield v`
        binds the target to v and runs the body)."""
        call = n.iter
        states = [st]
        # evaluate the arguments of the call first
        exits = self.eval_expr(ast.Tuple(list(call.args) + [
            k.value for k in call.keywords], ast.Load()), st)
        for ex in exits:
            if ex.kind != 'fall':
                yield ex
                continue
            s = ex.state
            itersym = self.canon(s, call)
            fr = self._bind_frame(call, s, res)
            fr.gen_consumer = n
            for e0 in self.emit(s, Event('for', n, sym=itersym,
                                         extra={'generator': res[0]})):
                if e0.kind != 'fall':
                    yield e0
                    continue
                s0 = e0.state
                s0.frames.append(fr)
                s0.trace.append(Event('enter', call, func=res[0],
                                      depth=fr.depth))
                for e1 in self.block(strip_docstring(res[0].node.body), s0):
                    s1 = e1.state
                    if e1.kind in ('fall', 'return'):
                        s1.frames.pop()
                        for e2 in self.emit(s1, Event('for-end', n,
                                                      sym=itersym)):
                            if e2.kind == 'fall':
                                yield from self.block(n.orelse, e2.state)
                            else:
                                yield e2
                    elif e1.kind == 'raise':
                        s1.frames.pop()
                        yield Exit('raise', s1, e1.payload, e1.node)
                    elif e1.kind == 'genbreak':
                        yield Exit('fall', s1)
                    elif e1.kind == 'genexit':
                        yield e1.payload        # return / raise of the body
                    else:
                        raise AnalysisError(f'stray {e1.kind} in generator')

    def _gen_yield(self, ystmt, st):
        """A `yield v` executed in an interleaved generator frame."""
        n = st.frame.gen_consumer
        y = ystmt.value
        vsym = self.canon(st, y.value) if y.value is not None else SymVal(
            ast.Constant(None))
        callee = st.frames.pop()
        for ex in self.store(n.target, vsym, st, n):
            if ex.kind != 'fall':
                ex.state.frames.append(callee.copy())
                yield ex
                continue
            for e2 in self.emit(ex.state, Event('for-item', n, sym=vsym,
                                                target=vsym,
                                                extra={'generator': True})):
                if e2.kind != 'fall':
                    e2.state.frames.append(callee.copy())
                    yield e2
                    continue
                for e3 in self.block(n.body, e2.state):
                    if e3.kind in ('fall', 'continue'):
                        e3.state.frames.append(callee.copy())
                        yield Exit('fall', e3.state)
                    elif e3.kind == 'break':
                        yield Exit('genbreak', e3.state)
                    else:
                        yield Exit('genexit', e3.state, e3)

    def _for_iter(self, n, st, itersym, i, counts):
        mx = max(counts) if counts else 0
        # exhausted here?
        if i in counts:
            s = st.copy() if i < mx else st
            self.d.leave_loop(s, n, itersym, True, i)
            for e in self.emit(s, Event('for-end', n, sym=itersym, extra=i)):
                if e.kind == 'fall':
                    yield from self.block(n.orelse, e.state)
                else:
                    yield e
        if i >= mx:
            if i not in counts:
                self.cuts += 1
            return
        item = SymVal(ast.Name(loopvar_name(itersym.text, i), ast.Load()),
                      itersym.stamp, tag='loopvar',
                      info={'iter': itersym, 'index': i, 'node': n})
        self.d.bind_loop_var(st, n, i, itersym, item)
        for ex in self.store(n.target, item, st, n):
            if ex.kind != 'fall':
                yield ex
                continue
            for e2 in self.emit(ex.state, Event('for-item', n, sym=itersym,
                                                extra=i, target=item)):
                if e2.kind != 'fall':
                    yield e2
                    continue
                for e3 in self.block(n.body, e2.state):
                    if e3.kind in ('fall', 'continue'):
                        yield from self._for_iter(n, e3.state, itersym, i + 1,
                                                  counts)
                    elif e3.kind == 'break':
                        self.d.leave_loop(e3.state, n, itersym, False, i + 1)
                        yield Exit('fall', e3.state)
                    else:
                        yield e3

    def with_(self, n, st):
        steps = []
        for item in n.items:
            def step(s, item=item):
                out = []
                for ex in self.eval_expr(item.context_expr, s):
                    if ex.kind != 'fall' or item.optional_vars is None:
                        out.append(ex)
                        continue
                    out.extend(self.store(
                        item.optional_vars,
                        self.canon(ex.state, item.context_expr), ex.state, n))
                return out
            steps.append(step)
        for ex in self._seq(steps, st):
            if ex.kind != 'fall':
                yield ex
            else:
                # the managed region is visible in the trace ('with' ..
                # 'endwith' on every way out of the body)
                held = [self.canon(ex.state, it.context_expr)
                        for it in n.items]
                ex.state.trace.append(Event('with', n, args=held,
                                            depth=ex.state.frame.depth))
                for bx in self.block(n.body, ex.state):
                    bx.state.trace.append(Event('endwith', n,
                                                depth=bx.state.frame.depth))
                    yield bx

    def try_(self, n, st):
        def finalize(ex):
            if not n.finalbody:
                yield ex
                return
            for f in self.block(n.finalbody, ex.state):
                if f.kind == 'fall':
                    yield Exit(ex.kind, f.state, ex.payload, ex.node)
                else:
                    yield f
        for ex in self.block(n.body, st):
            if ex.kind == 'fall':
                for e2 in self.block(n.orelse, ex.state):
                    if e2.kind == 'raise':
                        yield from finalize(e2)
                    else:
                        yield from finalize(e2)
            elif ex.kind == 'raise':
                tn = ex.payload
                matched_surely = False
                for h in n.handlers:
                    m = self._handler_match(h, tn, ex.state)
                    if m is False:
                        continue
                    s = ex.state.copy() if m is None else ex.state
                    if h.name:
                        s.frame.env[h.name] = self.fresh(
                            s, h.name, tag='exception',
                            info={'type': tn, 'handler': norm(h.type)
                                  if h.type is not None else None})
                    s.trace.append(Event('except', h, extra=tn))
                    for e2 in self.block(h.body, s):
                        yield from finalize(e2)
                    if m is True:
                        matched_surely = True
                        break
                if not matched_surely:
                    yield from finalize(ex)
            else:
                yield from finalize(ex)

    def _handler_match(self, h, tn, st):
        """True / False / None (may)."""
        if h.type is None:
            return True
        names = []
        tt = h.type.elts if isinstance(h.type, ast.Tuple) else [h.type]
        for t in tt:
            names.append(dotted(t) or norm(t))
        if any(x in ('BaseException', 'Exception') for x in names):
            if tn is None:
                return True
            return True
        if tn is None:
            return None
        short = tn.split('.')[-1]
        for x in names:
            xs = x.split('.')[-1]
            if xs == short:
                return True
            if self._exc_subclass(short, xs, st):
                return True
        return False

    _BUILTIN_EXC = {
        'KeyError': 'LookupError', 'IndexError': 'LookupError',
        'LookupError': 'Exception', 'ValueError': 'Exception',
        'TypeError': 'Exception', 'ModuleNotFoundError': 'ImportError',
        'ImportError': 'Exception', 'StopIteration': 'Exception',
        'RuntimeError': 'Exception', 'AttributeError': 'Exception',
        'NameError': 'Exception', 'AssertionError': 'Exception',
    }

    def _exc_subclass(self, sub, sup, st):
        seen = set()
        cur = sub
        while cur and cur not in seen:
            seen.add(cur)
            if cur == sup:
                return True
            if cur in self._BUILTIN_EXC:
                cur = self._BUILTIN_EXC[cur]
                continue
            if self.p.has_cls(cur):
                try:
                    ci = self.p.cls(cur)
                except AnalysisError:
                    return False
                nxt = [b.name for b in ci.bases] + [
                    e.split('.')[-1] for e in ci.ext_bases]
                cur = nxt[0] if nxt else None
                continue
            return False
        return False


def loopvar_name(itertext, i):
    """Identifier naming 'the i-th item of <iterable>' on a path."""
    import re
    return re.sub(r'\W', '_', itertext) + '\u00b7' + str(i)


def _pos(node):
    ln = getattr(node, 'lineno', None)
    if ln is None:
        return None
    return (ln, node.col_offset, getattr(node, 'end_lineno', None),
            getattr(node, 'end_col_offset', None))


def _as_load(t):
    t2 = copy.deepcopy(t)
    for n in ast.walk(t2):
        if hasattr(n, 'ctx'):
            n.ctx = ast.Load()
    return t2


def _target_hint(t):
    if isinstance(t, ast.Name):
        return t.id
    if isinstance(t, (ast.Tuple, ast.List)):
        return '_'.join(_target_hint(e) for e in t.elts)
    return 'item'
