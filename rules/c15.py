"""C15 - a loaded world contains exactly what its description says."""
import ast
import re

from dlint.model import AnalysisError, dotted, norm, strip_docstring
from dlint.walk import Domain, Walker, loopvar_name

EXPLANATION = (
    'Static forwarding / ordering rules over desper/model/world.py. load: on '
    'every path of WorldHandle.load (PathEval) the new World is disabled '
    'before the transformer loop, every transformer is called with (self, '
    'world), on_world_load(self, world) is dispatched after the loop, nothing '
    're-enables the world, and it is returned. populate: '
    'populate_world_from_dict makes one add_processor(type(*args, **kwargs)) '
    'per processor dict, appends one type(*args, **kwargs) per component '
    'dict in list order and makes one create_entity(*components, '
    'entity_id=<id>) per entity dict, every schema key being read with the '
    'stated default. transform: WorldFromFileTransformer applies '
    '_apply_transformers to every processor and component dict before '
    'populating; each configured transformer is called, in order, with '
    '(handle, world, <copy>, <the dict itself>); the copy handed out is not a '
    'deep copy of already-resolved objects; WorldFromFileHandle installs '
    'default_processors_transformer before the file transformer, whose dict '
    'transformers are type, object, resource in that order. markers: from '
    'the regex ASTs (re._parser) each pattern is <literal marker>(.+)\\} '
    'starting at its marker, the three markers are prefix-free, the patterns '
    'are applied with match/fullmatch; $res subscripts the root map, $handle '
    'calls .get on it; non-strings and non-matching strings are returned '
    'unchanged. writeback: mapped args/kwargs are written back in place into '
    "the passthrough dict's own list / dict.")
RULE = 'one obligation per (rule, function, statement)'
NOT_DECIDED = ['importlib resolution and lru_cache staleness of '
               'object_from_string', 'JSON decoding',
               'that constructors accept the arguments',
               'merging of an explicit id with an earlier automatic one '
               '(C01.fresh-id)']
ASSUMPTIONS = ['re.match anchors at the start of the string']


class _D(Domain):
    loop_bound = 1

    def resolve_call(self, st, call, walker):
        # private helpers extracted from the analysed code are followed
        return walker.resolve_helper(st, call)

    def resolve_setter(self, st, target, walker):
        return None

    def for_counts(self, st, node, itersym):
        return [0, 1]


def check_load(program, rep):
    c = program.cls('WorldHandle')
    f = c.methods.get('load')
    site = f.where
    w = Walker(program, _D(program))
    exits = w.run(f, c)
    rep.count('paths', len(exits))
    bad = None
    n_tr = 0
    for ex in exits:
        tr = ex.state.trace
        if ex.kind != 'return' or ex.payload is None:
            bad = bad or (f.node, 'load() does not return the world on every '
                          'path')
            continue
        wtext = ex.payload.text
        i_dis = [i for i, e in enumerate(tr) if e.kind == 'store'
                 and e.target is not None
                 and e.target.text == f'{wtext}.dispatch_enabled']
        ens = [i for i in i_dis if norm(tr[i].sym.node) != 'False']
        i_loop = [i for i, e in enumerate(tr) if e.kind == 'for'
                  and e.sym.text == 'self.transform_functions']
        i_disp = [i for i, e in enumerate(tr) if e.kind == 'call'
                  and isinstance(e.sym.node, ast.Call)
                  and norm(e.sym.node.func) == f'{wtext}.dispatch']
        i_end = [i for i, e in enumerate(tr) if e.kind == 'for-end'
                 and e.sym.text == 'self.transform_functions']
        if ens:
            bad = bad or (tr[ens[0]].node, 'load() enables dispatching: '
                          'on_add / on_world_load run during loading instead '
                          'of when the loop enters the world')
        if not i_dis or not i_loop or min(i_dis) > i_loop[0]:
            bad = bad or (f.node, 'the new world is not disabled before the '
                          'transformers run')
        if len(i_disp) != 1 or not i_end or i_disp[0] < i_end[0]:
            bad = bad or (f.node, 'on_world_load is not dispatched exactly '
                          'once after all transformers: it precedes on_add '
                          'of later components')
        else:
            a = [norm(x) for x in tr[i_disp[0]].sym.node.args]
            if a != ["'on_world_load'", 'self', wtext]:
                bad = bad or (tr[i_disp[0]].node, 'on_world_load does not '
                              f'carry (handle, world): {a}')
        for i, e in enumerate(tr):
            if e.kind == 'for-item' and e.sym.text == \
                    'self.transform_functions':
                n_tr += 1
                item = e.target.text
                calls = [x for x in tr[i:] if x.kind == 'call' and isinstance(
                    x.sym.node, ast.Call) and norm(x.sym.node.func) == item]
                if len(calls) != 1 or [norm(y) for y in calls[0].sym.node.args
                                       ] != ['self', wtext]:
                    bad = bad or (e.node, 'a transform function is not '
                                  'called exactly once with (handle, world)')
    rep.floor('C15.load', 'transformer iterations on the paths of load()',
              n_tr, 1)
    rep.check(bad is None, 'C15.load', site, bad[0] if bad else 'load()',
              'disabled world, every transformer(self, world), then '
              'on_world_load(self, world), returned still disabled',
              bad[1] if bad else '',
              line=getattr(bad[0], 'lineno', None) if bad else f.node.lineno)


def _get_default(call, key, default):
    """D.get('key', default) text for dict D."""
    return None


def _helper_value(program, f, elt, var):
    """Canonical value of `helper(var)` for a private module-level helper
    with straight-line body (locals substituted), else None."""
    if not (isinstance(elt, ast.Call) and len(elt.args) == 1 and isinstance(
            elt.args[0], ast.Name) and elt.args[0].id == var
            and not elt.keywords):
        return None
    r = program.lookup(f.module, dotted(elt.func) or '')
    if not r or r[0] != 'func':
        return None
    g = r[1]
    w = Walker(program, _D(program))
    exits = [e for e in w.run(g, None) if e.kind == 'return']
    if len(exits) != 1 or exits[0].payload is None:
        return None
    p0 = g.params()[0]
    t = exits[0].payload.text

    class R(ast.NodeTransformer):
        def visit_Name(self, n):
            return ast.Name(var, n.ctx) if n.id == p0 else n
    return norm(R().visit(ast.parse(t, mode='eval').body))


def _resolve_splats(text, tr, at):
    """`f(*xs, **kw)` with xs / kw locals bound to fresh copies (`xs =
    list(E)`): the locals are replaced by what they were bound to."""
    try:
        n = ast.parse(text, mode='eval').body
    except SyntaxError:
        return text
    if not isinstance(n, ast.Call):
        return text
    upto = next((i for i, e in enumerate(tr) if e is at), len(tr))

    def bound(name):
        for e in reversed(tr[:upto]):
            if e.kind == 'local' and isinstance(e.target, ast.Name) \
                    and e.target.id == name and e.sym is not None:
                return e.sym.node
        return None
    for a in n.args:
        if isinstance(a, ast.Starred) and isinstance(a.value, ast.Name):
            b = bound(a.value.id)
            if b is not None:
                a.value = b
    for k in n.keywords:
        if k.arg is None and isinstance(k.value, ast.Name):
            b = bound(k.value.id)
            if b is not None:
                k.value = b
    return norm(n)


def _unwrap_splats(text):
    """`f(*list(a), **dict(k))` passes exactly the objects `f(*a, **k)` passes:
    the unpacking copies the elements out either way (a structural DEEP copy -
    the module's own copier - is not such a no-op: it replaces lists / dicts
    the references resolved to)."""
    try:
        n = ast.parse(text, mode='eval').body
    except SyntaxError:
        return text
    if not isinstance(n, ast.Call):
        return text
    for a in n.args:
        if isinstance(a, ast.Starred) and isinstance(a.value, ast.Call) \
                and dotted(a.value.func) in ('list', 'tuple') \
                and len(a.value.args) == 1 and not a.value.keywords:
            a.value = a.value.args[0]
    for k in n.keywords:
        if k.arg is None and isinstance(k.value, ast.Call) and dotted(
                k.value.func) == 'dict' and len(k.value.args) == 1 \
                and not k.value.keywords:
            k.value = k.value.args[0]
    return norm(n)


def _through_strategy(program, f, text, collisions):
    text = _unwrap_splats(text)
    """`strategy(T, *A, **K)` where `strategy` is a parameter of f whose
    default is a module-level `def F(factory, /, *args, **kwargs): return
    factory(*args, **kwargs)` reads `T(*A, **K)` (the call made when the
    parameter is not given).  If `factory` can also be bound by keyword, a
    description kwarg of that name collides with it: recorded."""
    try:
        n = ast.parse(text, mode='eval').body
    except SyntaxError:
        return text
    if not (isinstance(n, ast.Call) and isinstance(n.func, ast.Name)
            and n.args and not isinstance(n.args[0], ast.Starred)):
        return text
    a = f.node.args
    names = [x.arg for x in a.args]
    if n.func.id not in names:
        return text
    i = names.index(n.func.id) - (len(names) - len(a.defaults))
    if i < 0 or not isinstance(a.defaults[i], ast.Name):
        return text
    try:
        g = program.func(f.module.name, a.defaults[i].id)
    except AnalysisError:
        return text
    ga = g.node.args
    body = strip_docstring(g.node.body)
    first = (ga.posonlyargs + ga.args)[:1]
    if not (len(ga.posonlyargs + ga.args) == 1 and ga.vararg and ga.kwarg
            and not ga.kwonlyargs and len(body) == 1 and isinstance(
                body[0], ast.Return) and norm(body[0].value)
            == f'{first[0].arg}(*{ga.vararg.arg}, **{ga.kwarg.arg})'):
        return text
    if not ga.posonlyargs and any(k.arg is None for k in n.keywords):
        collisions.append((g, first[0].arg))
    return norm(ast.Call(n.args[0], n.args[1:], n.keywords))


def check_populate(program, rep):
    f = program.func('desper.model.world', 'populate_world_from_dict')
    site = f.where
    wp, dp = f.params()[:2]
    collisions = []
    w = Walker(program, _D(program))
    exits = w.run(f, None)
    rep.count('paths', len(exits))
    seen = {'proc': 0, 'ent': 0, 'comp': 0}
    bad = None
    procs_iter = f"{dp}.get('processors', [])"
    ents_iter = f"{dp}.get('entities', [])"
    for ex in exits:
        tr = ex.state.trace
        calls = [e for e in tr if e.kind == 'call'
                 and isinstance(e.sym.node, ast.Call)]
        for e in tr:
            if e.kind == 'for' and 'processors' in e.sym.text and \
                    e.sym.text.startswith(dp + '.') and \
                    e.sym.text != procs_iter:
                bad = bad or (e.node, f'processors are read as {e.sym.text}')
            if e.kind == 'for' and 'entities' in e.sym.text and \
                    e.sym.text.startswith(dp + '.') and \
                    e.sym.text != ents_iter:
                bad = bad or (e.node, f'entities are read as {e.sym.text}')
        p0 = loopvar_name(procs_iter, 0)
        e0 = loopvar_name(ents_iter, 0)
        n_p = sum(1 for e in tr if e.kind == 'for-item'
                  and e.sym.text == procs_iter)
        n_e = sum(1 for e in tr if e.kind == 'for-item'
                  and e.sym.text == ents_iter)
        adds = [c for c in calls if norm(c.sym.node.func)
                == f'{wp}.add_processor']
        creates = [c for c in calls if norm(c.sym.node.func)
                   == f'{wp}.create_entity']
        if len(adds) != n_p:
            bad = bad or (f.node, f'{len(adds)} add_processor calls for '
                          f'{n_p} processor dict(s)')
        for c in adds:
            seen['proc'] += 1
            want = (f"{p0}['type'](*{p0}.get('args', []), "
                    f"**{p0}.get('kwargs', {{}}))")
            a = [_through_strategy(program, f, _resolve_splats(
                norm(x), tr, c), collisions) for x in c.sym.node.args]
            if a != [want] or c.sym.node.keywords:
                bad = bad or (c.node, 'the processor is not built as '
                              "type(*args, **kwargs) from its dict: "
                              f'{a}')
        if len(creates) != n_e:
            bad = bad or (f.node, f'{len(creates)} create_entity calls for '
                          f'{n_e} entity dict(s)')
        for c in creates:
            seen['ent'] += 1
            cn = c.sym.node
            kws = {k.arg: norm(k.value) for k in cn.keywords}
            comps_iter = f"{e0}.get('components', [])"
            n_c = sum(1 for e in tr if e.kind == 'for-item'
                      and e.sym.text == comps_iter)
            c0 = loopvar_name(comps_iter, 0)
            if kws.get('entity_id') not in (f"{e0}.get('id', None)",
                                            f"{e0}.get('id')"):
                bad = bad or (c.node, 'the entity is not created under the '
                              "id given in its dict (entity_id="
                              f'{kws.get("entity_id")})')
            if len(cn.args) != 1 or not isinstance(cn.args[0], ast.Starred):
                bad = bad or (c.node, 'create_entity does not receive '
                              '*components')
            appends = [x for x in calls if isinstance(
                x.sym.node.func, ast.Attribute) and x.sym.node.func.attr
                == 'append' and isinstance(x.sym.node.func.value, ast.Name)]
            comp_def = None
            if cn.args and isinstance(cn.args[0], ast.Starred) and isinstance(
                    cn.args[0].value, ast.Name):
                lst0 = cn.args[0].value.id
                for x in tr:
                    if x.kind == 'local' and isinstance(
                            x.target, ast.Name) and x.target.id == lst0 \
                            and isinstance(x.sym.node, (ast.ListComp,
                                                        ast.GeneratorExp)):
                        comp_def = x.sym.node
            elif cn.args and isinstance(cn.args[0], ast.Starred) and \
                    isinstance(cn.args[0].value, (ast.ListComp,
                                                  ast.GeneratorExp)):
                comp_def = cn.args[0].value
            if comp_def is not None:
                # components built by a comprehension over the listed dicts
                from rules.evrules import beta_reduce
                ok_c = False
                if len(comp_def.generators) == 1 and not comp_def.generators[
                        0].ifs and norm(comp_def.generators[0].iter) \
                        == comps_iter and isinstance(
                            comp_def.generators[0].target, ast.Name):
                    x = comp_def.generators[0].target.id
                    cls0 = type('C', (), {'module': f.module})()
                    elt = beta_reduce(program, cls0, comp_def.elt)
                    # a helper with a local for the factory: inline by walking
                    got = norm(elt)
                    want_c = (f"{x}['type'](*{x}.get('args', []), "
                              f"**{x}.get('kwargs', {{}}))")
                    if got == want_c:
                        ok_c = True
                    else:
                        got2 = _helper_value(program, f, comp_def.elt, x)
                        ok_c = got2 == want_c
                seen['comp'] += 1
                if not ok_c:
                    bad = bad or (c.node, 'the components are not built as '
                                  'type(*args, **kwargs) for every listed '
                                  'component dict, in order')
            elif cn.args and isinstance(cn.args[0], ast.Starred) \
                    and isinstance(cn.args[0].value, ast.Name):
                lst = cn.args[0].value.id
                appends = [x for x in appends
                           if x.sym.node.func.value.id == lst]
                if len(appends) != n_c:
                    bad = bad or (c.node, f'{len(appends)} components built '
                                  f'for {n_c} component dict(s)')
                for x in appends:
                    seen['comp'] += 1
                    want = (f"{c0}['type'](*{c0}.get('args', []), "
                            f"**{c0}.get('kwargs', {{}}))")
                    got = _through_strategy(program, f, _resolve_splats(
                        norm(x.sym.node.args[0]), tr, x), collisions)
                    if got != want:
                        bad = bad or (x.node, 'the component is not built as '
                                      'type(*args, **kwargs) from its dict: '
                                      + got)
    for k, v in seen.items():
        rep.floor('C15.populate', f'{k} constructions on the paths', v, 1)
    if collisions:
        g_, pn_ = collisions[0]
        rep.bad('C15.populate', g_.where, g_.node.name,
                f'the kwargs of a description are forwarded (**kwargs) to '
                f'{g_.name}, whose parameter `{pn_}` can also be bound by '
                f'keyword: a listed processor or component with a kwarg named '
                f'"{pn_}" fails with TypeError (multiple values for argument) '
                'and the world cannot be loaded - make the parameter '
                'positional-only', line=g_.node.lineno)
    rep.check(bad is None, 'C15.populate', site,
              bad[0] if bad else 'populate_world_from_dict',
              'one add_processor(type(*args, **kwargs)) per processor dict; '
              'per entity dict one create_entity(*components, entity_id=id) '
              'with one type(*args, **kwargs) per component dict, in order',
              bad[1] if bad else '',
              line=getattr(bad[0], 'lineno', None) if bad else f.node.lineno)


def check_transform(program, rep):
    c = program.cls('WorldFromFileTransformer')
    call = c.methods.get('__call__')
    site = call.where
    ps = call.params()
    body = ast.unparse(call.node)
    # path based (helpers and generator helpers followed): every processor
    # dict and every component dict goes through _apply_transformers, as
    # itself, before the same description is populated
    class _One(_D):
        def for_counts(self, st, node, itersym):
            return [1]

        def resolve_call(self, st, call, walker):
            r = walker.resolve_helper(st, call)
            if r is not None and r[0].name == '_apply_transformers':
                return None
            return r
    w = Walker(program, _One(program))
    exits = [e for e in w.run(call, c) if e.kind != 'raise']
    ok = bool(exits)
    why = ''
    for ex in exits:
        tr = ex.state.trace
        wd = None
        for e in tr:
            if e.kind == 'local' and isinstance(e.sym.node, ast.Call) \
                    and dotted(e.sym.node.func) == 'json.load':
                wd = e.sym.text
        if wd is None:
            ok, why = False, 'the description is not read with json.load'
            continue
        procs_iter = f"{wd}.get('processors', [])"
        ents_iter = f"{wd}.get('entities', [])"
        comps_iter = (f"{loopvar_name(ents_iter, 0)}"
                      ".get('components', [])")
        want = {loopvar_name(procs_iter, 0), loopvar_name(comps_iter, 0)}
        applies = [(i, e) for i, e in enumerate(tr) if e.kind == 'call'
                   and isinstance(e.sym.node, ast.Call)
                   and norm(e.sym.node.func) == 'self._apply_transformers']
        got = set()
        for i, e in applies:
            a = [norm(x) for x in e.sym.node.args]
            if len(a) != 3 or a[:2] != [ps[1], ps[2]]:
                ok, why = False, f'_apply_transformers called with {a}'
            else:
                got.add(a[2])
        pops = [(i, e) for i, e in enumerate(tr) if e.kind == 'call'
                and isinstance(e.sym.node, ast.Call) and (dotted(
                    e.sym.node.func) or '').endswith(
                        'populate_world_from_dict')]
        if got != want:
            ok, why = False, (f'transformers are applied to {sorted(got)}; '
                              f'the description lists {sorted(want)}')
        if len(pops) != 1 or [norm(x) for x in pops[0][1].sym.node.args] != [
                ps[2], wd]:
            ok, why = False, 'the transformed description is not the one ' \
                'that is populated'
        elif applies and pops[0][0] < max(i for i, _ in applies):
            ok, why = False, 'populate runs before every dict was transformed'
    rep.check(ok, 'C15.transform', site, '__call__: transformers, then '
              'populate', 'every processor and component dict of the loaded '
              'description goes through the transformers, then the same '
              'description is populated',
              'WorldFromFileTransformer.__call__ does not apply the '
              'transformers to every processor and component dict of the '
              f'description it then populates ({why})',
              line=call.node.lineno)
    ap = c.methods.get('_apply_transformers')
    aps = ap.params()
    fors = [n for n in ast.walk(ap.node) if isinstance(n, ast.For)]
    ok = False
    deep = None
    if len(fors) == 1 and norm(fors[0].iter) == 'self.dict_transformers':
        lp = fors[0]
        t = norm(lp.target)
        calls = [n for n in ast.walk(lp) if isinstance(n, ast.Call)
                 and norm(n.func) == t]
        env = {}
        for s in ast.walk(lp):
            if isinstance(s, ast.Assign) and isinstance(s.targets[0],
                                                        ast.Name):
                env[s.targets[0].id] = s.value
        if len(calls) == 1 and len(calls[0].args) == 4:
            a = calls[0].args
            init_v = env.get(norm(a[2]))
            pass_v = env.get(norm(a[3]), a[3])
            while isinstance(pass_v, ast.Name) and pass_v.id in env:
                pass_v = env[pass_v.id]
            alias = norm(pass_v) == aps[3]
            is_copy = isinstance(init_v, ast.Call) and len(
                init_v.args) == 1 and norm(init_v.args[0]) in (
                    aps[3], norm(a[3]))
            ok = [norm(a[0]), norm(a[1])] == aps[1:3] and alias and is_copy
            if isinstance(init_v, ast.Call) and dotted(init_v.func) in (
                    'copy.deepcopy', 'deepcopy'):
                deep = init_v
    rep.check(ok, 'C15.transform', ap.where, fors[0] if fors else ap.node.name,
              'every configured transformer is called, in order, with '
              '(handle, world, <copy>, <the dict itself>)',
              '_apply_transformers does not call every transformer with a '
              'copy as third and the dict itself as fourth argument: edits '
              'land in the copy, or the transformer sees its own edits as '
              '"initial"', line=ap.node.lineno)
    # an in-repo copy function: a dict / list comes back as a new container
    # of (copied) elements, anything else as itself - on every path
    if ok and isinstance(init_v, ast.Call):
        r_ = program.lookup(ap.module, dotted(init_v.func) or '')
        if r_ and r_[0] == 'func' and r_[1].cls is None:
            cf = r_[1]
            cp_ = cf.params()[0] if cf.params() else None
            badc = None
            n_ret = 0
            for ex in Walker(program, _D(program)).run(cf, None):
                if ex.kind == 'raise':
                    continue
                n_ret += 1
                cd_ = {e.sym.text: e.extra for e in ex.state.trace
                       if e.kind == 'cond'}
                isd = cd_.get(f'isinstance({cp_}, dict)')
                isl = cd_.get(f'isinstance({cp_}, list)')
                pv = ex.payload.node if ex.payload is not None else None
                if isd is True:
                    good = isinstance(pv, ast.DictComp) or (isinstance(
                        pv, ast.Call) and norm(pv.func) in (
                            'dict', f'{cp_}.copy'))
                    if not good:
                        badc = badc or (ex.node, 'a dict is not returned as '
                                        'a new dict of its (copied) items')
                elif isl is True:
                    good = isinstance(pv, ast.ListComp) or (isinstance(
                        pv, ast.Call) and norm(pv.func) in (
                            'list', f'{cp_}.copy'))
                    if not good:
                        badc = badc or (ex.node, 'a list is not returned as '
                                        'a new list of its (copied) items')
                elif isd is False and isl is False:
                    if pv is None or norm(pv) != cp_:
                        badc = badc or (ex.node, 'a value that is neither a '
                                        'dict nor a list is not returned '
                                        'as it is')
            rep.check(badc is None and n_ret >= 3, 'C15.transform-copy',
                      cf.where, badc[0] if badc else cf.node.name,
                      'the copy handed to the transformers has the structure '
                      'of the dict (new containers, shared leaves)',
                      (badc[1] if badc else 'the copy function does not '
                       'distinguish dict / list / other') + ': the "initial" '
                      'description a transformer compares against is not a '
                      'faithful copy of the component / processor dict',
                      line=getattr(badc[0], 'lineno', cf.node.lineno)
                      if badc else cf.node.lineno)
    rep.check(deep is None, 'C15.transform-copy', ap.where,
              deep if deep is not None else 'copy handed to the transformers',
              'the copy handed to a transformer is not a deep copy of '
              'objects resolved by earlier transformers',
              'the dict is deep-copied inside the transformer loop: objects '
              'already resolved by an earlier transformer (a module from '
              '${os.path}, a loaded resource) are deep-copied too - TypeError '
              'for modules, duplicates otherwise',
              line=getattr(deep, 'lineno', ap.node.lineno))
    # WorldFromFileHandle wiring
    h = program.cls('WorldFromFileHandle')
    init = h.methods.get('__init__')
    # every path of __init__ installs, in this order, the default
    # processors transformer and the file transformer (extend / append /
    # += forms; helpers building the lists are followed)
    exits = [e for e in Walker(program, _D(program)).run(init, h)
             if e.kind != 'raise']
    ok = bool(exits)
    for ex in exits:
        installed = []
        for e in ex.state.trace:
            if e.kind != 'call' or not isinstance(e.sym.node, ast.Call):
                continue
            cn = e.sym.node
            fn = norm(cn.func)
            if fn == 'self.transform_functions.extend' and cn.args \
                    and isinstance(cn.args[0], (ast.Tuple, ast.List)):
                installed += list(cn.args[0].elts)
            elif fn == 'self.transform_functions.append' and cn.args:
                installed.append(cn.args[0])
            elif fn == 'self.transform_functions.extendleft' and cn.args \
                    and isinstance(cn.args[0], (ast.Tuple, ast.List)):
                # deque.extendleft prepends one by one: the order reverses
                installed = list(reversed(cn.args[0].elts)) + installed
            elif fn == 'self.transform_functions.appendleft' and cn.args:
                installed = [cn.args[0]] + installed
            elif fn in ('self.transform_functions.extend',
                        'self.transform_functions.extendleft') and cn.args \
                    and isinstance(cn.args[0], ast.Name) and cn.args[0].id \
                    in init.params():
                pass        # functions supplied by the caller, default ()
            elif fn.startswith('self.transform_functions.'):
                installed.append(None)
        good = len(installed) == 2 and installed[0] is not None and norm(
            installed[0]) == 'default_processors_transformer' and isinstance(
                installed[1], ast.Call) and norm(installed[1].func) == \
            'WorldFromFileTransformer' and installed[1].args and norm(
                installed[1].args[0]) == (
                    '[type_dict_transformer, object_dict_transformer,'
                    ' resource_dict_transformer]')
        if not good:
            ok = False
    rep.check(ok, 'C15.transform', init.where, 'transform_functions.extend',
              'default processors first, then the file with type / object / '
              'resource dict transformers in that order',
              'WorldFromFileHandle does not install the default processors '
              'transformer before the file transformer with [type, object, '
              'resource] dict transformers', line=init.node.lineno)
    dp = program.func('desper.model.world', 'default_processors_transformer')
    adds = [norm(n) for n in ast.walk(dp.node) if isinstance(n, ast.Call)
            and norm(n.func).endswith('.add_processor')]
    wname = dp.params()[1]
    rep.check(adds == [f'{wname}.add_processor(OnUpdateProcessor())',
                       f'{wname}.add_processor(CoroutineProcessor())'],
              'C15.transform', dp.where, 'default processors',
              'the default processors are OnUpdateProcessor and '
              'CoroutineProcessor', f'default processors are {adds}',
              line=dp.node.lineno)


def _regex_shape(pattern):
    """(literal prefix, has one greedy (.+) group, literal suffix)."""
    import re._parser as sre
    p = sre.parse(pattern)
    items = list(p)
    prefix = ''
    i = 0
    while i < len(items) and str(items[i][0]) == 'LITERAL':
        prefix += chr(items[i][1])
        i += 1
    group_ok = False
    if i < len(items) and str(items[i][0]) == 'SUBPATTERN':
        sub = list(items[i][1][3])
        if len(sub) == 1 and str(sub[0][0]) == 'MAX_REPEAT':
            lo, hi, what = sub[0][1]
            w = list(what)
            if lo == 1 and len(w) == 1 and str(w[0][0]) == 'ANY':
                group_ok = True
        i += 1
    suffix = ''
    while i < len(items) and str(items[i][0]) == 'LITERAL':
        suffix += chr(items[i][1])
        i += 1
    return prefix, group_ok, suffix, i == len(items)


def check_string_probes(program, rep):
    """A string argument of a description may be empty (""): a transformer
    that looks at a character of it by index (`arg[0]`) without having
    established that the string is not empty raises IndexError and the whole
    load fails; `arg[:1]` / `arg.startswith(..)` are total."""
    mod = program.modules['desper.model.world']
    n = 0
    for fn in [x for x in ast.walk(mod.tree) if isinstance(x, ast.FunctionDef)]:
        params = {a.arg for a in fn.args.args}
        strs = {norm(c.args[0]) for c in ast.walk(fn) if isinstance(c, ast.Call)
                and dotted(c.func) == 'isinstance' and len(c.args) == 2
                and norm(c.args[1]) == 'str'} & params
        if not strs:
            continue
        parents = {}
        for p_ in ast.walk(fn):
            for ch in ast.iter_child_nodes(p_):
                parents[id(ch)] = p_
        for sb in ast.walk(fn):
            if not (isinstance(sb, ast.Subscript) and isinstance(
                    sb.value, ast.Name) and sb.value.id in strs
                    and not isinstance(sb.slice, ast.Slice)
                    and isinstance(sb.slice, (ast.Constant, ast.UnaryOp))):
                continue
            n += 1
            v = sb.value.id

            def _nonempty(x):
                # a test that is true only for a non-empty string
                t_ = norm(x)
                if t_ in (v, f'len({v})', f"{v} != ''"):
                    return True
                return isinstance(x, ast.Compare) and len(x.ops) == 1 \
                    and norm(x.left) == f'len({v})' and isinstance(
                        x.ops[0], (ast.Gt, ast.GtE, ast.NotEq)) \
                    and isinstance(x.comparators[0], ast.Constant) \
                    and isinstance(x.comparators[0].value, int) \
                    and (x.comparators[0].value >= 1 or isinstance(
                        x.ops[0], (ast.Gt, ast.NotEq))
                        and x.comparators[0].value >= 0)
            guarded = False
            cur = sb
            while id(cur) in parents:
                par = parents[id(cur)]
                if isinstance(par, ast.BoolOp) and isinstance(par.op, ast.And):
                    idx = next(i for i, x in enumerate(par.values)
                               if any(y is cur for y in ast.walk(x)))
                    if any(_nonempty(x) for x in par.values[:idx]):
                        guarded = True
                if isinstance(par, ast.If) and any(
                        y is cur for s in par.body for y in ast.walk(s)) \
                        and _nonempty(par.test):
                    guarded = True
                cur = par
            rep.check(guarded, 'C15.markers', f'{mod.relpath}:{fn.name}', sb,
                      'a character of the argument is read only after the '
                      'string was found non-empty',
                      f'`{norm(sb)}` is evaluated for every string argument, '
                      'also the empty string: a description with "" among '
                      'the arguments of a component or processor fails to '
                      'load with IndexError', line=sb.lineno)
    if n == 0:
        rep.ok('C15.markers', mod.relpath, 'string arguments',
               'no transformer indexes a character of a string argument',
               nontrivial=False)


def check_replaced_by_identity(program, rep):
    """Whether an argument was replaced by a transformer is a question about
    identity: `f(arg) != arg` / `== arg` asks the objects' own __eq__ - a
    referenced object that compares equal to strings (a permissive sentinel,
    unittest.mock.ANY) is taken for "unchanged" and the component receives
    the raw '${...}' text."""
    mod = program.modules['desper.model.world']
    n = 0
    for fn in program.all_functions():
        if fn.module is not mod:
            continue
        params = set(fn.params())
        # names bound to the result of calling a parameter on one argument
        mapped = {}
        for x in ast.walk(fn.node):
            tgt = val = None
            if isinstance(x, ast.NamedExpr):
                tgt, val = x.target, x.value
            elif isinstance(x, ast.Assign) and len(x.targets) == 1:
                tgt, val = x.targets[0], x.value
            if isinstance(tgt, ast.Name) and isinstance(val, ast.Call) \
                    and isinstance(val.func, ast.Name) and val.func.id \
                    in params and len(val.args) == 1:
                mapped[tgt.id] = norm(val.args[0])

        def source(e):
            if isinstance(e, ast.NamedExpr):
                e = e.value
            if isinstance(e, ast.Call) and isinstance(e.func, ast.Name) \
                    and e.func.id in params and len(e.args) == 1:
                return norm(e.args[0])
            if isinstance(e, ast.Name) and e.id in mapped:
                return mapped[e.id]
            return None
        for c in ast.walk(fn.node):
            if not (isinstance(c, ast.Compare) and len(c.ops) == 1):
                continue
            l, r = c.left, c.comparators[0]
            for a, b in ((l, r), (r, l)):
                src = source(a)
                if src is None or norm(b) != src:
                    continue
                n += 1
                if isinstance(c.ops[0], (ast.Eq, ast.NotEq)):
                    rep.bad('C15.markers', fn.where, c,
                            f'`{norm(c)}` decides by equality whether the '
                            'transformer replaced the argument: a referenced '
                            'object whose __eq__ accepts strings is taken for '
                            '"unchanged" and the raw marker text is passed to '
                            'the component', line=c.lineno)
                else:
                    rep.ok('C15.markers', fn.where, norm(c),
                           'replacement of an argument is decided by '
                           'identity', line=c.lineno)
    return n


def check_markers(program, rep):
    check_replaced_by_identity(program, rep)
    check_string_probes(program, rep)
    mod = program.modules['desper.model.world']
    site = mod.relpath
    pats = {}
    for st in mod.tree.body:
        if isinstance(st, ast.Assign) and isinstance(st.value, ast.Call) \
                and dotted(st.value.func) == 're.compile' and st.value.args \
                and isinstance(st.value.args[0], ast.Constant):
            pats[st.targets[0].id] = (st.value.args[0].value, st)
    want = {'OBJECT_STRING_REGEX': '${', 'RESOURCE_STRING_REGEX': '$res{',
            'HANDLE_STRING_REGEX': '$handle{'}
    for name, marker in want.items():
        if name not in pats:
            rep.inconclusive('C15.markers', site, name, 'regex not found')
            continue
        pat, node = pats[name]
        try:
            prefix, group_ok, suffix, whole = _regex_shape(pat)
        except Exception as ex:
            rep.inconclusive('C15.markers', site, node, f'regex: {ex}')
            continue
        rep.check(prefix == marker and group_ok and suffix == '}' and whole,
                  'C15.markers', site, node,
                  f'{name} is {marker!r} (.+) "}}"',
                  f'{name} = {pat!r} is not the literal marker {marker!r} '
                  'followed by one (.+) group and a closing brace: other '
                  'strings are taken for references, or references are not '
                  'recognised', line=node.lineno)
    ms = sorted(want.values())
    pf = [(a, b) for a in ms for b in ms if a != b and b.startswith(a)]
    rep.check(not pf, 'C15.markers', site, ', '.join(ms),
              'the three markers are prefix-free', f'marker prefixes: {pf}')
    # application with match / fullmatch, branch actions
    for fname, regexes in (('object_dict_transformer',
                            ['OBJECT_STRING_REGEX']),
                           ('resource_dict_transformer',
                            ['RESOURCE_STRING_REGEX', 'HANDLE_STRING_REGEX'])):
        f = program.func('desper.model.world', fname)
        # the function mapped over the arguments
        mf = None
        mf_owner = f.node
        for n in ast.walk(f.node):
            if isinstance(n, ast.Call) and dotted(n.func) == 'map' \
                    and len(n.args) == 2 and isinstance(n.args[0], ast.Name):
                nm = n.args[0].id
                for d in ast.walk(f.node):
                    if isinstance(d, ast.FunctionDef) and d.name == nm:
                        mf = d
                if mf is None:
                    r = program.lookup(f.module, nm)
                    if r and r[0] == 'func':
                        mf = r[1].node
                break
        if mf is None:
            # helper extracted around the whole tail: follow one level
            for n in ast.walk(f.node):
                if isinstance(n, ast.Call) and isinstance(n.func, ast.Name) \
                        and n.func.id.startswith('_') and n.args \
                        and isinstance(n.args[0], ast.Name):
                    nm = n.args[0].id
                    for d in ast.walk(f.node):
                        if isinstance(d, ast.FunctionDef) and d.name == nm:
                            mf = d
        if mf is None:
            rep.inconclusive('C15.markers', f.where, fname,
                             'the function mapped over the arguments was not '
                             'found')
            continue
        arg = mf.args.args[0].arg
        scope = [f.node, mf]
        bad_calls = [n for sc in scope for n in ast.walk(sc)
                     if isinstance(n, ast.Call) and isinstance(
                         n.func, ast.Attribute) and n.func.attr in (
                             'search', 'findall', 'finditer', 'sub', 'subn',
                             'split') and any(
                                 rx in norm(n.func.value) or 'regex' in norm(
                                     n.func.value).lower() for rx in regexes)]
        good_calls = [n for sc in scope for n in ast.walk(sc)
                      if isinstance(n, ast.Call) and isinstance(
                          n.func, ast.Attribute) and n.func.attr in (
                              'match', 'fullmatch') and [norm(a)
                                                         for a in n.args]
                      == [arg]]
        named = all(any(isinstance(x, ast.Name) and x.id == rx
                        for sc in scope for x in ast.walk(sc))
                    for rx in regexes)
        rep.check(not bad_calls and bool(good_calls) and named, 'C15.markers',
                  f.where, bad_calls[0] if bad_calls else (
                      good_calls[0] if good_calls else fname),
                  ', '.join(regexes) + ' applied at the start of the argument',
                  'a marker regex is not applied with match/fullmatch on the '
                  'argument (search finds the marker inside ordinary text, '
                  'which is then replaced instead of passing through '
                  'unchanged)', line=getattr(
                      (bad_calls or good_calls or [mf])[0], 'lineno',
                      mf.lineno))

        class _MD(_D):
            def for_counts(self, st, node, itersym):
                if isinstance(itersym.node, (ast.Tuple, ast.List)):
                    return range(0, len(itersym.node.elts) + 1)
                return [0, 1]
        w = Walker(program, _MD(program))
        from dlint.model import FuncInfo
        fi = FuncInfo(f.module, None, mf.name, mf)
        exits = w.run(fi, None)

        # single-return functions nested in the transformer are applied like
        # lambdas
        nested = {}
        for st_ in ast.walk(f.node):
            if isinstance(st_, ast.FunctionDef) and st_ is not f.node \
                    and st_ is not mf:
                b_ = strip_docstring(st_.body)
                if len(b_) == 1 and isinstance(b_[0], ast.Return) \
                        and b_[0].value is not None and not (
                            st_.args.vararg or st_.args.kwarg
                            or st_.args.kwonlyargs):
                    nested[st_.name] = ast.Lambda(st_.args, b_[0].value)

        def resolve(text, items):
            """Substitute loop items of tuple displays, apply lambdas."""
            import copy
            tree = ast.parse(text, mode='eval').body
            if nested:
                class N(ast.NodeTransformer):
                    def visit_Call(self, n):
                        n = self.generic_visit(n)
                        if isinstance(n.func, ast.Name) and n.func.id \
                                in nested:
                            n.func = copy.deepcopy(nested[n.func.id])
                        return n
                tree = N().visit(tree)

            class R(ast.NodeTransformer):
                def visit_Subscript(self, n):
                    n = self.generic_visit(n)
                    if isinstance(n.value, (ast.Tuple, ast.List)) \
                            and isinstance(n.slice, ast.Constant) \
                            and isinstance(n.slice.value, int) \
                            and n.slice.value < len(n.value.elts):
                        return n.value.elts[n.slice.value]
                    return n

                def visit_Name(self, n):
                    if n.id in items:
                        return copy.deepcopy(items[n.id])
                    return n

                def visit_Call(self, n):
                    n = self.generic_visit(n)
                    if isinstance(n.func, ast.Lambda) and len(
                            n.func.args.args) == len(n.args) \
                            and not n.keywords:
                        m = {a.arg: v for a, v in zip(n.func.args.args,
                                                      n.args)}

                        class S(ast.NodeTransformer):
                            def visit_Name(self, x):
                                return copy.deepcopy(m[x.id]) \
                                    if x.id in m else x
                        return S().visit(copy.deepcopy(n.func.body))
                    return n
            for _ in range(3):
                tree = R().visit(tree)
            return norm(tree)
        bad = None
        for ex in exits:
            if ex.kind != 'return':
                bad = bad or (mf, 'a path of the map function does not '
                              'return')
                continue
            items = {}
            for e in ex.state.trace:
                if e.kind == 'for-item' and isinstance(
                        e.sym.node, (ast.Tuple, ast.List)) and isinstance(
                            e.extra, int) and e.extra < len(e.sym.node.elts):
                    items[e.target.text] = e.sym.node.elts[e.extra]
            conds = {resolve(e.sym.text, items): e.extra
                     for e in ex.state.trace if e.kind == 'cond'}
            if any(t in ('True', 'False') and (t == 'True') != v
                   for t, v in conds.items()):
                continue        # infeasible: a flag of the dispatch table
            val = resolve(ex.payload.text, items) if ex.payload else None
            isstr = conds.get(f'isinstance({arg}, str)')
            matched = [t for t, v in conds.items() if t.endswith(' is None')
                       and v is False and ('.match(' in t
                                           or '.fullmatch(' in t)]
            if isstr is False and val != arg:
                bad = bad or (ex.node, 'a non-string argument is not '
                              'returned unchanged')
            if isstr is not False and not matched and val != arg:
                bad = bad or (ex.node, 'a string that matches no marker is '
                              'not returned unchanged')
            if matched:
                m = matched[-1][:-len(' is None')]
                rx = m.split('.')[0]
                grp = {f'{m}.groups()[0]', f'{m}.group(1)', f'{m}[1]'}
                if rx == 'OBJECT_STRING_REGEX':
                    if val not in {f'object_from_string({g})' for g in grp}:
                        bad = bad or (ex.node, '${...} is not replaced by '
                                      f'object_from_string(<name>): {val}')
                elif rx in ('RESOURCE_STRING_REGEX', 'HANDLE_STRING_REGEX'):
                    keys = {f"root_map.split_char.join({g}.split('.'))"
                            for g in grp} | {
                        f"{g}.replace('.', root_map.split_char)"
                        for g in grp}
                    want = {f'root_map[{k}]' for k in keys} if rx.startswith(
                        'RES') else {f'root_map.get({k})' for k in keys}
                    if val not in want:
                        bad = bad or (
                            ex.node, ('$res{...} is not replaced by the '
                                      'loaded resource root_map[path]: '
                                      if rx.startswith('RES') else
                                      '$handle{...} is not replaced by the '
                                      'handle root_map.get(path): ') + str(val))
        rep.check(bad is None, 'C15.markers', f.where,
                  bad[0] if bad else f'{fname}: mapped function',
                  'references are replaced by the named thing, everything '
                  'else passes through unchanged', bad[1] if bad else '',
                  line=getattr(bad[0], 'lineno', mf.lineno) if bad
                  else mf.lineno)
        # writeback into the passthrough dict's own containers (path based,
        # helpers followed)
        pt = f.params()[3]
        w2 = Walker(program, _D(program))
        exits2 = [e for e in w2.run(f, None) if e.kind != 'raise']
        ok_all = bool(exits2)
        for ex in exits2:
            ok_args = ok_kw = False
            for e in ex.state.trace:
                if e.kind == 'store' and e.target is not None:
                    tn = e.target.node
                    if isinstance(tn, ast.Subscript) and isinstance(
                            tn.slice, ast.Slice) and norm(tn.value) == \
                            f"{pt}.get('args', [])" and norm(e.sym.node) == \
                            f"map({mf.name}, {pt}.get('args', []))":
                        ok_args = True
                    if norm(tn) == f"{pt}['args']" and norm(e.sym.node) in (
                            f"list(map({mf.name}, {pt}.get('args', [])))",
                            f"[{mf.name}(a) for a in {pt}.get('args', [])]"):
                        ok_args = True
                if e.kind == 'call' and isinstance(e.sym.node, ast.Call) \
                        and norm(e.sym.node.func) == \
                        f"{pt}.get('kwargs', {{}}).update" \
                        and len(e.sym.node.args) == 1:
                    a0 = e.sym.node.args[0]
                    # a list / generator of (key, value) pairs is the same
                    # update as the dict comprehension
                    if isinstance(a0, (ast.ListComp, ast.GeneratorExp)) \
                            and isinstance(a0.elt, ast.Tuple) and len(
                                a0.elt.elts) == 2:
                        a0 = ast.DictComp(a0.elt.elts[0], a0.elt.elts[1],
                                          a0.generators)
                    if isinstance(a0, ast.DictComp) and len(
                            a0.generators) == 1 and norm(
                                a0.generators[0].iter) == \
                            f"{pt}.get('kwargs', {{}}).items()" \
                            and isinstance(a0.generators[0].target,
                                           ast.Tuple) \
                            and not a0.generators[0].ifs:
                        kk, vv = [norm(x)
                                  for x in a0.generators[0].target.elts]
                        if norm(a0.key) == kk and norm(a0.value) == \
                                f'{mf.name}({vv})':
                            ok_kw = True
            if not (ok_args and ok_kw):
                ok_all = False
        rep.check(ok_all, 'C15.writeback', f.where,
                  'args_list[:] = map(..); kwargs_map.update(..)',
                  "mapped arguments are written back into the passthrough "
                  "dict's own list and dict, in place",
                  'the mapped args/kwargs are not written back in place into '
                  "the passthrough dict's own containers (they are read from "
                  'the copy, or the result is dropped): resolved references '
                  'never reach the constructors, or objects resolved earlier '
                  'arrive as copies', line=f.node.lineno)
    # type transformer
    f = program.func('desper.model.world', 'type_dict_transformer')
    pt = f.params()[3]
    sets = [n for n in ast.walk(f.node) if isinstance(n, ast.Assign)
            and norm(n.targets[0]) == f"{pt}['type']"]
    env = {}
    for s in f.node.body:
        if isinstance(s, ast.Assign) and isinstance(s.targets[0], ast.Name):
            env[s.targets[0].id] = s.value
    ok = len(sets) == 1 and norm(env.get(norm(sets[0].value), sets[0].value)
                                 ) == f"object_from_string({pt}['type'])"
    rep.check(ok, 'C15.writeback', f.where, sets[0] if sets else 'type',
              "the 'type' string is replaced by the object it names",
              "type_dict_transformer does not store object_from_string("
              "passthrough['type']) back under 'type'", line=f.node.lineno)


def check_resolution(program, rep):
    """What the marker rule trusts: object_from_string walks the dotted
    name attribute by attribute, and the transformer climbs to the root map
    by identity tests (never by the truth value of a map)."""
    f = program.func('desper.model.world', 'object_from_string')

    class _OD(_D):
        loop_bound = 2

        def for_counts(self, st, node, itersym):
            return [0, 1, 2]
    w = Walker(program, _OD(program))
    exits = [e for e in w.run(f, None) if e.kind == 'return']
    rep.count('paths', len(exits))
    bad = None
    deep = 0
    for ex in exits:
        tr = ex.state.trace
        if ex.payload is None:
            bad = bad or (ex.node, 'a path returns nothing')
            continue
        # the attribute loop is the last loop that ran on this path
        items = []
        last_loop = None
        for e in tr:
            if e.kind == 'for':
                last_loop, items = e.node, []
            elif e.kind == 'for-item' and e.node is last_loop:
                items.append(e.target.text)
        node = ex.payload.node
        layers = []
        while isinstance(node, ast.Call) and dotted(node.func) == 'getattr' \
                and len(node.args) == 2:
            layers.append(norm(node.args[1]))
            node = node.args[0]
        layers.reverse()
        uses_getattr = any(isinstance(x, ast.Call) and dotted(x.func)
                           == 'getattr' for x in ast.walk(last_loop)) \
            if last_loop is not None else False
        if uses_getattr:
            if len(items) >= 2:
                deep += 1
            if layers != items:
                bad = bad or (ex.node, f'for the name parts {items} the '
                              f'function returns {ex.payload.text[:160]}: '
                              'each part must be looked up on the object '
                              'found for the previous part - a name with two '
                              'or more attribute levels (${pkg.Class.attr}) '
                              'resolves to the wrong object')
    reduce_form = any(isinstance(x, ast.Call) and (dotted(x.func) or '')
                      .split('.')[-1] == 'reduce' and x.args and norm(
                          x.args[0]) == 'getattr' for x in ast.walk(f.node))
    if not reduce_form:
        rep.floor('C15.markers', 'paths of object_from_string with two '
                  'attribute levels', deep, 1)
    rep.check(bad is None, 'C15.markers', f.where,
              bad[0] if bad else 'attribute walk',
              'every attribute is looked up on the previous result',
              bad[1] if bad else '', line=getattr(bad[0], 'lineno', None)
              if bad else f.node.lineno)
    # ---- root climb: no truth-value test of a map / handle when some class
    # of the resource tree defines __len__ / __bool__
    falsy = []
    for cname in ('ResourceMap', 'Handle'):
        c = program.cls(cname)
        for k in [c] + program.subclasses(c):
            for mname in ('__len__', '__bool__'):
                if mname in k.methods:
                    falsy.append(f'{k.name}.{mname}')
    g = program.func('desper.model.world', 'resource_dict_transformer')
    n = 0
    bad = None
    # (the climb may live in a helper of the module)
    for t in ast.walk(g.module.tree):
        if not isinstance(t, (ast.While, ast.If, ast.IfExp)):
            continue
        leaves = []
        def split(x):
            if isinstance(x, ast.BoolOp):
                for v in x.values:
                    split(v)
            elif isinstance(x, ast.UnaryOp) and isinstance(x.op, ast.Not):
                split(x.operand)
            else:
                leaves.append(x)
        split(t.test)
        for lf in leaves:
            if any(isinstance(x, ast.Attribute) and x.attr == 'parent'
                   for x in ast.walk(lf)):
                n += 1
                if isinstance(lf, ast.Attribute) and falsy and bad is None:
                    bad = lf
    rep.floor('C15.markers', 'tests on .parent in the root climb', n, 1)
    rep.check(bad is None, 'C15.markers', g.where,
              bad if bad is not None else 'root climb',
              'the climb to the root map stops only at parent None',
              f'the climb to the root map tests the truth value of '
              f'{norm(bad) if bad is not None else ""} while '
              f'{", ".join(falsy)} makes maps falsy: the climb stops below '
              'the root at a map without direct handles and $res{} / '
              '$handle{} paths are resolved from there (KeyError / None)',
              line=getattr(bad, 'lineno', None))


def run(program, rep, tier):
    check_resolution(program, rep)
    check_load(program, rep)
    check_populate(program, rep)
    check_transform(program, rep)
    check_markers(program, rep)
    # an entity listed without id must not merge into one listed with an id
    from rules import c01
    n0 = len(rep.obs)
    c01.check_fresh_id(program, rep)
    for o in rep.obs[n0:]:
        o.rule = 'C15.ids'
    # the components / processors a description lists are registered by the
    # mapping their class declares: a handler class defined for the project
    # (decorated subclass) must not change the mapping of the library classes
    # the description also instantiates (the C03 mapping rule)
    from rules import c03
    rep.borrow(c03.check_mapping, program, rep,
               keep=lambda o: o.rule == 'C03.mapping',
               rename=lambda r: 'C15.mapping',
               why='a listed component of a library class ends up declaring '
               'events of an unrelated decorated subclass: create_entity '
               'raises AttributeError while the world is being loaded')
    # once enabled, the postponed on_add / on_world_load are released once
    # and in order (the C04 release rules)
    from rules import c04, lifecycle
    n0 = len(rep.obs)
    c04.check_release(program, rep)
    for o in rep.obs[n0:]:
        o.rule = o.rule.replace('C04.', 'C15.released-')
    # exactly the listed processors: a listed processor only replaces one of
    # exactly its own type (C07.replace-exact)
    out = lifecycle.analyse_world(program, rep, 'C15', None, 'C15')
    for (rule, fn, text, line, kind, table), r in sorted(
            out['results'].items(), key=lambda kv: (kv[0][1], kv[0][3] or 0)):
        if rule != 'replace-exact' or table != 'self._processors':
            continue
        site = f'desper/logic/world.py:{fn}'
        if r['bad']:
            rep.bad('C15.processors', site, text, r['bad'][0]['why'],
                    detail={'path': r['bad'][0]['path']}, line=line)
        else:
            rep.ok('C15.processors', site, text,
                   'a listed processor replaces only one of exactly its type',
                   line=line)

