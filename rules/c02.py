"""C02 - component lifecycle callbacks fire exactly once per attach/detach."""
import ast

from dlint.model import AnalysisError, dotted, norm, strip_docstring
from rules import lifecycle

EXPLANATION = (
    'Static typestate check (PathEval) of every World method: each path '
    'through the method (loops walked 0/1/2 times, resolved callees inlined to '
    'depth 4, conditions split into literals) yields the attach sites (stores '
    'into _entities[e][T]), detach sites (item deletes / pops; whole-row '
    'deletes preceded by a completed loop over the row) and the notification '
    'actions (add_handler, remove_handler, direct callback through '
    'getattr(c, c.__events__[EV]), relay through '
    "dispatch('on_single_dispatch', EV, c, ...)). For every attached / "
    'detached object the actions are compared with the protocol table under '
    "the path's valuation of H = hasattr(c,'__events__'), A = EV in "
    'c.__events__, D = self._dispatch_enabled (which must have been read '
    'after the last call-out that can run user code). Further rules: a store '
    'into an occupied slot is preceded by the detach of the previous occupant '
    'or a proof of absence; the relay target forwards its arguments; the World '
    'listens to itself after __init__ and after every wipe of the handler '
    'tables; clear() visits every row of the table; no relay is followed by a '
    'wipe of the event queue. This decides the structural clauses; the step '
    'from them to "exactly once for all histories" is the written induction '
    'of DESIGN.md section 3 (C02) - it is not mechanised.')
RULE = ('one obligation per (rule, function, site statement); a site is '
        'non-trivial when at least one path reaches it; verdict = all paths '
        'conform')
NOT_DECIDED = [
    'what user callbacks do (beyond: may toggle dispatching, may raise)',
    'delivery order across different components (C04)',
    'two same-typed components passed to one create_entity call',
    're-entrant mutation of the tables from inside on_remove callbacks',
]
ASSUMPTIONS = [
    'a component / processor stored in the tables is never the object None',
    'dict/set operations behave as in the frozen operation table (DESIGN.md '
    'appendix D)',
]

FLOORS = {'attach': 1, 'detach': 1, 'methods_with_sites': 2}


def relay_target(program, rep):
    """World maps on_single_dispatch to a method that forwards *args."""
    world = program.cls('World')
    site = f'{world.module.relpath}:World'
    mapped = None
    for d in world.decorators:
        if isinstance(d, ast.Call) and (dotted(d.func) or '').endswith(
                'event_handler'):
            for k in d.keywords:
                if k.arg == lifecycle.RELAY_EV and isinstance(
                        k.value, ast.Constant):
                    mapped = k.value.value
            for a in d.args:
                if isinstance(a, ast.Constant) and a.value \
                        == lifecycle.RELAY_EV:
                    mapped = a.value
    if mapped is None:
        rep.bad('C02.relay-target', site, 'class World decorators',
                "World is not decorated as a handler of 'on_single_dispatch': "
                'every on_add/on_remove postponed while dispatching is '
                'disabled is dropped', line=world.node.lineno)
        return
    f = program.resolve_method(world, mapped)
    if f is None:
        rep.bad('C02.relay-target', site, f'event_handler(...={mapped!r})',
                f'relay method {mapped} does not exist', line=world.node.lineno)
        return
    from dlint.walk import Walker, Domain

    class _RD(Domain):
        def resolve_call(self, st, call, walker):
            return walker.resolve_helper(st, call)
    a = f.node.args
    params = [x.arg for x in a.args]
    ok = False
    why = 'the relay method does not forward to the mapped callback'
    body = strip_docstring(f.node.body)
    if len(params) >= 3 and a.vararg is not None:
        ev, h, va = params[1], params[2], a.vararg.arg
        want_f = f'getattr({h}, {h}.__events__[{ev}])'
        exits = [e for e in Walker(program, _RD(program)).run(f, world)
                 if e.kind != 'raise']
        ok = bool(exits)
        for ex in exits:
            calls = [e.sym.node for e in ex.state.trace if e.kind == 'call'
                     and isinstance(e.sym.node, ast.Call)
                     and norm(e.sym.node.func) == want_f]
            if len(calls) != 1 or [norm(x) for x in calls[0].args] != [
                    f'*{va}'] or calls[0].keywords:
                ok = False
                got = [norm(e.sym.node) for e in ex.state.trace
                       if e.kind == 'call'][-1:]
                why = (f'relay performs {got}; expected exactly one call '
                       f'{want_f}(*{va})')
    rep.check(ok, 'C02.relay-target', f.where, body[0] if body else f.node,
              'relay forwards (*args) to the method the handler maps to the '
              'event', why, line=f.node.lineno)


def run(program, rep, tier):
    out = lifecycle.analyse_world(program, rep, 'C02', None, 'C02')
    rep.count('paths', out['npaths'])
    rep.extra['per_method'] = out['stats']
    results = out['results']
    n_att = n_det = 0
    funcs = set()
    for (rule, fn, text, line, kind, table), r in sorted(
            results.items(), key=lambda kv: (kv[0][1], kv[0][3] or 0,
                                             kv[0][0])):
        # processors are C07's; here only the component table
        if table != 'self._entities':
            continue
        site = f'desper/logic/world.py:{fn}'
        if rule == 'protocol':
            funcs.add(fn)
            if kind == 'attach':
                n_att += 1
            else:
                n_det += 1
        rname = f'C02.{rule}'
        if r['bad']:
            b = r['bad'][0]
            rep.bad(rname, site, text, b['why'],
                    detail={k: v for k, v in b.items() if k != 'why'}
                    | {'failing_paths': len(r['bad']),
                       'conforming_paths': r['ok']}, line=line)
        else:
            rep.ok(rname, site, text,
                   f'all {r["ok"]} path/object instances conform to the '
                   'protocol table', line=line)
    for fn, node, why in out['problems']:
        rep.inconclusive('C02.protocol', f'desper/logic/world.py:{fn}', node,
                         why, line=getattr(node, 'lineno', None))
    rep.floor('C02.sites', 'attach sites (stores into _entities[e][T])',
              n_att, FLOORS['attach'])
    rep.floor('C02.sites', 'detach sites (deletes from _entities)',
              n_det, FLOORS['detach'])
    rep.floor('C02.sites', 'World methods containing attach/detach sites',
              len(funcs), FLOORS['methods_with_sites'])
    # loose actions: notifications for objects neither attached nor detached
    seen = set()
    for fn, a in out['loose']:
        k = (fn, norm(a.node))
        if k in seen:
            continue
        seen.add(k)
        if a.kind in ('direct', 'relay') and a.ev in (lifecycle.ON_ADD,
                                                      lifecycle.ON_REMOVE):
            rep.bad('C02.protocol', f'desper/logic/world.py:{a.func}', a.node,
                    f'{a.ev} is sent to {a.obj}, which is neither attached '
                    'nor detached on that path (spurious delivery)',
                    line=a.line)
    # relay then wipe
    for (fn, text), d in sorted(out['relay_wipe'].items()):
        rep.bad('C02.relay-wipe', f'desper/logic/world.py:{fn}', text,
                'a postponed on_add/on_remove is relayed and the event queue '
                'is wiped later on the same path: the callback is lost',
                detail=d, line=d['line'])
    if not out['relay_wipe']:
        rep.ok('C02.relay-wipe', 'desper/logic/world.py:World',
               'all World methods', 'no path relays and later wipes the queue')
    # self listener
    for fn, d in sorted(out['selfreg'].items()):
        site = f'desper/logic/world.py:{fn}'
        if d['bad']:
            rep.bad('C02.self-listener', site, f'{fn}: wipe of handler tables',
                    'the World is not (re-)registered as its own handler '
                    'after its handler tables were emptied: postponed '
                    'on_add/on_remove relays are never delivered',
                    detail={'path': d['bad'][0]})
        else:
            rep.ok('C02.self-listener', site, f'{fn}: self.add_handler(self)',
                   f'on all {d["ok"]} paths the last handler-table event is '
                   'the self registration')
    if 'World.__init__' not in out['selfreg']:
        rep.inconclusive('C02.self-listener', 'desper/logic/world.py:World',
                         'World.__init__', 'constructor not analysed')
    relay_target(program, rep)
    clear_total(program, rep)
    # which callbacks a component "declares" is read from its class's
    # __events__: decorating a subclass must not change what its base (and its
    # siblings) declare (the C03 mapping rule)
    from rules import c03
    rep.borrow(c03.check_mapping, program, rep,
               keep=lambda o: o.rule == 'C03.mapping',
               rename=lambda r: 'C02.mapping',
               why='a component class ends up declaring on_add / on_remove '
               'callbacks it does not have (attaching it raises, or a foreign '
               'method is called as on_remove)')
    # postponed callbacks travel through dispatch() to the world itself (the
    # on_single_dispatch relay) and to components: the delivery loop must
    # skip only listeners that are GONE (dereference `is None`), not ones
    # that are falsy - a World subclass with __len__, an empty container
    # component - or the postponed on_add / on_remove are lost
    from rules import evrules
    rep.borrow(evrules.delivery_sites, program, rep, 'C10', {'deref'},
               keep=lambda o: o.rule == 'C10.deref',
               rename=lambda r: 'C02.relay-deref',
               why='a postponed on_add / on_remove is silently dropped by the '
               'delivery loop')
    # on_remove of a deferred deletion is delivered ONCE: the mark of the
    # entity being torn down has left the pending set before its callbacks
    # run, so a raising callback does not make the next process() tear the
    # same entity down - and notify its other components - again (C05's rule)
    from rules import c05
    rep.borrow(c05.run, program, rep, 'quick',
               keep=lambda o: o.rule == 'C05.progress',
               rename=lambda r: 'C02.deferred-once',
               why='components of an entity awaiting deletion receive '
               'on_remove again on every later frame')
    # postponed callbacks are released once, in order (the C04 release rules)
    from rules import c04
    n0 = len(rep.obs)
    c04.check_release(program, rep)
    for o in rep.obs[n0:]:
        o.rule = o.rule.replace('C04.', 'C02.postponed-')


def clear_total(program, rep):
    """World.clear visits every row of the component table."""
    f = program.method('World', 'clear')
    site = f.where
    ok = False
    found = None
    for n in ast.walk(f.node):
        if isinstance(n, ast.For):
            base, view = lifecycle.unwrap_iter(n.iter)
            if dotted(base) == 'self._entities' and view == 'keys':
                body_calls = [c for c in ast.walk(n) if isinstance(c, ast.Call)]
                for c in body_calls:
                    d = dotted(c.func)
                    if d in ('self.delete_entity', 'self._delete_entity_now') \
                            and c.args and norm(c.args[0]) == norm(n.target):
                        imm = d.endswith('_now') or any(
                            k.arg == 'immediate' and isinstance(
                                k.value, ast.Constant) and k.value.value
                            is True for k in c.keywords) or (
                                len(c.args) > 1 and isinstance(
                                    c.args[1], ast.Constant)
                                and c.args[1].value is True)
                        if imm:
                            ok = True
                            found = n
            elif found is None and any(
                    isinstance(c, ast.Call) and dotted(c.func) in (
                        'self.delete_entity', 'self._delete_entity_now')
                    for c in ast.walk(n)):
                found = n
    if found is None:
        rep.inconclusive('C02.clear-total', site, 'World.clear',
                         'no loop deleting entities found in clear()')
        return
    rep.check(ok, 'C02.clear-total', site, found.iter,
              'clear() deletes, immediately, every key of the component table',
              'clear() does not iterate over all keys of _entities (a filtered '
              'view skips entities, e.g. those awaiting deletion: they get no '
              'on_remove and survive the clear)', line=found.lineno)
