"""C20 - transform setters notify listeners with the value that was stored."""
import ast

from dlint.model import AnalysisError, dotted, norm, strip_docstring
from dlint.walk import Domain, Walker

EXPLANATION = (
    'Static value-flow rules over Transform2D / Transform3D '
    '(desper/logic/spatial.py). For each of the six property setters, on '
    'every path (PathEval): exactly one store into the backing field the '
    'getter returns, exactly one dispatch, the store precedes the dispatch, '
    'the single dispatch argument is - by value flow - the stored expression '
    '(or a read of the backing field), and the event constant is the one '
    'matching the property (on_<name>_change); no other event is dispatched. '
    'init: where a setter applies a reducing function to the value (2-D '
    'rotation modulo 360) the constructor applies the same function to its '
    'argument; a constructor parameter with a non-constant default is not '
    'stored bare unless the default is an immutable in-repo tuple type.')
RULE = 'one obligation per (rule, class, property)'
NOT_DECIDED = ['what listeners do with the value']
ASSUMPTIONS = ['dispatch delivers its argument unchanged (C03)']

PROPS = ('position', 'rotation', 'scale')


class _D(Domain):
    def resolve_call(self, st, call, walker):
        # private helpers extracted from the analysed code are followed
        return walker.resolve_helper(st, call)

    def resolve_setter(self, st, target, walker):
        return None


def _subst(text, old, new):
    tree = ast.parse(text, mode='eval').body

    class T(ast.NodeTransformer):
        def visit_Name(self, n):
            return ast.Name(new, n.ctx) if n.id == old else n
    return norm(T().visit(tree))


def run(program, rep, tier):
    n_set = 0
    for cname in ('Transform2D', 'Transform3D'):
        c = program.cls(cname)
        init = c.methods.get('__init__')
        for prop in PROPS:
            setter = c.methods.get(prop + '.setter')
            getter = c.methods.get(prop)
            site = f'{c.module.relpath}:{cname}.{prop}'
            if setter is None or getter is None:
                rep.inconclusive('C20.same-value', site, prop,
                                 'property getter/setter not found')
                continue
            n_set += 1
            backing = program.trivial_getter_field(c, prop)
            read_expr = f'self.{backing}' if backing else None
            if backing is None:
                # a computing getter: `return <expr over one self field>`
                rets = [n for n in ast.walk(getter.node)
                        if isinstance(n, ast.Return) and n.value is not None]
                flds = {n.attr for r in rets for n in ast.walk(r)
                        if isinstance(n, ast.Attribute) and isinstance(
                            n.value, ast.Name) and n.value.id == 'self'}
                if len(rets) == 1 and len(flds) == 1:
                    backing = flds.pop()
                    read_expr = norm(rets[0].value)
                else:
                    rep.inconclusive('C20.same-value', site,
                                     getter.node.name, 'getter is not a '
                                     'single `return <expression over one '
                                     'field>`')
                    continue
            vp = setter.params()[1]
            w = Walker(program, _D(program))
            exits = w.run(setter, c)
            rep.count('paths', len(exits))
            bad = None
            unmodelled = None
            stored_expr = None
            for ex in exits:
                if ex.kind == 'raise':
                    continue
                tr = ex.state.trace
                stores = [(i, e) for i, e in enumerate(tr)
                          if e.kind == 'store' and e.target is not None
                          and e.target.text == f'self.{backing}']
                disp = [(i, e) for i, e in enumerate(tr) if e.kind == 'call'
                        and isinstance(e.sym.node, ast.Call)
                        and norm(e.sym.node.func) == 'self.dispatch']
                if len(stores) != 1:
                    bad = bad or (setter.node, f'{len(stores)} stores into '
                                  f'self.{backing} on a path of the setter')
                    continue
                own_loop = [e for e in tr if e.kind in ('for', 'for-item')
                            and e.sym is not None and '._events' in e.sym.text]
                if not disp and own_loop:
                    # the setter (a helper it calls) walks the listener table
                    # itself instead of going through dispatch(): whether that
                    # copy delivers exactly like dispatch() is not decided here
                    unmodelled = unmodelled or own_loop[0]
                    continue
                if len(disp) != 1:
                    bad = bad or (setter.node, f'{len(disp)} dispatches on a '
                                  'path of the setter: listeners are told '
                                  'not exactly once')
                    continue
                (i_s, s), (i_d, d) = stores[0], disp[0]
                stored_expr = s.sym.text
                args = [norm(a) for a in d.sym.node.args]
                want_ev = f"'on_{prop}_change'"
                if i_d < i_s:
                    bad = bad or (d.node, 'listeners are notified before the '
                                  'value is stored: a listener reading the '
                                  'property in its callback sees the old '
                                  'value, and a raising listener leaves the '
                                  'assignment undone')
                if not args or args[0] != want_ev:
                    bad = bad or (d.node, f'the {prop} setter dispatches '
                                  f'{args[0] if args else None}, not '
                                  f'{want_ev}: listeners of another property '
                                  'are notified')
                elif len(args) != 2 or d.sym.node.keywords:
                    bad = bad or (d.node, 'the event does not carry exactly '
                                  'one value')
                elif args[1] not in ({read_expr, f'self.{prop}'} | (
                        {stored_expr} if read_expr == f'self.{backing}'
                        else set())):
                    bad = bad or (d.node, f'the listener is told {args[1]} '
                                  f'while the property stores {stored_expr} '
                                  f'and a read of it returns {read_expr}: '
                                  'the value carried by the event differs '
                                  'from what a read of the property returns')
            if unmodelled is not None and bad is None:
                rep.inconclusive(
                    'C20.same-value', site, unmodelled.node,
                    'on some path the setter notifies by walking the listener '
                    'table itself (a copy of the delivery loop outside '
                    'dispatch()): that the copy tells each listener once, '
                    'with this value, is not modelled',
                    line=getattr(unmodelled.node, 'lineno', None))
            rep.check(bad is None, 'C20.same-value', site,
                      bad[0] if bad else f'{prop} setter',
                      'store, then one dispatch of the matching event with '
                      'the stored value', bad[1] if bad else '',
                      line=getattr(bad[0], 'lineno', setter.node.lineno)
                      if bad else setter.node.lineno)
            # ---- constructor
            if init is None or stored_expr is None:
                continue
            ip = [p for p in init.params()[1:]]
            if prop not in ip:
                rep.inconclusive('C20.init', site, '__init__',
                                 f'no constructor parameter named {prop}')
                continue
            istores = [a for a in ast.walk(init.node) if isinstance(
                a, (ast.Assign, ast.AnnAssign)) and any(
                    norm(t) in (f'self.{backing}', f'self.{prop}')
                    for t in (a.targets if isinstance(a, ast.Assign)
                              else [a.target]))]
            if len(istores) != 1:
                rep.inconclusive('C20.init', site, '__init__',
                                 f'{len(istores)} stores of {backing}')
                continue
            from rules.evrules import beta_reduce
            iv = beta_reduce(program, c, istores[0].value)
            via_setter = any(norm(t) == f'self.{prop}' for t in (
                istores[0].targets if isinstance(istores[0], ast.Assign)
                else [istores[0].target]))
            reducing = stored_expr != vp
            if reducing and not via_setter:
                want = _subst(stored_expr, vp, prop)
                rep.check(norm(iv) == want, 'C20.init', site, istores[0],
                          'the constructor reduces its argument like the '
                          'setter does',
                          f'the setter stores {stored_expr} but the '
                          f'constructor stores {norm(iv)}: a value given at '
                          'construction is not stored the same way',
                          line=istores[0].lineno)
            else:
                rep.ok('C20.init', site, istores[0], 'no reducing function '
                       'to mirror (or the constructor uses the setter)',
                       line=istores[0].lineno, nontrivial=False)
            # "not given" is decided by identity (is None), never by the
            # truth value of the argument: a falsy value that was GIVEN (an
            # empty sequence, a vector type whose zero is false) must be
            # stored like the setter stores it
            truthy = None
            for x in ast.walk(init.node):
                if isinstance(x, ast.BoolOp) and isinstance(x.op, ast.Or) \
                        and isinstance(x.values[0], ast.Name) \
                        and x.values[0].id == prop:
                    truthy = x
                if isinstance(x, (ast.If, ast.IfExp)):
                    t_ = x.test
                    if isinstance(t_, ast.UnaryOp) and isinstance(
                            t_.op, ast.Not):
                        t_ = t_.operand
                    if isinstance(t_, ast.Name) and t_.id == prop:
                        truthy = x.test
            if truthy is not None:
                rep.bad('C20.init', site, truthy,
                        f'the constructor decides whether `{prop}` was given '
                        f'by its truth value ({norm(truthy)}): a falsy value '
                        'that was given - an empty sequence, a vector object '
                        'whose zero is false - is replaced by the default, '
                        'while the same value assigned to the property is '
                        'stored as it is', line=truthy.lineno)
            # defaults not shared
            a = init.node.args
            defaults = dict(zip([x.arg for x in reversed(a.args)],
                                reversed(a.defaults)))
            d = defaults.get(prop)
            if d is not None and not isinstance(d, ast.Constant):
                bare = isinstance(iv, ast.Name) and iv.id == prop
                immut = False
                if isinstance(d, ast.Call):
                    cls_ = program.lookup_class(c.module, dotted(d.func))
                    if cls_ is not None and any(
                            'tuple' in e for e in cls_.ext_bases):
                        immut = True
                rep.check(not bare or immut, 'C20.init', site, istores[0],
                          'the default value object is not shared mutable '
                          'state between instances',
                          'a mutable default argument is stored uncopied: '
                          'instances created without that argument share one '
                          'object', line=istores[0].lineno)
    rep.floor('C20.same-value', 'property setters analysed', n_set, 6)
    # no method the transforms inherit re-runs `self.__init__()`: on a transform
    # that is the transform's constructor with all-default arguments - the
    # stored position / rotation / scale are replaced without any notification
    for c in program.classes_named('EventDispatcher') if hasattr(
            program, 'classes_named') else [program.cls('EventDispatcher')]:
        for m in c.methods.values():
            if m.name in ('__init__', '__new__'):
                continue
            for n in ast.walk(m.node):
                if isinstance(n, ast.Call) and isinstance(
                        n.func, ast.Attribute) and n.func.attr == '__init__' \
                        and (dotted(n.func.value) == 'self' or norm(
                            n.func.value) in ('type(self)', 'self.__class__')):
                    rep.bad('C20.same-value', m.where, n,
                            f'{m.qualname} re-runs the constructor of the '
                            'object\'s own class: on a Transform2D / '
                            'Transform3D the stored position, rotation and '
                            'scale are silently replaced by the defaults - a '
                            'read no longer returns the value that was '
                            'assigned and announced', line=n.lineno)
    # listeners of one event must not be subscribed to the others through the
    # decorator leaking a subclass's events into its base class (C03.mapping)
    from rules import c03
    n0 = len(rep.obs)
    c03.check_mapping(program, rep)
    c03.check_fresh_sets(program, rep)
    for o in rep.obs[n0:]:
        o.rule = 'C20.cross-talk'
    # each listener exactly once: registration is idempotent (C03.idempotent)
    from rules import evrules
    rep.borrow(evrules.delivery_sites, program, rep, 'C03',
               {'deliver', 'snapshot', 'deref'},
               keep=lambda o: o.rule in ('C03.deliver', 'C03.snapshot',
                                         'C03.deref'),
               rename=lambda r: 'C20.once',
               why='not every listener of the transform is notified')
    # ... registered under the events the LISTENER maps (its own __events__,
    # which an instance may extend or restrict), with what removal looks for
    rep.borrow(c03.check_tables, program, rep,
               keep=lambda o: o.rule == 'C03.tables'
               and o.site.endswith('add_handler'),
               rename=lambda r: 'C20.once',
               why='a listener of the transform is registered for other '
               'events than the ones it maps: it is not told about an '
               'assignment it listens to, or told about others')
    from rules import c04
    rep.borrow(c04.check_release, program, rep,
               keep=lambda o: o.rule.startswith('C04.'),
               rename=lambda r: 'C20.released-' + r.split('.')[1],
               why='notifications held back while dispatching was disabled '
               'do not arrive once each, in assignment order (the last value '
               'a listener is told is not the one the property reads)')
    rep.borrow(c03.check_tables, program, rep,
               keep=lambda o: o.rule == 'C03.idempotent',
               rename=lambda r: 'C20.once',
               why='a listener added twice to a transform is notified twice '
               'per assignment')
    from rules import c13
    c13.instance_state(program, rep, 'C20.instances')

