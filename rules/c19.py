"""C19 - controllers, references and prototypes are faithful shorthands."""
import ast

from dlint.model import AnalysisError, dotted, norm, strip_docstring

EXPLANATION = (
    'Static forwarding rules over desper/logic/__init__.py. forwarders: each '
    'of the six module-level shorthands is a single unconditional call of the '
    'like-named World method (delete -> delete_entity) on controller.world '
    'with controller.entity first and the remaining parameters in order, '
    'returning the result where the World method returns one; Controller '
    'binds the six names to these functions. on_add: Controller is decorated '
    'as a handler of on_add and stores entity -> self.entity, world -> '
    'self.world. refs: the descriptor methods of ComponentReference / '
    'ProcessorReference are, apart from assertions, exactly one call of the '
    'corresponding query / add / remove with the stored type. prototype: '
    '__iter__ yields one product per entry of component_types in order, and '
    'the initialiser chosen - evaluated abstractly for the four combinations '
    'of "type in init_methods" x "init_<prefix><name> defined" - is '
    'init_methods[T], else the prefixed method, else _default_init, applied '
    'to T; _default_init calls T(). update: OnUpdateProcessor.process is one '
    'unconditional dispatch of on_update with the unmodified dt.')
RULE = 'one obligation per (rule, function)'
NOT_DECIDED = ['behaviour of the World calls themselves (C01-C07)']
ASSUMPTIONS = []

FORWARD = {'add_component': ('add_component', False),
           'remove_component': ('remove_component', True),
           'has_component': ('has_component', True),
           'get_component': ('get_component', True),
           'get_components': ('get_components', True),
           'delete': ('delete_entity', False)}


PROGRAM = [None]


def _assert_only_call(f, s):
    """`helper(..)` statement whose helper consists of assertions only."""
    if not (isinstance(s, ast.Expr) and isinstance(s.value, ast.Call)):
        return False
    d = dotted(s.value.func) or ''
    program = PROGRAM[0]
    g = None
    r = program.lookup(f.module, d) if program else None
    if r and r[0] == 'func':
        g = r[1]
    elif d.startswith('self.') and f.cls is not None and d.count('.') == 1:
        g = program.resolve_method(f.cls, d.split('.')[1])
    if g is None:
        return False
    body = strip_docstring(g.node.body)
    return bool(body) and all(isinstance(x, ast.Assert) for x in body)


def _body(f):
    return [s for s in strip_docstring(f.node.body)
            if not isinstance(s, ast.Assert) and not _assert_only_call(f, s)]


def _stores(fnode):
    """{target text: value text} for (tuple) assignments in a function."""
    out = {}
    for a in ast.walk(fnode):
        if not isinstance(a, ast.Assign):
            continue
        for t in a.targets:
            if isinstance(t, (ast.Tuple, ast.List)) and isinstance(
                    a.value, (ast.Tuple, ast.List)) and len(t.elts) == len(
                        a.value.elts):
                for x, y in zip(t.elts, a.value.elts):
                    out[norm(x)] = norm(y)
            else:
                out[norm(t)] = norm(a.value)
    return out


def check_forwarders(program, rep):
    mod = 'desper.logic'
    for name, (target, must_return) in FORWARD.items():
        f = program.func(mod, name)
        ps = f.params()
        body = _body(f)
        ok = False
        why = 'the shorthand is not a single call statement'
        if len(body) == 1 and isinstance(body[0], (ast.Return, ast.Expr)) \
                and isinstance(body[0].value, ast.Call):
            from rules.evrules import beta_reduce

            class _M:
                module = f.module
            c = beta_reduce(program, _M, body[0].value)
            if not isinstance(c, ast.Call):
                c = body[0].value
            want_f = f'{ps[0]}.world.{target}'
            want_a = [f'{ps[0]}.entity'] + ps[1:]
            got_a = [norm(a) for a in c.args] + [
                f'{k.arg}={norm(k.value)}' for k in c.keywords]
            kw_ok = [norm(a) for a in c.args] + [norm(k.value)
                                                 for k in c.keywords]
            names_ok = all(k.arg == ps[1:][i + len(c.args) - 1]
                           for i, k in enumerate(c.keywords)) if c.keywords \
                else True
            if norm(c.func) != want_f:
                why = (f'{name}() calls {norm(c.func)}, not {want_f}')
            elif kw_ok != want_a or not names_ok:
                why = (f'{name}() passes ({", ".join(got_a)}); the World call '
                       f'it abbreviates takes ({", ".join(want_a)})')
            elif must_return and not isinstance(body[0], ast.Return):
                why = f'{name}() drops the result of the World call'
            else:
                ok = True
        rep.check(ok, 'C19.forwarders', f.where, body[0] if body else name,
                  f'{name}(controller, ...) == controller.world.{target}('
                  'controller.entity, ...)', why, line=f.node.lineno)
    ctl = program.cls('Controller')
    for name in FORWARD:
        v = ctl.attrs.get(name)
        rep.check(v is not None and norm(v) == name, 'C19.forwarders',
                  f'{ctl.module.relpath}:Controller', f'{name} = {name}',
                  'Controller exposes the shorthand as a method',
                  f'Controller.{name} is not bound to the module-level '
                  f'shorthand {name}', line=ctl.node.lineno)


def check_on_add(program, rep):
    ctl = program.cls('Controller')
    site = f'{ctl.module.relpath}:Controller'
    dec = any(isinstance(d, ast.Call) and (dotted(d.func) or '').endswith(
        'event_handler') and any(isinstance(a, ast.Constant) and a.value
                                 == 'on_add' for a in d.args)
        for d in ctl.decorators)
    rep.check(dec, 'C19.on_add', site, "@event_handler('on_add')",
              'Controller listens to on_add',
              'Controller is not decorated as a handler of on_add: it never '
              'learns its entity and world', line=ctl.node.lineno)
    f = ctl.methods.get('on_add')
    ok = False
    if f is not None:
        ps = f.params()
        sets = _stores(f.node)
        ok = len(ps) == 3 and ps[1:] == ['entity', 'world'] and sets.get(
            'self.entity') == 'entity' and sets.get('self.world') == 'world'
    rep.check(ok, 'C19.on_add', site, 'def on_add(self, entity, world)',
              'on_add records the owner entity and its world',
              'on_add does not store entity -> self.entity and world -> '
              'self.world (parameters swapped or dropped)',
              line=f.node.lineno if f else ctl.node.lineno)


def check_owner_writers(program, rep):
    """Only on_add tells a controller its entity / world."""
    ctl = program.cls('Controller')
    n = 0
    for c in [ctl] + program.subclasses(ctl):
        for m in c.methods.values():
            for s in ast.walk(m.node):
                if isinstance(s, ast.Assign):
                    tg = [t for tt in s.targets for t in (
                        tt.elts if isinstance(tt, ast.Tuple) else [tt])]
                elif isinstance(s, (ast.AugAssign, ast.AnnAssign)):
                    tg = [s.target]
                elif isinstance(s, ast.Delete):
                    tg = s.targets
                else:
                    continue
                for t in tg:
                    if isinstance(t, ast.Attribute) and isinstance(
                            t.value, ast.Name) and t.value.id == 'self' \
                            and t.attr in ('entity', 'world'):
                        n += 1
                        rep.check(m.name == 'on_add', 'C19.owner', m.where, s,
                                  'the owner is recorded by on_add',
                                  f'{m.qualname} overwrites the recorded '
                                  f'{t.attr}: a controller that is still '
                                  'attached (re-used in another world under '
                                  'an equal id, re-added ...) forgets its '
                                  'owner and every shorthand through it '
                                  'fails', line=s.lineno)
    rep.floor('C19.owner', 'stores of Controller.entity / .world', n, 2)


def check_refs(program, rep):
    spec = {
        'ComponentReference': {
            '__get__': (True, ['get_component(obj, self.component_type)',
                               'obj.world.get_component(obj.entity, '
                               'self.component_type)']),
            '__set__': (False, ['add_component(obj, value)',
                                'obj.world.add_component(obj.entity, value)']),
            '__delete__': (False, ['remove_component(obj, self.component_type)',
                                   'obj.world.remove_component(obj.entity, '
                                   'self.component_type)'])},
        'ProcessorReference': {
            '__get__': (True, ['obj.world.get_processor(self.processor_type)']),
            '__set__': (False, ['obj.world.add_processor(value)']),
            '__delete__': (False, ['obj.world.remove_processor('
                                   'self.processor_type)'])},
    }
    for cname, methods in spec.items():
        c = program.cls(cname)
        init = c.methods.get('__init__')
        tname = 'component_type' if cname == 'ComponentReference' \
            else 'processor_type'
        if init is not None:
            sets = {norm(t): norm(a.value) for a in ast.walk(init.node)
                    if isinstance(a, ast.Assign) for t in a.targets}
            rep.check(sets.get(f'self.{tname}') == tname, 'C19.refs',
                      init.where, f'self.{tname} = {tname}',
                      'the reference remembers its type',
                      'the reference does not store the type it was given',
                      line=init.node.lineno)
        for mname, (ret, wants) in methods.items():
            f = c.methods.get(mname)
            if f is None:
                rep.inconclusive('C19.refs', f'{c.module.relpath}:{cname}',
                                 mname, 'descriptor method missing')
                continue
            ps = f.params()
            body = _body(f)
            # `if obj is None: return self` first: Python hands None to
            # __get__ only for access through the owner CLASS (no instance is
            # involved); an identity test cannot be fooled by the instance's
            # dunders. A truthiness test (`if not obj`) would treat a falsy
            # controller - an empty container - as "no instance".
            if mname == '__get__' and len(body) >= 2 and isinstance(
                    body[0], ast.If) and not body[0].orelse and len(
                        body[0].body) == 1 and isinstance(
                            body[0].body[0], ast.Return) \
                    and norm(body[0].body[0].value) == ps[0] \
                    and norm(body[0].test) == f'{ps[1]} is None':
                body = body[1:]
            ok = False
            why = ('the descriptor method is not (apart from assertions) a '
                   'single call')
            if len(body) == 1 and isinstance(body[0], (ast.Return, ast.Expr)) \
                    and isinstance(body[0].value, ast.Call):
                got = norm(body[0].value)
                # normalise parameter names to obj / value
                ren = {ps[1]: 'obj'}
                if len(ps) > 2 and mname == '__set__':
                    ren[ps[2]] = 'value'

                class R(ast.NodeTransformer):
                    def visit_Name(self, n):
                        return ast.Name(ren.get(n.id, n.id), n.ctx)
                got = norm(R().visit(ast.parse(got, mode='eval').body))
                if got not in wants:
                    why = (f'{cname}.{mname} performs {got}; it must be '
                           f'exactly {wants[0]}')
                elif ret and not isinstance(body[0], ast.Return):
                    why = f'{cname}.{mname} drops the result'
                else:
                    ok = True
            elif len(body) > 1:
                why = (f'{cname}.{mname} does more than the World call it '
                       'abbreviates (' + '; '.join(norm(s) for s in body)[:160]
                       + '): its effect differs from that call')
            rep.check(ok, 'C19.refs', f.where, body[0] if body else mname,
                      f'{cname}.{mname} is exactly {wants[0]}', why,
                      line=f.node.lineno)


SRC_M, SRC_A, SRC_D, NONE = 'init_methods[T]', 'prefixed method', \
    '_default_init', 'None'


def _helper_return(call):
    """For `helper(args)` with helper a private in-repo function whose
    paths all return the same canonical expression: that expression with the
    parameters replaced by the arguments; else None."""
    program = PROGRAM[0]
    d = dotted(call.func) or ''
    if program is None or call.keywords:
        return None
    mod = program.modules.get('desper.logic')
    g = None
    skip = 0
    r = program.lookup(mod, d) if mod else None
    if r and r[0] == 'func' and d.split('.')[-1].startswith('_'):
        g = r[1]
    elif d.startswith('self._') and d.count('.') == 1:
        g = program.resolve_method(program.cls('Prototype'), d.split('.')[1])
        skip = 1
    if g is None:
        return None
    from dlint.walk import Walker, Domain

    class D(Domain):
        def resolve_call(self, st, c, walker):
            return walker.resolve_helper(st, c)
    exits = [e for e in Walker(program, D(program)).run(g, g.cls)
             if e.kind != 'raise']
    texts = {e.payload.text for e in exits if e.kind == 'return'
             and e.payload is not None}
    if len(texts) != 1 or len(exits) != 1:
        return None
    params = g.params()[skip:]
    if len(params) != len(call.args):
        return None
    m = dict(zip(params, call.args))
    import copy

    class R(ast.NodeTransformer):
        def visit_Name(self, n):
            return copy.deepcopy(m[n.id]) if n.id in m else n
    return R().visit(ast.parse(texts.pop(), mode='eval').body)


TRUTHY = []


class _ProtoEval:
    def __init__(self, T, in_methods, has_attr, env):
        self.T, self.inm, self.has, self.env = T, in_methods, has_attr, env

    def name_ok(self, n):
        t = norm(n)
        return t in (f"f'{{self.init_prefix}}{{{self.T}.__name__}}'",
                     f'self.init_prefix + {self.T}.__name__',
                     f"'%s%s' % (self.init_prefix, {self.T}.__name__)",
                     f"'{{}}{{}}'.format(self.init_prefix, {self.T}.__name__)")

    def ev(self, n):
        if isinstance(n, ast.Name) and n.id in self.env:
            return self.ev(self.env[n.id])
        if isinstance(n, ast.Constant) and n.value is None:
            return NONE
        t = norm(n)
        if t == 'self._default_init':
            return SRC_D
        if isinstance(n, ast.Subscript) and norm(n.value) == \
                'self.init_methods' and norm(n.slice) == self.T:
            return SRC_M
        if isinstance(n, ast.Call):
            h = _helper_return(n)
            if h is not None:
                return self.ev(h)
            hb = self._helper_body(n)
            if hb is not None:
                return self._exec_helper(hb)
            f = norm(n.func)
            if f == 'self.init_methods.get' and n.args and norm(
                    n.args[0]) == self.T:
                if self.inm:
                    return SRC_M
                return self.ev(n.args[1]) if len(n.args) > 1 else NONE
            if f == 'getattr' and len(n.args) >= 2 and norm(
                    n.args[0]) == 'self' and self.name_ok(n.args[1]):
                if self.has:
                    return SRC_A
                if len(n.args) > 2:
                    return self.ev(n.args[2])
                raise AnalysisError('getattr without default')
        if isinstance(n, ast.BoolOp) and isinstance(n.op, ast.Or):
            for v in n.values:
                r = self.ev(v)
                if r != NONE:
                    return r
            return NONE
        if isinstance(n, ast.IfExp):
            return self.ev(n.body if self.cond(n.test) else n.orelse)
        raise AnalysisError(f'initialiser expression {t} not understood')

    def _helper_body(self, call):
        """Body of a private method of Prototype called as self._m(args), its
        parameters replaced by the arguments and its aliases of attributes of
        self (`tab = self.init_methods`) written out."""
        import copy
        program = PROGRAM[0]
        d = dotted(call.func) or ''
        if program is None or call.keywords or not (
                d.startswith('self._') and d.count('.') == 1):
            return None
        g = program.resolve_method(program.cls('Prototype'), d.split('.')[1])
        if g is None or len(g.params()) - 1 != len(call.args) or any(
                isinstance(x, (ast.Yield, ast.YieldFrom, ast.For, ast.While,
                               ast.Try, ast.With)) for x in ast.walk(g.node)):
            return None
        m = dict(zip(g.params()[1:], call.args))
        body = []
        for st in _body(g):
            if isinstance(st, ast.Assign) and len(st.targets) == 1 \
                    and isinstance(st.targets[0], ast.Name) and isinstance(
                        st.value, ast.Attribute) and norm(
                            st.value.value) == 'self':
                m[st.targets[0].id] = st.value
                continue

            class R(ast.NodeTransformer):
                def visit_Name(self, x):
                    return copy.deepcopy(m[x.id]) if x.id in m and \
                        isinstance(x.ctx, ast.Load) else x
            body.append(R().visit(copy.deepcopy(st)))
        return body

    def _exec_helper(self, stmts):
        for st in stmts:
            if isinstance(st, ast.Return) and st.value is not None:
                return self.ev(st.value)
            if isinstance(st, ast.If):
                r = self._exec_helper(st.body if self.cond(st.test)
                                      else st.orelse)
                if r is not None:
                    return r
            elif isinstance(st, ast.Assign) and len(st.targets) == 1 \
                    and isinstance(st.targets[0], ast.Name):
                self.env[st.targets[0].id] = st.value
            elif isinstance(st, (ast.Pass, ast.Assert)):
                pass
            elif isinstance(st, ast.Expr) and isinstance(
                    st.value, ast.Constant):
                pass
            else:
                raise AnalysisError(f'statement {norm(st)} of the helper '
                                    'not understood')
        return None

    def cond(self, n):
        if isinstance(n, ast.UnaryOp) and isinstance(n.op, ast.Not):
            return not self.cond(n.operand)
        if isinstance(n, ast.BoolOp):
            vals = [self.cond(v) for v in n.values]
            return all(vals) if isinstance(n.op, ast.And) else any(vals)
        if isinstance(n, ast.Compare) and len(n.ops) == 1:
            l, op, r = n.left, n.ops[0], n.comparators[0]
            if isinstance(op, (ast.In, ast.NotIn)) and norm(l) == self.T \
                    and norm(r) == 'self.init_methods':
                return self.inm if isinstance(op, ast.In) else not self.inm
            if isinstance(op, (ast.Is, ast.IsNot)) and isinstance(
                    r, ast.Constant) and r.value is None:
                v = self.ev(l) == NONE
                return v if isinstance(op, ast.Is) else not v
        if isinstance(n, ast.Call) and norm(n.func) == 'hasattr' and len(
                n.args) == 2 and norm(n.args[0]) == 'self' \
                and self.name_ok(n.args[1]):
            return self.has
        r = self.ev(n)
        if r == SRC_M:
            # an entry of init_methods decided by its truth value
            TRUTHY.append(n)
        return r != NONE

    def run(self, stmts):
        """Execute a straight-line / if-structured body abstractly; return
        the list of (source, arg text) yielded/appended."""
        out = []
        for s in stmts:
            if isinstance(s, ast.Assign) and len(s.targets) == 1 \
                    and isinstance(s.targets[0], ast.Name):
                self.env[s.targets[0].id] = s.value
            elif isinstance(s, ast.If):
                out += self.run(s.body if self.cond(s.test) else s.orelse)
            elif isinstance(s, ast.Expr) and isinstance(
                    s.value, (ast.Yield, ast.Call)):
                v = s.value.value if isinstance(s.value, ast.Yield) else (
                    s.value.args[0] if isinstance(s.value.func, ast.Attribute)
                    and s.value.func.attr == 'append' and s.value.args
                    else None)
                if v is None:
                    raise AnalysisError(f'statement {norm(s)}')
                out.append(self.product(v))
            elif isinstance(s, ast.Pass):
                pass
            else:
                raise AnalysisError(f'statement {norm(s)} not understood')
        return out

    def product(self, v):
        if isinstance(v, ast.Name) and v.id in self.env:
            v = self.env[v.id]
        if isinstance(v, ast.Call):
            # the whole construction moved into a private helper
            h = _helper_return(v)
            if h is not None:
                v = h
        if not (isinstance(v, ast.Call) and len(v.args) == 1
                and not v.keywords):
            raise AnalysisError(f'product {norm(v)} is not init(T)')
        return self.ev(v.func), norm(v.args[0])


def check_prototype(program, rep):
    del TRUTHY[:]
    p = program.cls('Prototype')
    f = p.methods.get('__iter__')
    site = f.where
    muts = []
    for m in p.methods.values():
        for n in ast.walk(m.node):
            if isinstance(n, ast.Call) and isinstance(n.func, ast.Attribute) \
                    and norm(n.func.value) == 'self.init_methods' \
                    and n.func.attr in ('setdefault', 'update', 'pop',
                                        'clear', 'popitem', '__setitem__'):
                muts.append(n)
            if isinstance(n, (ast.Assign, ast.AugAssign, ast.Delete)):
                tg = n.targets if isinstance(n, (ast.Assign, ast.Delete)) \
                    else [n.target]
                for t in tg:
                    if isinstance(t, ast.Subscript) and norm(t.value) == \
                            'self.init_methods':
                        muts.append(n)
    rep.check(not muts, 'C19.prototype', site,
              muts[0] if muts else 'self.init_methods is only read',
              'iterating a prototype does not write the (class-level, '
              'shared) init_methods mapping',
              'iterating a prototype writes into init_methods, a class-level '
              'dict shared by every instance and subclass: the initialiser '
              "bound to the first instance is reused for later instances' "
              'components', line=getattr(muts[0], 'lineno', f.node.lineno)
              if muts else f.node.lineno)
    # an initialiser taken from init_methods runs outside any KeyError handler
    # (a `try: return self.init_methods[T](T) / except KeyError:` also swallows
    # a KeyError raised INSIDE the initialiser and silently falls back)
    swallowed = None
    for m in p.methods.values():
        for t in ast.walk(m.node):
            if not isinstance(t, ast.Try):
                continue
            catches = any(h.type is None or (dotted(h.type) or '').split(
                '.')[-1] in ('KeyError', 'LookupError', 'Exception',
                             'BaseException') for h in t.handlers)
            if not catches:
                continue
            for s_ in t.body:
                for c in ast.walk(s_):
                    if isinstance(c, ast.Call) and isinstance(
                            c.func, ast.Subscript) and norm(
                                c.func.value) == 'self.init_methods':
                        swallowed = swallowed or c
    rep.check(swallowed is None, 'C19.prototype', site,
              swallowed if swallowed is not None else 'initialiser call',
              'the initialiser found in init_methods is not called inside a '
              'KeyError handler',
              'the initialiser looked up in init_methods is CALLED inside '
              'the try whose KeyError handler implements the fallback: a '
              'KeyError raised by the initialiser itself is swallowed and the '
              'component is silently built by a lower-priority source',
              line=getattr(swallowed, 'lineno', f.node.lineno))
    body = _body(f)
    # the products may be built by a private generator function of the
    # module: `return _make(self, iter(self.component_types))` is read as the
    # body of _make with its parameters replaced by the arguments
    if len(body) == 1 and isinstance(body[0], ast.Return) and isinstance(
            body[0].value, ast.Call) and isinstance(
                body[0].value.func, ast.Name):
        import copy
        call = body[0].value
        r = program.lookup(f.module, call.func.id)
        if r and r[0] == 'func' and call.func.id.startswith('_') \
                and not call.keywords and len(call.args) == len(
                    r[1].params()) and any(isinstance(x, (ast.Yield,
                                                          ast.YieldFrom))
                                           for x in ast.walk(r[1].node)):
            args = []
            for a_ in call.args:
                if isinstance(a_, ast.Call) and norm(a_.func) in (
                        'iter', 'tuple', 'list') and len(a_.args) == 1:
                    a_ = a_.args[0]
                args.append(a_)
            m_ = dict(zip(r[1].params(), args))

            class _S(ast.NodeTransformer):
                def visit_Name(self, x):
                    return copy.deepcopy(m_[x.id]) if x.id in m_ and \
                        isinstance(x.ctx, ast.Load) else x
            body = [_S().visit(copy.deepcopy(s)) for s in _body(r[1])]
    scen = [(a, b) for a in (False, True) for b in (False, True)]
    results = []
    order_ok = False
    try:
        gen = None
        if len(body) == 1 and isinstance(body[0], ast.Return):
            v = body[0].value
            if isinstance(v, ast.Call) and norm(v.func) in ('iter', 'tuple',
                                                            'list') \
                    and len(v.args) == 1:
                v = v.args[0]
            if isinstance(v, (ast.GeneratorExp, ast.ListComp)) and len(
                    v.generators) == 1 and not v.generators[0].ifs:
                gen = v
            if isinstance(v, ast.Call) and dotted(v.func) in (
                    'map', 'itertools.starmap', 'starmap') and v.args:
                # the initialisers run user code: in a generator (PEP 479) a
                # StopIteration escaping one becomes RuntimeError; map() lets
                # it through, and list() / *unpacking take it for the end
                rep.bad('C19.prototype', f.where, v,
                        f'`{norm(v)[:60]}` builds the components inside '
                        'map(): a StopIteration escaping an initialiser '
                        '(e.g. `next()` on an exhausted supply) ends the '
                        'iteration silently - create_entity(*prototype) '
                        'builds a truncated entity instead of failing',
                        line=v.lineno)
                return
        if gen is not None:
            T = norm(gen.generators[0].target)
            order_ok = norm(gen.generators[0].iter) == 'self.component_types'
            for inm, has in scen:
                results.append(((inm, has), [_ProtoEval(
                    T, inm, has, {}).product(gen.elt)]))
        else:
            loops = [s for s in body if isinstance(s, ast.For)]
            if len(loops) != 1:
                raise AnalysisError('__iter__ is neither a generator '
                                    'expression over component_types nor a '
                                    'single loop')
            lp = loops[0]
            T = norm(lp.target)
            order_ok = norm(lp.iter) == 'self.component_types'
            for inm, has in scen:
                results.append(((inm, has), _ProtoEval(T, inm, has, {}).run(
                    lp.body)))
    except AnalysisError as ex:
        rep.inconclusive('C19.prototype', site, f.node.name, str(ex),
                         line=f.node.lineno)
        return
    if TRUTHY:
        rep.bad('C19.prototype', site, TRUTHY[0],
                f'`{norm(TRUTHY[0])[:80]}`: whether init_methods has an entry '
                'for the type is decided by the truth value of the entry - an '
                'initialiser that is callable but falsy (a pool or registry '
                'object with __len__ / __bool__) is taken for missing and the '
                'component is built by init_<Name> or the default constructor',
                line=getattr(TRUTHY[0], 'lineno', f.node.lineno))
        del TRUTHY[:]
        return
    rep.check(order_ok, 'C19.prototype', site, 'for T in self.component_types',
              'one product per listed type, in order',
              '__iter__ does not iterate self.component_types in order',
              line=f.node.lineno)
    bad = None
    for (inm, has), prods in results:
        want = SRC_M if inm else (SRC_A if has else SRC_D)
        if len(prods) != 1 or prods[0][0] != want or prods[0][1] != T:
            bad = ((inm, has), prods, want)
            break
    rep.check(bad is None, 'C19.prototype', site, '__iter__: initialiser '
              'lookup',
              'init_methods[T] wins over init_<prefix><T.__name__>, which '
              'wins over the default constructor; each applied to T '
              '(4 combinations evaluated)',
              (f'when the type {"is" if bad[0][0] else "is not"} in '
               f'init_methods and the prefixed method '
               f'{"exists" if bad[0][1] else "does not exist"} the component '
               f'is built by {bad[1]}, expected {bad[2]}(T)') if bad else '',
              line=f.node.lineno)
    d = p.methods.get('_default_init')
    body = _body(d) if d else []
    ok = d is not None and len(body) == 1 and isinstance(
        body[0], ast.Return) and norm(body[0].value) == f'{d.params()[1]}()'
    rep.check(ok, 'C19.prototype', d.where if d else site, '_default_init',
              'the default initialiser calls the type without arguments',
              '_default_init does not return component_type()',
              line=d.node.lineno if d else None)


def check_update(program, rep):
    c = program.cls('OnUpdateProcessor')
    f = c.methods.get('process')
    body = _body(f)
    dt = f.params()[1]
    ok = len(body) == 1 and isinstance(body[0], ast.Expr) and norm(
        body[0].value) in (f'self.world.dispatch(ON_UPDATE_EVENT_NAME, {dt})',
                           f"self.world.dispatch('on_update', {dt})")
    const_ok = program.const_value(c.module, 'ON_UPDATE_EVENT_NAME') == \
        'on_update'
    rep.check(ok and const_ok, 'C19.update', f.where,
              body[0] if body else 'process',
              'each frame relays its dt once, unconditionally, as on_update',
              'OnUpdateProcessor.process is not a single unconditional '
              'dispatch of on_update with the frame\'s dt (frames with some '
              'dt values are dropped, or the value is altered)',
              line=f.node.lineno)


def check_update_world(program, rep):
    """The relay goes through self.world: add_processor must leave the
    processor knowing its world on every history (C07's rule, reused)."""
    from . import c07
    got = rep.borrow(c07.check_add_processor, program, rep,
                     keep=lambda o: o.rule == 'C07.protocol',
                     rename=lambda r: 'C19.update-world',
                     why='OnUpdateProcessor relays through self.world')
    rep.floor('C19.update-world', 'world hand-over checks of add_processor',
              len(got), 2)


def run(program, rep, tier):
    PROGRAM[0] = program
    check_forwarders(program, rep)
    check_on_add(program, rep)
    check_owner_writers(program, rep)
    check_refs(program, rep)
    check_prototype(program, rep)
    check_update(program, rep)
    check_update_world(program, rep)
    # a controller learns (entity, world) from the on_add it is sent EVERY time
    # it is attached - the attach protocol of World (C02): one notification
    # per attach for a handler that maps on_add, also when it was attached (or
    # registered) before
    from rules import lifecycle
    out = lifecycle.analyse_world(program, rep, 'C19', None, 'C19')
    n_att = 0
    for (rule, fn, text, line, kind, table), r in sorted(
            out['results'].items(), key=lambda kv: (kv[0][1], kv[0][3] or 0)):
        if rule != 'protocol' or kind != 'attach' \
                or table != 'self._entities':
            continue
        n_att += 1
        site = f'desper/logic/world.py:{fn}'
        if r['bad']:
            rep.bad('C19.on-add', site, text,
                    'a controller attached here is not told on_add on some '
                    'path: it keeps the entity / world of an earlier attach '
                    f'(or none), every shorthand acts on the wrong entity '
                    f'[{r["bad"][0]["why"]}]',
                    detail={'path': r['bad'][0]['path']}, line=line)
        else:
            rep.ok('C19.on-add', site, text, 'every attach of a handler that '
                   'maps on_add notifies it exactly once', line=line)
    rep.floor('C19.on-add', 'attach sites of components in World', n_att, 1)
    # Controller learns its entity through on_add, which it declares with
    # @event_handler: decorating a Controller subclass with further events must
    # not change what Controller (and its other subclasses) declare
    from rules import c03
    rep.borrow(c03.check_mapping, program, rep,
               keep=lambda o: o.rule == 'C03.mapping',
               rename=lambda r: 'C19.mapping',
               why='a plain Controller ends up declaring events of a decorated '
               'subclass: attaching it raises in add_handler after the '
               'component was stored, it never learns its entity and world')
