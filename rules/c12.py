"""C12 - a handle loads its resource at most once between clears."""
import ast

from dlint.model import AnalysisError, dotted, norm, strip_docstring
from dlint.walk import Domain, Walker

EXPLANATION = (
    'Static rules over Handle and every access path named in the statement. '
    'callers: who-may-call over the whole package - a zero-argument .load() '
    'call exists only as self.load() in Handle.__call__ and as super().load() '
    'inside a load override (with a synthetic positive proving the matcher). '
    'gate: on every path of Handle.__call__ (PathEval) load() runs only on '
    'the false edge of a test of the flag _cached (a test of the cached '
    'value is a violation), its result is stored in _cache, the flag is set '
    'true after the load, and _cache is returned. writers: _cached/_cache are '
    'written only by Handle.__call__ and Handle.clear; clear resets the flag '
    'on every path; `cached` returns the flag. paths: '
    'ResourceMap.__getitem__ calls the handle; StaticResourceMap.'
    '__getattribute__ calls the stored object for names in _handle_names and '
    '__getitem__ delegates to it; get_static_map stores the handle objects '
    'themselves and lists exactly the handle keys in _handle_names; no '
    'in-repo Handle subclass overrides __call__/clear/cached. switch: '
    'Loop.switch clears the handles its flags name.')
RULE = 'one obligation per (rule, function, statement)'
NOT_DECIDED = ['a load() that raises or recurses into its own handle']
ASSUMPTIONS = ['attribute lookup of _cached/_cache finds the class-level '
               'defaults until the instance writes them']


def _is_load_call(n):
    return (isinstance(n, ast.Call) and isinstance(n.func, ast.Attribute)
            and n.func.attr == 'load' and not n.args and not n.keywords)


class _D(Domain):
    def resolve_call(self, st, call, walker):
        # private helpers extracted from the analysed code are followed
        return walker.resolve_helper(st, call)


def check_memo(program, rep):
    """No function that reaches a resource through a map / handle parameter
    is memoised: the memo survives Handle.clear()."""
    from .util import memoised
    bad = None
    n = 0
    for fn, d in memoised(program):
        n += 1
        ps = set(fn.params())
        for x in ast.walk(fn.node):
            hit = None
            if isinstance(x, ast.Subscript) and isinstance(
                    x.value, ast.Name) and x.value.id in ps:
                hit = x
            if isinstance(x, ast.Call):
                f_ = x.func
                if isinstance(f_, ast.Name) and f_.id in ps:
                    hit = x
                if isinstance(f_, ast.Attribute) and isinstance(
                        f_.value, ast.Name) and f_.value.id in ps and \
                        f_.attr in ('get', '__getitem__', '__call__'):
                    hit = x
            if hit is not None and bad is None:
                bad = (fn, d, hit)
    rep.check(bad is None, 'C12.memo', bad[0].where if bad else
              'whole package', bad[1] if bad else 'functools memoisers',
              f'no memoised function resolves resources ({n} memoised '
              'function(s) in the package)',
              (f'{bad[0].qualname} is memoised and resolves a resource '
               f'({norm(bad[2])}): after handle.clear() callers keep getting '
               'the stale object - the access is not "the identical object '
               'handle() returns" and no fresh load happens on that path')
              if bad else '', line=bad[1].lineno if bad else None)


def run(program, rep, tier):
    check_memo(program, rep)
    H = program.cls('Handle')
    hsite = f'{H.module.relpath}:Handle'
    subs = program.subclasses(H)
    # ---- callers -------------------------------------------------------------
    probe = ast.parse('def f(h):\n    return h.load()\n')
    if sum(1 for n in ast.walk(probe) if _is_load_call(n)) != 1:
        rep.error('C12.callers: matcher self-test failed')
    n_ok = 0
    for f in program.all_functions():
        for n in ast.walk(f.node):
            if not _is_load_call(n):
                continue
            recv = norm(n.func.value)
            in_call = f.cls is H and f.name == '__call__' and recv == 'self'
            in_super = (recv == 'super()' and f.name == 'load'
                        and f.cls is not None and H in program.mro(f.cls))
            if in_call or in_super:
                n_ok += 1
                rep.ok('C12.callers', f.where, n, 'the cache gate / a load '
                       'override delegating to its base', line=n.lineno)
            else:
                rep.bad('C12.callers', f.where, n,
                        'load() is called outside Handle.__call__: this '
                        'access bypasses the cache, so the resource is loaded '
                        'again (and a different object is returned) on every '
                        'such access', line=n.lineno)
    rep.floor('C12.callers', 'self.load() in Handle.__call__', n_ok, 1)
    # ---- gate -------------------------------------------------------------------
    f = program.method('Handle', '__call__', inherited=False)
    w = Walker(program, _D(program))
    exits = w.run(f, H)
    rep.count('paths', len(exits))
    bad = None
    nload = 0
    for ex in exits:
        tr = ex.state.trace
        i_load = i_flag = i_cache = None
        flag_cond = None
        other_conds = []
        for i, e in enumerate(tr):
            if e.kind == 'cond':
                if e.sym.text == 'self._cached':
                    flag_cond = e.extra
                else:
                    other_conds.append(e)
            if e.kind == 'call' and _is_load_call(e.sym.node):
                i_load = i
            if e.kind == 'store' and e.target is not None:
                if e.target.text == 'self._cached':
                    i_flag = i
                    if not (isinstance(e.sym.node, ast.Constant)
                            and e.sym.node.value is True):
                        bad = bad or (e.node, '__call__ writes something '
                                      'other than True into the flag')
                if e.target.text == 'self._cache':
                    i_cache = i
                    if e.sym.text != 'self.load()':
                        bad = bad or (e.node, 'the cache is filled with '
                                      'something other than the result of '
                                      'load()')
        if other_conds:
            bad = bad or (other_conds[0].node,
                          f'__call__ decides on "{other_conds[0].sym.text}" '
                          'instead of the explicit flag: a resource that is '
                          'None / 0 / empty / has an unusual __eq__ is loaded '
                          'again on every access')
        if i_load is not None:
            nload += 1
            if flag_cond is not False:
                bad = bad or (tr[i_load].node, 'load() runs on a path that '
                              'has not found the flag unset')
            if i_flag is None or i_cache is None:
                bad = bad or (tr[i_load].node, 'after load() the result is '
                              'not cached or the flag is not set: the next '
                              'access loads again')
            elif i_flag < i_load:
                bad = bad or (tr[i_flag].node,
                              'the flag is set before load() runs: if load() '
                              'raises (or clears the handle) the handle '
                              'claims to be cached and later accesses return '
                              'None / a stale object')
        elif flag_cond is not True and ex.kind == 'return':
            bad = bad or (ex.node, 'a path returns without loading although '
                          'the flag was not found set')
        if ex.kind == 'return' and (ex.payload is None
                                    or ex.payload.text != 'self._cache'):
            bad = bad or (ex.node, '__call__ does not return the cached '
                          'object: accesses return different objects')
    # the cached VALUE is never inspected: whatever load() returned - None
    # included - is what every access returns
    for n_ in ast.walk(f.node):
        t_ = None
        if isinstance(n_, ast.Assert):
            t_ = n_.test
        elif isinstance(n_, ast.If) and any(isinstance(x, ast.Raise)
                                            for s in n_.body
                                            for x in ast.walk(s)):
            t_ = n_.test
        if t_ is not None and any(norm(x) == 'self._cache'
                                  for x in ast.walk(t_)):
            bad = bad or (n_, '__call__ raises depending on the cached value '
                          f'({norm(t_)}): a handle whose load() returns None '
                          '(or another rejected value) loads once and then '
                          'fails on every access instead of returning the '
                          'identical cached object')
    rep.floor('C12.gate', 'paths of __call__ that load', nload, 1)
    rep.check(bad is None, 'C12.gate', f.where,
              bad[0] if bad else 'if not self._cached: ...',
              'load() is dominated by the false edge of the flag test, then '
              'the result is cached, the flag set, and the cache returned',
              bad[1] if bad else '',
              line=getattr(bad[0], 'lineno', f.node.lineno) if bad else None)
    # ---- writers ------------------------------------------------------------------
    n_w = 0
    from .util import methods_of, called_only_from
    gate_only, _ = called_only_from(methods_of(program, H),
                                    {'__call__', 'clear'})
    for g in program.all_functions():
        for n in ast.walk(g.node):
            tg = []
            if isinstance(n, ast.Assign):
                tg = n.targets
            elif isinstance(n, (ast.AugAssign, ast.AnnAssign)):
                tg = [n.target]
            elif isinstance(n, ast.Call) and dotted(n.func) in (
                    'setattr', 'object.__setattr__') and len(n.args) >= 2 \
                    and isinstance(n.args[-2], ast.Constant) \
                    and n.args[-2].value in ('_cached', '_cache'):
                tg = [ast.Attribute(ast.Name('x', ast.Load()),
                                    n.args[-2].value, ast.Store())]
            flat = []
            for t in tg:
                flat.extend(t.elts if isinstance(t, (ast.Tuple, ast.List))
                            else [t])
            for t in flat:
                if isinstance(t, ast.Attribute) and t.attr in ('_cached',
                                                               '_cache'):
                    n_w += 1
                    ok = g.cls is H and g.name in gate_only
                    rep.check(ok, 'C12.writers', g.where, n,
                              'cache state written by __call__ / clear only',
                              'the cache flag/value of a handle is written '
                              'outside Handle.__call__ and Handle.clear',
                              line=n.lineno)
    rep.floor('C12.writers', 'writes of _cached/_cache', n_w, 4)
    cl = program.method('Handle', 'clear', inherited=False)
    w = Walker(program, _D(program))
    exits = w.run(cl, H)
    bad = None
    for ex in exits:
        sets = [e for e in ex.state.trace if e.kind == 'store'
                and e.target is not None and e.target.text == 'self._cached']
        if ex.kind == 'raise':
            continue
        v_ = sets[-1].sym.node if sets else None
        if isinstance(v_, ast.Attribute) and isinstance(v_.value, ast.Name):
            # Handle._cached: the class-level default, a constant
            c_ = program.lookup_class(cl.module, v_.value.id)
            if c_ is not None and isinstance(c_.attrs.get(v_.attr),
                                             ast.Constant):
                v_ = c_.attrs[v_.attr]
        if not sets and any(e.kind == 'cond' and e.sym is not None
                            and e.sym.text == 'self._cached'
                            and e.extra is False
                            for e in ex.state.trace):
            # the path was taken because the flag itself was read as
            # unset (`if not self._cached: return`): nothing to lower
            continue
        if not sets or not (isinstance(v_, ast.Constant)
                            and v_.value is False):
            bad = ex
    order_bad = None
    for ex in exits:
        tr = ex.state.trace
        i_flag = [i for i, e in enumerate(tr) if e.kind == 'store'
                  and e.target is not None
                  and e.target.text == 'self._cached']
        i_val = [i for i, e in enumerate(tr) if e.kind == 'store'
                 and e.target is not None and e.target.text == 'self._cache']
        if i_flag and i_val and min(i_val) < min(i_flag):
            order_bad = tr[min(i_val)]
    rep.check(order_bad is None, 'C12.writers', cl.where,
              order_bad.node if order_bad is not None
              else 'self._cached = False; self._cache = None',
              'clear() lowers the flag before it drops the value',
              'clear() drops the cached value before lowering the flag: an '
              'access made while the old value is finalised (re-entrancy) '
              'sees "cached" and gets None instead of a fresh load',
              line=cl.node.lineno)
    rep.check(bad is None, 'C12.writers', cl.where,
              bad.node if bad is not None and bad.node is not None
              else 'self._cached = False',
              'clear() unsets the flag on every path',
              'clear() has a path that leaves the flag set (e.g. decided on '
              'the cached value): for such a resource clear() is a no-op and '
              'the next access does not load afresh', line=cl.node.lineno)
    cp = program.method('Handle', 'cached', inherited=False)
    body = strip_docstring(cp.node.body)
    ok = len(body) == 1 and isinstance(body[0], ast.Return) and norm(
        body[0].value) == 'self._cached'
    rep.check(ok, 'C12.writers', cp.where, body[0] if body else 'cached',
              '`cached` reports the flag',
              '`cached` does not return the flag: it misreports falsy '
              'resources', line=cp.node.lineno)
    # ---- paths --------------------------------------------------------------------
    # the cache state is read only by the Handle itself
    for g in program.all_functions():
        if g.cls is H:
            continue
        for n in ast.walk(g.node):
            if isinstance(n, ast.Attribute) and n.attr in ('_cache',
                                                           '_cached') \
                    and isinstance(n.ctx, ast.Load):
                rep.bad('C12.paths', g.where, n,
                        'the cache state of a handle is read outside Handle: '
                        'this access path decides by itself (e.g. on the '
                        'truth value of the cached object) instead of going '
                        'through the handle call', line=n.lineno)
    # [] on a map reaches the handle call (the lookup plan of C11)
    from rules import c11
    n0 = len(rep.obs)
    c11.check_lookup(program, rep)
    for o in rep.obs[n0:]:
        o.rule = 'C12.paths'
    for s in subs:
        for nm in ('__call__', 'clear', 'cached'):
            if nm in s.methods:
                rep.bad('C12.paths', f'{s.module.relpath}:{s.name}.{nm}',
                        f'def {nm}', f'{s.name} overrides Handle.{nm}: the '
                        'cache discipline checked on Handle does not cover '
                        'it', line=s.methods[nm].node.lineno)
    rep.ok('C12.paths', hsite, 'subclasses of Handle',
           f'{len(subs)} in-repo subclass(es) inherit __call__/clear/cached'
           if not any(nm in s.methods for s in subs
                      for nm in ('__call__', 'clear', 'cached')) else
           'see violations')
    sm = program.cls('StaticResourceMap')
    ga = program.method('StaticResourceMap', '__getattribute__',
                        inherited=False)
    w = Walker(program, _D(program))
    exits = w.run(ga, sm)
    nm = ga.params()[1]
    bad = None
    seen = {True: 0, False: 0}
    for ex in exits:
        if ex.kind != 'return':
            continue
        conds = {e.sym.text: e.extra for e in ex.state.trace
                 if e.kind == 'cond'}
        key = f"{nm} in object.__getattribute__(self, '_handle_names')"
        v = conds.get(key)
        val = ex.payload.text if ex.payload else None
        raw = f'object.__getattribute__(self, {nm})'
        if v is True and val == raw + '()':
            seen[True] += 1
        elif v is False and val == raw:
            seen[False] += 1
        else:
            bad = ex
    rep.check(bad is None and seen[True] and seen[False], 'C12.paths',
              ga.where, bad.node if bad is not None else '__getattribute__',
              'attribute access calls the stored handle exactly for the names '
              'in _handle_names',
              'attribute access on a static map does not go through the '
              'handle call for exactly the handle names',
              line=ga.node.lineno)
    gi = program.method('StaticResourceMap', '__getitem__', inherited=False)
    body = strip_docstring(gi.node.body)
    k = gi.params()[1]
    ok = len(body) == 1 and isinstance(body[0], ast.Return) and norm(
        body[0].value) in (f'getattr(self, {k})',
                           f'self.__getattribute__({k})')
    rep.check(ok, 'C12.paths', gi.where, body[0] if body else '__getitem__',
              'item access on a static map is attribute access',
              'item access on a static map does not delegate to attribute '
              'access', line=gi.node.lineno)
    check_static_build(program, rep, 'C12.paths')
    # ---- switch --------------------------------------------------------------------
    sw = program.method('Loop', 'switch', inherited=False)
    ps = sw.params()
    w = Walker(program, _D(program))
    exits = w.run(sw, program.cls('Loop'))
    bad = None
    for ex in exits:
        if ex.kind == 'raise':
            continue
        conds = {e.sym.text: e.extra for e in ex.state.trace
                 if e.kind == 'cond'}
        calls = [e.sym.text for e in ex.state.trace if e.kind == 'call']
        cur_none = conds.get('self._current_world_handle is None')
        if conds.get('clear_current') is True and cur_none is False \
                and 'self._current_world_handle.clear()' not in calls:
            bad = ex
        if conds.get('clear_next') is True and 'world_handle.clear()' \
                not in calls:
            bad = ex
        if conds.get('clear_current') is False and \
                'self._current_world_handle.clear()' in calls:
            bad = ex
        if conds.get('clear_next') is False and 'world_handle.clear()' in calls:
            bad = ex
    rep.check(bad is None, 'C12.switch', sw.where, 'Loop.switch: clear flags',
              'Loop.switch clears exactly the handles its flags name',
              'Loop.switch does not clear exactly the handles named by '
              'clear_current / clear_next', line=sw.node.lineno)


def closure_plain(outer, inner):
    """A text normaliser for the generated __init__: free variables bound
    once in the enclosing function are replaced by what they were bound to,
    and dict(self.handles) - the visible handles under their names - reads as
    self.handles."""
    import re
    env = {}
    for n in ast.walk(outer.node):
        if isinstance(n, ast.Assign) and len(n.targets) == 1 and isinstance(
                n.targets[0], ast.Name) and not any(
                    x is n for x in ast.walk(inner)):
            env.setdefault(n.targets[0].id, []).append(norm(n.value))
    env = {k: v[0] for k, v in env.items() if len(v) == 1}

    def plain(t):
        for k, v in env.items():
            t = re.sub(r'(?<![\w.])' + re.escape(k) + r'\b', v, t)
        return t.replace('dict(self.handles)', 'self.handles')
    return plain


def escaping_classes(program, rep, rule, f):
    """A class generated inside a call and kept for later calls (stored in a
    module-level or instance container) must not read the parameters of the
    call that generated it: every later instance would be filled from the
    first map that had that layout."""
    params = set(f.params())
    for cd in [n for n in ast.walk(f.node) if isinstance(n, ast.ClassDef)]:
        kept = [n for n in ast.walk(f.node) if isinstance(n, ast.Assign)
                and isinstance(n.value, ast.Name) and n.value.id == cd.name
                and any(isinstance(t, ast.Subscript) or (isinstance(
                    t, ast.Attribute)) for t in n.targets)] + [
            n for n in ast.walk(f.node) if isinstance(n, ast.Call)
            and isinstance(n.func, ast.Attribute) and n.func.attr in (
                'setdefault', 'append', 'add') and any(
                    isinstance(a, ast.Name) and a.id == cd.name
                    for a in n.args)]
        if not kept:
            continue
        for m in [n for n in cd.body if isinstance(n, ast.FunctionDef)]:
            own = {a.arg for a in m.args.posonlyargs + m.args.args
                   + m.args.kwonlyargs} | {
                x.id for x in ast.walk(m) if isinstance(x, ast.Name)
                and isinstance(x.ctx, ast.Store)}
            captured = sorted({x.id for x in ast.walk(m) if isinstance(
                x, ast.Name) and isinstance(x.ctx, ast.Load)
                and x.id in params and x.id not in own})
            if captured:
                rep.bad(rule, f.where, kept[0],
                        f'the generated class {cd.name} is kept for later '
                        f'calls ({norm(kept[0])[:60]}) while its {m.name} '
                        f'reads `{captured[0]}` of the call that generated '
                        'it: a snapshot built later from the kept class '
                        'mirrors the FIRST map that had this layout - '
                        'another map\'s handles are returned (and loaded)',
                        line=kept[0].lineno)
                return
        rep.ok(rule, f.where, kept[0],
               f'the kept class {cd.name} takes the map it mirrors as an '
               'argument', line=kept[0].lineno)


def check_static_build(program, rep, rule):
    """get_static_map stores the handle objects themselves under their keys
    and lists exactly the handle keys in _handle_names (path based on the
    generated class's __init__, aliases resolved)."""
    from dlint.model import FuncInfo
    f = program.method('ResourceMap', 'get_static_map', inherited=False)
    site = f.where
    inits = [n for n in ast.walk(f.node) if isinstance(n, ast.FunctionDef)
             and n.name == '__init__']
    if len(inits) != 1:
        rep.inconclusive(rule, site, 'StaticSubmap.__init__',
                         'generated class __init__ not found')
        return
    init = inits[0]
    sub = init.args.args[0].arg
    escaping_classes(program, rep, rule, f)

    owner = [c for c in ast.walk(f.node) if isinstance(c, ast.ClassDef)
             and init in c.body]

    class _One(_D):
        def for_counts(self, st, node, itersym):
            return [1]

        def resolve_call(self, st, call, walker):
            # super().__init__(..) of the generated class: the in-repo base
            fn_ = call.func
            if isinstance(fn_, ast.Attribute) and isinstance(
                    fn_.value, ast.Call) and dotted(fn_.value.func) \
                    == 'super' and not fn_.value.args and owner \
                    and len(owner[0].bases) == 1 and st.frame.depth == 0:
                base = program.lookup_class(f.module,
                                            dotted(owner[0].bases[0]) or '')
                m = program.resolve_method(base, fn_.attr) if base else None
                if m is not None and sub in st.frame.env:
                    return m, base, st.frame.env[sub]
            return super().resolve_call(st, call, walker)
    fi = FuncInfo(f.module, None, '__init__', init)
    w = Walker(program, _One(program))
    exits = [e for e in w.run(fi, None) if e.kind != 'raise']
    ok_h = ok_n = bool(exits)
    _plain = closure_plain(f, init)
    for ex in exits:
        tr = ex.state.trace
        items = [e for e in tr if e.kind == 'for-item'
                 and _plain(e.sym.text) == 'self.handles.items()']
        merged = [e for e in tr if e.kind == 'for-item' and _plain(
            e.sym.text) in ('chain(self.handles.items(), self.maps.items())',
                            'itertools.chain(self.handles.items(), '
                            'self.maps.items())')]
        sets = [e.sym.node for e in tr if e.kind == 'call' and isinstance(
            e.sym.node, ast.Call) and norm(e.sym.node.func) in (
                'object.__setattr__', 'setattr')]
        conds = {e.sym.text: e.extra for e in tr if e.kind == 'cond'}
        good = False
        for it in items:
            t = it.target.text
            if any([norm(a) for a in c.args] == [sub, f'{t}[0]', f'{t}[1]']
                   for c in sets):
                good = True
        for it in merged:
            # one loop over handles and sub-maps: the value is converted
            # exactly when it is a ResourceMap (the test __setitem__ files
            # values by), stored itself otherwise
            t = it.target.text
            is_map = conds.get(f'isinstance({t}[1], ResourceMap)')
            want = [sub, f'{t}[0]', f'{t}[1].get_static_map()'] \
                if is_map is True else [sub, f'{t}[0]', f'{t}[1]']
            if is_map is not None and any(
                    [norm(a) for a in c.args] == want for c in sets):
                good = True
        if not good:
            ok_h = False
        names = [e for e in tr if e.kind == 'store' and e.target is not None
                 and e.target.text == f'{sub}._handle_names']
        if len(names) < 1 or _plain(norm(names[-1].sym.node)) not in (
                'frozenset(self.handles.keys())', 'frozenset(self.handles)'):
            ok_n = False
    rep.check(ok_h, rule, site, 'for key, value in self.handles.items(): ...',
              'every visible handle is stored, itself, under its own name',
              'the snapshot does not store, for every (visible) handle of the '
              'map, the handle object itself under its name (layers iterated '
              'directly let a shadowed handle win; a pre-loaded value '
              'bypasses the handle and goes stale after clear())',
              line=init.lineno)
    rep.check(ok_n, rule, site, '_handle_names',
              '_handle_names is the set of exactly the handle names',
              '_handle_names is not frozenset(self.handles.keys()): a handle '
              'missing from it is returned uncalled, an extra name is called',
              line=init.lineno)
