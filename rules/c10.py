"""C10 - handlers are held weakly and never called after they are gone."""
import ast

from dlint.model import AnalysisError, dotted, norm
from rules import evrules
from rules.evrules import EVENTS, HANDLERS
from rules.lifecycle import chain

EXPLANATION = (
    'Static value-flow rules over EventDispatcher (and every in-repo '
    'subclass method that touches its tables). no-strong: taint analysis '
    'from the `handler` parameter of every dispatcher method to any value '
    'stored into self.* (assignments, container mutators, closures): '
    'getattr(handler, name) and handler.attr are tainted (bound methods hold '
    'the handler), handler.__class__ / type(handler) / handler.__events__ / '
    'weakref.ref|WeakMethod|proxy(handler, ..) sanitise. cleanup: every weak '
    'reference stored in the tables is created with a callback that resolves '
    'to a method removing the reference from both tables. deref: in every '
    'loop over listeners (PathEval), the result of calling the weak reference '
    'passes an `is None` test on the path before it flows into the delivery '
    'call, and the snapshot iterated holds weak references, not dereferenced '
    'handlers.')
RULE = 'one obligation per (rule, function, statement)'
NOT_DECIDED = ['collection timing under alternative garbage collectors',
               'strong references held by queued relay events (inherent in '
               'postponing)']
ASSUMPTIONS = ['weakref.ref(o, cb) keeps no strong reference to o; calling it '
               'yields o or None']

SANITISERS = {'weakref.ref', 'weakref.WeakMethod', 'weakref.proxy', 'ref',
              'WeakMethod', 'proxy', 'type', 'id', 'isinstance', 'hasattr',
              'repr', 'str', 'len', 'bool'}
CLEAN_ATTRS = {'__class__', '__events__'}


def tainted(n, env):
    """Does the value of expression n hold a strong reference to a handler?"""
    if isinstance(n, ast.Name):
        return env.get(n.id, False)
    if isinstance(n, ast.Attribute):
        if n.attr in CLEAN_ATTRS:
            return False
        return tainted(n.value, env)
    if isinstance(n, ast.Call):
        d = dotted(n.func)
        if d in SANITISERS:
            return False
        if d == 'getattr' and n.args:
            return tainted(n.args[0], env)
        if d in ('tuple', 'list', 'set', 'frozenset', 'dict', 'sorted'):
            return any(tainted(a, env) for a in n.args)
        if d in ('functools.partial', 'partial'):
            return any(tainted(a, env) for a in n.args)
        # method call on a tainted receiver may return it / a bound method
        if isinstance(n.func, ast.Attribute) and tainted(n.func.value, env):
            return n.func.attr not in ('items', 'keys', 'values', 'get')
        return False
    if isinstance(n, (ast.Tuple, ast.List, ast.Set)):
        return any(tainted(e, env) for e in n.elts)
    if isinstance(n, ast.Dict):
        return any(tainted(e, env) for e in list(n.keys) + list(n.values)
                   if e is not None)
    if isinstance(n, (ast.GeneratorExp, ast.ListComp, ast.SetComp)):
        env2 = dict(env)
        for g in n.generators:
            t = tainted(g.iter, env2)
            for x in ast.walk(g.target):
                if isinstance(x, ast.Name):
                    env2[x.id] = t
        return tainted(n.elt, env2)
    if isinstance(n, ast.DictComp):
        env2 = dict(env)
        for g in n.generators:
            t = tainted(g.iter, env2)
            for x in ast.walk(g.target):
                if isinstance(x, ast.Name):
                    env2[x.id] = t
        return tainted(n.key, env2) or tainted(n.value, env2)
    if isinstance(n, ast.Lambda):
        return any(isinstance(x, ast.Name) and env.get(x.id)
                   for x in ast.walk(n.body))
    if isinstance(n, ast.IfExp):
        return tainted(n.body, env) or tainted(n.orelse, env)
    if isinstance(n, ast.BoolOp):
        return any(tainted(v, env) for v in n.values)
    if isinstance(n, ast.Starred):
        return tainted(n.value, env)
    if isinstance(n, ast.Subscript):
        return tainted(n.value, env)
    return False


def check_no_strong(program, rep):
    disp = evrules.dispatcher_class(program)
    n_sinks = 0
    for c in [disp]:
        for f in c.methods.values():
            params = f.params()
            hp = [p for p in params[1:] if p == 'handler']
            if not hp:
                continue
            env = {hp[0]: True}
            site = f.where
            # flow-insensitive propagation through local assignments
            for _ in range(3):
                for n in ast.walk(f.node):
                    if isinstance(n, ast.Assign):
                        t = tainted(evrules.beta_reduce(program, c, n.value),
                                    env)
                        for tg in n.targets:
                            for x in ast.walk(tg):
                                if isinstance(x, ast.Name) and isinstance(
                                        x.ctx, ast.Store):
                                    env[x.id] = env.get(x.id, False) or t
                    elif isinstance(n, ast.For):
                        t = tainted(n.iter, env)
                        for x in ast.walk(n.target):
                            if isinstance(x, ast.Name):
                                env[x.id] = env.get(x.id, False) or t
            for n in ast.walk(f.node):
                sink_val = None
                if isinstance(n, (ast.Assign, ast.AugAssign)):
                    tg = n.targets if isinstance(n, ast.Assign) else [n.target]
                    for t in tg:
                        if (norm(t).startswith('self.')):
                            sink_val = [n.value]
                            if isinstance(t, ast.Subscript):
                                sink_val.append(t.slice)
                elif isinstance(n, ast.Call) and isinstance(
                        n.func, ast.Attribute) and n.func.attr in (
                            'add', 'append', 'insert', 'setdefault', 'update',
                            'extend', 'appendleft', '__setitem__'):
                    recv = n.func.value
                    base = recv
                    while isinstance(base, (ast.Subscript, ast.Call,
                                            ast.Attribute)):
                        if isinstance(base, ast.Attribute) and isinstance(
                                base.value, ast.Name) \
                                and base.value.id == 'self':
                            break
                        base = base.func.value if isinstance(
                            base, ast.Call) and isinstance(
                                base.func, ast.Attribute) else getattr(
                                    base, 'value', None)
                        if base is None:
                            break
                    if base is not None and norm(base).startswith('self.'):
                        sink_val = list(n.args)
                if sink_val is None:
                    continue
                n_sinks += 1
                sink_val = [evrules.beta_reduce(program, c, v)
                            for v in sink_val]
                bad = [v for v in sink_val if tainted(v, env)]
                rep.check(not bad, 'C10.no-strong', site, n,
                          'no strong reference to the handler flows into the '
                          "dispatcher's state here",
                          f'{norm(bad[0]) if bad else ""} holds a strong '
                          'reference to the handler (a bound method or the '
                          'handler itself) and is stored in the dispatcher: '
                          'the handler is kept alive and stays registered '
                          'after the program drops it', line=n.lineno)
    rep.floor('C10.no-strong', 'stores into dispatcher state in methods '
              'taking a handler', n_sinks, 2)


def check_cleanup(program, rep):
    disp = evrules.dispatcher_class(program)
    f = program.method('EventDispatcher', 'add_handler', inherited=False)
    refs = [n for n in ast.walk(f.node) if isinstance(n, ast.Call)
            and dotted(n.func) in ('weakref.ref', 'ref')]
    rep.floor('C10.cleanup', 'weak references created in add_handler',
              len(refs), 1)
    for r in refs:
        cb = r.args[1] if len(r.args) > 1 else None
        ok = False
        why = ('the weak reference is created without a callback: a dead '
               'reference stays in the tables')
        if cb is not None:
            d = dotted(cb) or ''
            if d.startswith('self.'):
                m = program.resolve_method(disp, d.split('.')[1])
                if m is not None:
                    p = m.params()[1] if len(m.params()) > 1 else None
                    t = ast.unparse(m.node)
                    ev_alias = {t_.id for n in ast.walk(m.node)
                                if isinstance(n, ast.Assign)
                                and EVENTS in norm(n.value)
                                for t_ in n.targets
                                if isinstance(t_, ast.Name)}
                    rem_events = any(
                        isinstance(n, ast.Call) and isinstance(
                            n.func, ast.Attribute)
                        and n.func.attr in ('remove', 'discard')
                        and (EVENTS in norm(n.func.value) or (
                            isinstance(n.func.value, ast.Name)
                            and n.func.value.id in ev_alias))
                        for n in ast.walk(m.node))
                    rem_handlers = any(
                        (isinstance(n, ast.Delete) and any(
                            norm(t_) == f'{HANDLERS}[{p}]'
                            for t_ in n.targets)) or (
                                isinstance(n, ast.Call)
                                and norm(n.func) == f'{HANDLERS}.pop')
                        for n in ast.walk(m.node))
                    ok = rem_events and rem_handlers
                    why = (f'the callback {d} does not remove the reference '
                           'from both tables')
                else:
                    why = f'callback {d} does not resolve to a method'
            else:
                why = f'callback {norm(cb)} is not a method of the dispatcher'
        rep.check(ok, 'C10.cleanup', f.where, r,
                  'the weak reference unregisters itself from both tables '
                  'when the handler dies', why, line=r.lineno)


def check_clear_state(program, rep):
    """EventDispatcher.clear() empties every container created in __init__
    (queued events hold their arguments - components - strongly)."""
    disp = evrules.dispatcher_class(program)
    init = disp.methods.get('__init__')
    cl = disp.methods.get('clear')
    if init is None or cl is None:
        rep.inconclusive('C10.clear-state', f'{disp.module.relpath}:'
                         'EventDispatcher', 'clear', '__init__/clear missing')
        return
    made = []
    for a in ast.walk(init.node):
        if isinstance(a, (ast.Assign, ast.AnnAssign)):
            tg = a.targets if isinstance(a, ast.Assign) else [a.target]
            v = a.value
            for t in tg:
                if norm(t).startswith('self.') and isinstance(
                        v, (ast.List, ast.Dict, ast.Set, ast.Call)):
                    made.append(norm(t))
    # only state that can keep user objects (handlers, event arguments)
    # reachable or registered matters: the listener tables and every
    # container that receives the arguments of a dispatch
    def _holds_user_objects(name):
        attr = name.split('.', 1)[1]
        if name in (evrules.EVENTS, evrules.HANDLERS, evrules.QUEUE):
            return True
        for m in disp.methods.values():
            ps = set(m.params()[1:])
            for n in ast.walk(m.node):
                if isinstance(n, ast.Call) and isinstance(
                        n.func, ast.Attribute) and n.func.attr in (
                            'append', 'add', 'appendleft', 'extend',
                            'insert', 'setdefault', 'update') \
                        and norm(n.func.value) == name and any(
                            isinstance(x, ast.Name) and x.id in ps
                            and x.id in ('args', 'kwargs')
                            for a_ in n.args for x in ast.walk(a_)):
                    return True
        return False
    made = [m_ for m_ in made if _holds_user_objects(m_)]
    cleared = set()
    for n in ast.walk(cl.node):
        if isinstance(n, ast.Call) and isinstance(n.func, ast.Attribute) \
                and n.func.attr == 'clear':
            cleared.add(norm(n.func.value))
        if isinstance(n, (ast.Assign, ast.AnnAssign)):
            for t in (n.targets if isinstance(n, ast.Assign) else [n.target]):
                cleared.add(norm(t))
    # re-running the dispatcher's own constructor rebinds every container it
    # makes (the old ones, with what they held, become garbage)
    for n in ast.walk(cl.node):
        if isinstance(n, ast.Call) and isinstance(n.func, ast.Attribute) \
                and n.func.attr == '__init__' and (
                    (dotted(n.func.value) == disp.name and len(n.args) == 1
                     and norm(n.args[0]) == 'self')
                    or (isinstance(n.func.value, ast.Call) and dotted(
                        n.func.value.func) == 'super' and not n.args)
                    or (dotted(n.func.value) == 'self' and not n.args)):
            cleared |= set(made)
    missing = [m for m in made if m not in cleared]
    rep.check(not missing and bool(made), 'C10.clear-state', cl.where,
              ', '.join(made) or 'containers',
              'clear() empties every container of the dispatcher',
              f'clear() leaves {", ".join(missing)} untouched: postponed '
              'events (and the components they carry) survive clear(), stay '
              'strongly referenced and are replayed on a later enable',
              line=cl.node.lineno)


def check_owners(program, rep):
    """The listener tables are read only by the dispatcher: code elsewhere
    that walks them bypasses the dead-receiver test of dispatch()."""
    disp = evrules.dispatcher_class(program)
    inside = {id(m) for c in [disp] + program.subclasses(disp)
              for m in c.methods.values()}
    names = {evrules.EVENTS.split('.')[-1], evrules.HANDLERS.split('.')[-1]}
    n = 0
    bad = None
    from rules.util import self_writes as _sw
    for f in program.all_functions():
        for a in ast.walk(f.node):
            if isinstance(a, ast.Attribute) and a.attr in names:
                n += 1
        if id(f) in inside:
            continue
        # outside the dispatcher the tables may be READ (a loop that does so
        # is held to the dereference rule, C10.deref); changing them there
        # bypasses the bookkeeping that keeps both tables and the weak
        # reference callbacks in step
        for x in ast.walk(f.node):
            tg = []
            if isinstance(x, ast.Assign):
                tg = x.targets
            elif isinstance(x, (ast.AugAssign, ast.AnnAssign)):
                tg = [x.target]
            elif isinstance(x, ast.Delete):
                tg = x.targets
            elif isinstance(x, ast.Call) and isinstance(
                    x.func, ast.Attribute) and x.func.attr in (
                        'add', 'remove', 'discard', 'pop', 'clear', 'update',
                        'setdefault', 'popitem', '__setitem__',
                        '__delitem__'):
                tg = [x.func.value]
            for t in tg:
                base = t
                while isinstance(base, ast.Subscript):
                    base = base.value
                if isinstance(base, ast.Attribute) and base.attr in names \
                        and bad is None:
                    bad = (f, x)
    rep.check(bad is None, 'C10.owners', bad[0].where if bad else
              f'{disp.module.relpath}:EventDispatcher',
              bad[1] if bad else 'self._events / self._handlers',
              f'the listener tables are changed by dispatcher methods only '
              f'({n} accesses in the package)',
              (f'{bad[0].qualname} changes the listener tables of a '
               'dispatcher from outside the class: the two tables (and the '
               'weak-reference callbacks registered for their entries) are '
               'no longer kept in step by add_handler / remove_handler') if bad
              else '', line=getattr(bad[1], 'lineno', None) if bad else None)
    rep.floor('C10.owners', 'accesses of the listener tables', n, 4)


def check_inline_deref(program, rep):
    """No weak reference is dereferenced straight into a call anywhere in the
    dispatcher (fast paths outside the listener loops included)."""
    disp = evrules.dispatcher_class(program)
    n_calls = 0
    # (every function of the package that touches a listener table: a copy of
    # the delivery loop outside the dispatcher is held to the same rule)
    for f in program.all_functions():
        if True:
            if not any(isinstance(x, ast.Attribute) and x.attr == '_events'
                       for x in ast.walk(f.node)):
                continue
            locals_ = {x.id for x in ast.walk(f.node) if isinstance(
                x, ast.Name) and isinstance(x.ctx, ast.Store)}
            for n in ast.walk(f.node):
                if not isinstance(n, ast.Call) or not n.args:
                    continue
                a0 = n.args[0]
                if isinstance(a0, ast.Call) and not a0.args \
                        and not a0.keywords and isinstance(
                            a0.func, ast.Name) and a0.func.id in locals_ \
                        and isinstance(n.func, ast.Name) \
                        and n.func.id in locals_:
                    n_calls += 1
                    rep.bad('C10.deref', f.where, n,
                            'a weak reference is dereferenced straight into '
                            'the callback call: when the handler is already '
                            'gone the method runs with self=None',
                            line=n.lineno)
    if n_calls == 0:
        rep.ok('C10.deref', f'{disp.module.relpath}:EventDispatcher',
               'f(ref(), ...) patterns', 'no inline dereference into a call',
               nontrivial=False)


def check_transient_state(program, rep):
    """State a dispatcher keeps only while a delivery is in progress (the
    event being delivered, with its arguments - which may be handlers) is
    dropped on EVERY way out of the delivery.  In a @contextmanager helper the
    statements after the `yield` are skipped when the managed block raises
    unless they sit in a `finally`."""
    disp = evrules.dispatcher_class(program)
    n = 0
    for c in [disp] + program.subclasses(disp):
        for f in c.methods.values():
            if not any((dotted(d.func if isinstance(d, ast.Call) else d)
                        or '').split('.')[-1] == 'contextmanager'
                       for d in f.node.decorator_list):
                continue
            params = set(f.params()[1:])

            def selfstore(s):
                return [t.attr for t in (
                    s.targets if isinstance(s, ast.Assign) else [])
                    if isinstance(t, ast.Attribute) and isinstance(
                        t.value, ast.Name) and t.value.id == 'self']
            body = f.node.body
            for i, st in enumerate(body):
                if not (isinstance(st, ast.Expr) and isinstance(
                        st.value, ast.Yield)):
                    continue
                before = {a for s in body[:i] for a in selfstore(s)
                          if any(isinstance(x, ast.Name) and x.id in params
                                 for x in ast.walk(s.value))}
                after = {a for s in body[i + 1:] for a in selfstore(s)}
                n += 1
                held = sorted(before & after)
                rep.check(not held, 'C10.no-strong', f.where, st,
                          'nothing that holds the arguments of the delivery '
                          'is restored by statements an exception skips',
                          f'self.{held[0] if held else ""} is given the '
                          'arguments of the delivery before the `yield` and '
                          'restored by a statement after it that is not in a '
                          '`finally`: when a callback raises, the restore is '
                          'skipped and the dispatcher keeps the event '
                          'arguments (components, handlers) alive - a dropped '
                          'handler is never collected and keeps receiving '
                          'events', line=st.lineno)
    if n == 0:
        rep.ok('C10.no-strong', f'{disp.module.relpath}:EventDispatcher',
               '@contextmanager helpers', 'none', nontrivial=False)


def run(program, rep, tier):
    check_transient_state(program, rep)
    check_clear_state(program, rep)
    check_owners(program, rep)
    # a queued event holds its arguments (components) strongly: it must leave
    # the queue before it is delivered (C04's release rule)
    from rules import c04
    rep.borrow(c04.check_release, program, rep,
               keep=lambda o: o.rule in ('C04.release', 'C04.drain'),
               rename=lambda r: 'C10.released',
               why='a delivered event stays in the queue and keeps the '
               'objects it carries alive during the following callbacks')
    check_inline_deref(program, rep)
    # handlers that vanish DURING a dispatch (a callback clears the
    # dispatcher / deletes their entities) are skipped silently: the loop may
    # not go back to the table for them (C03's rule on stale key knowledge)
    from rules import c03
    rep.borrow(c03.check_unknown, program, rep,
               keep=lambda o: o.rule == 'C03.unknown',
               rename=lambda r: 'C10.vanished',
               why='a dispatch in which the remaining handlers vanish raises '
               'KeyError instead of skipping them')
    check_no_strong(program, rep)
    check_cleanup(program, rep)
    evrules.delivery_sites(program, rep, 'C10', {'deref'})
