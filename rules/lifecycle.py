"""Lifecycle protocol of components (C02) and processors (C07.protocol).

PathEval over every World method: attach / detach sites on the component table
(`_entities[e][T]`) and the processor table (`_processors[T]`) are collected per
path together with the notification actions, and each object's actions are
compared with the protocol table under the path's valuation of the atoms
  H := hasattr(x, '__events__')          (or isinstance(x, EventHandler))
  A := EV in x.__events__
  D := self._dispatch_enabled            (must be read after the last call-out)
"""
import ast

from dlint.model import AnalysisError, dotted, norm
from dlint.walk import Domain, Walker, SymVal, fold_truth, loopvar_name

ON_ADD, ON_REMOVE, RELAY_EV = 'on_add', 'on_remove', 'on_single_dispatch'

TABLES = {
    'self._entities': {'arity': 2, 'what': 'component'},
    'self._processors': {'arity': 1, 'what': 'processor'},
}
PURE_SELF_METHODS = {
    'add_handler', 'remove_handler', 'is_handler', '_remove_weak_handler',
    'entity_exists', 'has_component', 'get_component', 'get_components',
    'get_processor', 'get', '_get',
}
PURE_FUNCS = {
    'hasattr', 'getattr', 'type', 'isinstance', 'issubclass', 'set', 'dict',
    'list', 'tuple', 'len', 'next', 'filter', 'iter', 'sorted', 'id',
    'frozenset', 'bool', 'repr', 'str', 'zip', 'map', 'range', 'enumerate',
}


class _GetToSubscript(ast.NodeTransformer):
    """X.get(k) / X.get(k, <empty display>) -> X[k] (reading a table row
    through .get names the same row; the empty default only matters when the
    row is absent)."""

    def visit_Call(self, node):
        node = self.generic_visit(node)
        if isinstance(node.func, ast.Attribute) and node.func.attr == 'get' \
                and not node.keywords and 1 <= len(node.args) <= 2:
            d = node.args[1] if len(node.args) == 2 else None
            empty = d is None or (isinstance(d, ast.Dict) and not d.keys) or (
                isinstance(d, (ast.Tuple, ast.List, ast.Set))
                and not d.elts) or (isinstance(d, ast.Call) and dotted(
                    d.func) in ('dict', 'set', 'tuple', 'list',
                                'frozenset') and not d.args) or (
                    isinstance(d, ast.Constant) and d.value is None)
            if empty and dotted(node.func.value) is not None:
                return ast.Subscript(node.func.value, node.args[0],
                                     ast.Load())
        return node


_NONNONE = {}


def nonnone_values(program, cname, attr):
    """Every value stored into self.<attr>[..] by the class is a parameter
    covered by `assert isinstance(<param>, ...)` in the same method."""
    key = (id(program), cname, attr)
    if key in _NONNONE:
        return _NONNONE[key]
    ok = True
    n_st = 0
    c = program.cls(cname)
    for f in c.methods.values():
        asserted = {norm(a.test.args[0]) for a in ast.walk(f.node)
                    if isinstance(a, ast.Assert) and isinstance(
                        a.test, ast.Call) and dotted(a.test.func)
                    == 'isinstance' and len(a.test.args) == 2}
        for n in ast.walk(f.node):
            if isinstance(n, ast.Assign) and any(
                    isinstance(t, ast.Subscript) and dotted(t.value)
                    == f'self.{attr}' for t in n.targets):
                n_st += 1
                if norm(n.value) not in asserted:
                    ok = False
            if isinstance(n, ast.Call) and isinstance(
                    n.func, ast.Attribute) and dotted(n.func.value) \
                    == f'self.{attr}' and n.func.attr in ('setdefault',
                                                          'update'):
                ok = False
    _NONNONE[key] = ok and n_st > 0
    return _NONNONE[key]


def unget(node_or_text):
    """Normalise table reads through .get to subscripts (text in, text out;
    node in, node out)."""
    import copy as _copy
    if isinstance(node_or_text, str):
        try:
            n = ast.parse(node_or_text, mode='eval').body
        except SyntaxError:
            return node_or_text
        return norm(_GetToSubscript().visit(n))
    return _GetToSubscript().visit(_copy.deepcopy(node_or_text))


def chain(node):
    """self.F[k1][k2] -> ('self.F', [k1, k2]); setdefault(k, {}) and
    get(k[, <empty>]) count as [k].
    Returns (None, None) if the base is not an attribute chain."""
    keys = []
    n = node
    while True:
        if isinstance(n, ast.Subscript):
            keys.append(n.slice)
            n = n.value
        elif isinstance(n, ast.Call) and isinstance(n.func, ast.Attribute) \
                and n.func.attr == 'setdefault' and len(n.args) == 2:
            keys.append(n.args[0])
            n = n.func.value
        elif isinstance(n, ast.Call) and isinstance(n.func, ast.Attribute) \
                and n.func.attr == 'get' and 1 <= len(n.args) <= 2 \
                and dotted(n.func.value) is not None:
            keys.append(n.args[0])
            n = n.func.value
        else:
            break
    d = dotted(n)
    if d is None:
        return None, None
    return d, list(reversed(keys))


def unwrap_iter(node):
    """tuple(X) / list(X) / set(X) / sorted(X) / X.copy() -> X ; and the
    view kind: X.items() -> (X,'items') etc."""
    n = node
    while True:
        if isinstance(n, ast.Call) and isinstance(n.func, ast.Name) \
                and n.func.id in ('tuple', 'list', 'set', 'sorted',
                                  'frozenset') and len(n.args) == 1:
            n = n.args[0]
            continue
        if isinstance(n, ast.Call) and isinstance(n.func, ast.Attribute) \
                and n.func.attr == 'copy' and not n.args:
            n = n.func.value
            continue
        break
    view = 'keys'
    if isinstance(n, ast.Call) and isinstance(n.func, ast.Attribute) \
            and n.func.attr in ('items', 'values', 'keys') and not n.args:
        view = n.func.attr
        n = n.func.value
    return n, view


class Site:
    __slots__ = ('kind', 'table', 'e', 'T', 'c', 'node', 'line', 'func',
                 'absent', 'text')

    def __init__(self, kind, table, e, T, c, node, func, absent=None):
        self.kind = kind        # attach | detach
        self.table = table
        self.e = e              # text or None
        self.T = T
        self.c = c              # text naming the object
        self.node = node
        self.line = getattr(node, 'lineno', None)
        self.func = func
        self.absent = absent
        self.text = norm(node)


class Act:
    __slots__ = ('kind', 'obj', 'ev', 'args', 'node', 'line', 'fresh_d',
                 'func', 'a_known')

    def __init__(self, kind, obj, ev, args, node, func, fresh_d=None):
        self.kind = kind        # reg | unreg | direct | relay
        self.obj = obj
        self.ev = ev
        self.args = args
        self.node = node
        self.line = getattr(node, 'lineno', None)
        self.func = func
        self.fresh_d = fresh_d

    def __repr__(self):
        a = ', '.join(self.args) if self.args is not None else ''
        return f'{self.kind}({self.obj}' + (f', {self.ev}' if self.ev else '') \
            + (f' | {a}' if self.args is not None else '') + ')'


class LifeDomain(Domain):
    loop_bound = 2
    inline_depth = 4

    PRIMITIVES = {'add_handler', 'remove_handler', 'dispatch', 'is_handler',
                  '_remove_weak_handler'}

    def __init__(self, program, summaries=None, analyse=None):
        super().__init__(program)
        self.problems = []      # shapes we do not understand -> inconclusive
        self.summaries = summaries if summaries is not None else {}
        self.analyse = analyse  # callback: FuncInfo -> Summary or None

    def resolve_call(self, st, call, walker):
        r = walker.default_resolve(st, call)
        if r is None:
            return walker.resolve_helper(st, call)
        f = r[0]
        if f.name in self.PRIMITIVES:
            return None
        if f.cls is not None and f.cls.name != 'EventDispatcher' \
                and self.analyse is not None:
            summ = self.analyse(f, r[1])
            if summ is not None and summ.has_sites:
                if not getattr(summ, 'inline_only', False):
                    return None     # applied as a summary in _call
                summ.inlined = True
        return r

    def init_state(self, st, func, cls):
        st.data.update(sites=[], acts=[], conds=[], rowloops={}, tblloops={},
                       vacated=set(), rows_gone=set(), wipes=[], itercount={},
                       queue=[], selfreg=[], summary_calls=[], tbl_log=[],
                       cond_binds=[],
                       replace_calls=[])

    # ------------------------------------------------------------------
    def for_counts(self, st, node, itersym):
        prev = st.data['itercount'].get(itersym.text)
        if prev is not None:
            return [prev]
        base, view = unwrap_iter(itersym.node)
        d = dotted(base)
        if d in TABLES and d != 'self._entities':
            return [0, 1]
        return [0, 1, 2]

    def leave_loop(self, st, node, itersym, complete, count):
        if not complete:
            return
        st.data['itercount'][itersym.text] = count
        base, view = unwrap_iter(itersym.node)
        b, keys = chain(base)
        if b == 'self._entities' and len(keys) == 1:
            st.data['rowloops'][norm(keys[0])] = (itersym.text, view, count)
        elif b in TABLES and not keys:
            st.data['tblloops'][b] = (itersym.text, view, count)
        elif dotted(base) == 'self._sorted_processors' and not keys:
            st.data['tblloops']['self._processors'] = (itersym.text, 'values',
                                                       count)

    # ------------------------------------------------------------------
    def decide(self, st, sym, node):
        n = sym.node
        # a value read from one of the tables is never the object None
        if isinstance(n, ast.Compare) and len(n.ops) == 1 and isinstance(
                n.ops[0], ast.Is) and isinstance(
                    n.comparators[0], ast.Constant) \
                and n.comparators[0].value is None:
            b, keys = chain(n.left)
            if b in TABLES and len(keys) == TABLES[b]['arity']:
                return False
            if isinstance(n.left, ast.Call) and isinstance(
                    n.left.func, ast.Attribute) and n.left.func.attr == 'pop':
                b, keys = chain(n.left.func.value)
                if b in TABLES and len(n.left.args) == 1:
                    return False
        return fold_truth(n)

    # ------------------------------------------------------------------
    def on_event(self, st, ev):
        st.trace.append(ev)
        k = ev.kind
        if k == 'cond':
            # 4th item: versions of every chain at EVALUATION time (an alias of
            # a row / index entry is the live container); the bind-time stamp
            # of substituted locals is kept separately (flag freshness)
            vers = dict(ev.sym.stamp)
            vers.update(st.versions)
            text, truth = unget(ev.sym.text), ev.extra
            # `self._processors.get(T) is None`: the table only ever holds
            # objects that passed `assert isinstance(.., Processor)`, so a
            # None answer means "T not in the table" and vice versa
            pre = 'self._processors['
            if text.startswith(pre) and text.endswith('] is None') and \
                    nonnone_values(self.program, 'World', '_processors'):
                text = f'{text[len(pre):-len("] is None")]} in ' \
                    'self._processors'
                truth = (not truth) if truth is not None else None
            st.data['conds'].append((text, ev.sym.node,
                                     truth, frozenset(vers.items())))
            st.data['cond_binds'].append(ev.sym.stamp)
        elif k == 'call' and ev.func is None:
            self._call(st, ev)
        elif k == 'store':
            self._store(st, ev)
        elif k == 'del':
            self._del(st, ev)
        return [(None, st)]

    def _fn(self, ev):
        return ev.frame_func.qualname if ev.frame_func else '?'

    def _log(self, st, tbl, kind, e, T):
        st.data['tbl_log'].append((tbl, st.versions.get(tbl, 0) + 1, kind, e,
                                   T))

    def _touched_since(self, st, tbl, ver, e, T):
        """Could slot (e, T) of tbl have been filled after version ver?"""
        for t, v, kind, le, lT in st.data['tbl_log']:
            if t != tbl or v <= ver:
                continue
            if kind in ('rowinit', 'detach', 'rowgone'):
                continue
            if kind == 'attach' and (le, lT) != (e, T):
                continue
            return True
        return False

    def _absent(self, st, tbl, e, T):
        """Is slot tbl[e][T] proved empty on this path?"""
        cur = st.versions.get(tbl, 0)
        if tbl == 'self._entities':
            if (e, T) in st.data['vacated'] or e in st.data['rows_gone']:
                return True
            want_false = {f'{T} in {tbl}[{e}]', f'{e} in {tbl}'}
        else:
            if T in st.data['vacated']:
                return True
            want_false = {f'{T} in {tbl}'}
        for text, node, truth, stamp in reversed(st.data['conds']):
            if text in want_false:
                ver = dict(stamp).get(tbl)
                if ver is None or self._touched_since(st, tbl, ver, e, T):
                    continue
                if truth is False:
                    return True
        return False

    def _store(self, st, ev):
        tnode = ev.target.node
        b, keys = chain(tnode)
        if b == 'self._dispatch_enabled' or (
                isinstance(tnode, ast.Attribute)
                and tnode.attr in ('dispatch_enabled', '_dispatch_enabled')):
            return
        if b not in TABLES:
            return
        ar = TABLES[b]['arity']
        fn = self._fn(ev)
        if len(keys) == ar:
            e = norm(keys[0]) if ar == 2 else None
            T = norm(keys[-1])
            absent = self._absent(st, b, e, T)
            self._log(st, b, 'attach', e, T)
            st.data['sites'].append(Site('attach', b, e, T, ev.sym.text,
                                         ev.node, fn, absent))
            if ar == 2:
                st.data['vacated'].discard((e, T))
                st.data['rows_gone'].discard(e)
            else:
                st.data['vacated'].discard(T)
        elif len(keys) == 0:
            if not (fn.endswith('.__init__')):
                st.data['wipes'].append((b, ev.node, fn))
        elif ar == 2 and len(keys) == 1:
            v = ev.sym.node
            empty = (isinstance(v, ast.Dict) and not v.keys) or (
                isinstance(v, ast.Call) and dotted(v.func) == 'dict'
                and not v.args and not v.keywords)
            self._log(st, b, 'rowinit' if empty else 'unknown', norm(keys[0]),
                      None)
            if not empty:
                self.problems.append(
                    (fn, ev.node, 'a whole row is stored into the component '
                     'table; the rule only understands item stores'))

    def _row_detach(self, st, e, node, fn):
        """Row e of _entities disappears at `node`."""
        rec = st.data['rowloops'].get(e)
        tbl = 'self._entities'
        if rec is None:
            cur = st.versions.get(tbl, 0)
            for text, n, truth, stamp in reversed(st.data['conds']):
                if text == f'{tbl}[{e}]' and (tbl, cur) in stamp:
                    if truth is False:
                        st.data['rows_gone'].add(e)
                        return      # row known empty: housekeeping
                    break
            st.data['sites'].append(Site('detach-row-unvisited', tbl, e, None,
                                         None, node, fn))
            st.data['rows_gone'].add(e)
            return
        itertext, view, count = rec
        done = {(s.e, s.T) for s in st.data['sites'] if s.kind == 'detach'}
        for i in range(count):
            item = loopvar_name(itertext, i)
            if view == 'items':
                T, c = f'{item}[0]', f'{item}[1]'
            elif view == 'values':
                T, c = None, item
            else:
                T, c = item, f'{tbl}[{e}][{item}]'
            if (e, T) in done:
                continue
            st.data['sites'].append(Site('detach', tbl, e, T, c, node, fn))
        st.data['rows_gone'].add(e)

    def _del(self, st, ev):
        b, keys = chain(ev.target.node)
        if b not in TABLES:
            return
        ar = TABLES[b]['arity']
        fn = self._fn(ev)
        if len(keys) == ar:
            e = norm(keys[0]) if ar == 2 else None
            T = norm(keys[-1])
            st.data['sites'].append(Site('detach', b, e, T, ev.target.text,
                                         ev.node, fn))
            st.data['vacated'].add((e, T) if ar == 2 else T)
            self._log(st, b, 'detach', e, T)
        elif ar == 2 and len(keys) == 1:
            self._log(st, b, 'rowgone', norm(keys[0]), None)
            self._row_detach(st, norm(keys[0]), ev.node, fn)

    def _call(self, st, ev):
        cn = ev.sym.node
        if not isinstance(cn, ast.Call):
            return
        fn = self._fn(ev)
        f = cn.func
        d = dotted(f)
        args = [norm(a) for a in cn.args]
        data = st.data
        # ---- table mutators ------------------------------------------------
        if isinstance(f, ast.Attribute) and not (ev.extra or {}).get(
                'in_comp'):
            b, keys = chain(f.value)
            if b in TABLES:
                ar = TABLES[b]['arity']
                m = f.attr
                if m == 'pop' and len(keys) == ar - 1 and cn.args:
                    e = norm(keys[0]) if ar == 2 else None
                    T = args[0]
                    data['sites'].append(Site('detach', b, e, T, ev.sym.text,
                                              ev.node, fn))
                    data['vacated'].add((e, T) if ar == 2 else T)
                    self._log(st, b, 'detach', e, T)
                    return
                if m == 'pop' and ar == 2 and len(keys) == 0 and cn.args:
                    self._log(st, b, 'rowgone', args[0], None)
                    self._row_detach(st, args[0], ev.node, fn)
                    return
                if m == 'clear' and len(keys) == 0:
                    data['wipes'].append((b, ev.node, fn))
                    return
                if m == 'clear' and ar == 2 and len(keys) == 1:
                    self._row_detach(st, norm(keys[0]), ev.node, fn)
                    return
                if m in ('update', 'popitem', '__setitem__', '__delitem__') \
                        or (m == 'setdefault' and len(keys) == ar - 1):
                    self.problems.append(
                        (fn, ev.node, f'table mutated through .{m}(); the '
                         'rule does not model it'))
                    return
            if b == 'self._event_queue' and f.attr == 'clear':
                data['queue'].append(('wipe', ev.node, fn))
                return
            if b in ('self._handlers', 'self._events') and f.attr == 'clear':
                data['selfreg'].append(('wipe', ev.node, fn))
                return
        # ---- calls of World methods that carry their own sites: summary ----
        if d is not None and d.startswith('self.') and d.count('.') == 1:
            summ = self.summaries.get(d.split('.')[1])
            if summ is not None and summ.has_sites and not getattr(
                    summ, 'inline_only', False):
                self._apply_summary(st, summ, cn, fn, ev)
                return
        # ---- protocol actions ----------------------------------------------
        if d == 'self.add_handler' and len(args) == 1:
            if args[0] == 'self':
                data['selfreg'].append(('reg', ev.node, fn))
            else:
                data['acts'].append(Act('reg', args[0], None, None, ev.node,
                                        fn))
            return
        if d == 'self.remove_handler' and len(args) == 1:
            data['acts'].append(Act('unreg', args[0], None, None, ev.node, fn))
            return
        if d == 'self.dispatch':
            if args and isinstance(cn.args[0], ast.Constant) \
                    and cn.args[0].value == RELAY_EV and len(args) >= 3 \
                    and isinstance(cn.args[1], ast.Constant):
                data['acts'].append(Act('relay', args[2], cn.args[1].value,
                                        args[3:], ev.node, fn))
                data['queue'].append(('relay', ev.node, fn))
            st.bump('self._dispatch_enabled')
            return
        if isinstance(f, ast.Call) and dotted(f.func) == 'getattr' \
                and len(f.args) >= 2:
            obj = norm(f.args[0])
            key = f.args[1]
            evname = None
            if isinstance(key, ast.Subscript) and norm(key.value) \
                    == f'{obj}.__events__' and isinstance(key.slice,
                                                          ast.Constant):
                evname = key.slice.value
            fresh = self._fresh_d(st)
            data['acts'].append(Act('direct', obj, evname, args, ev.node, fn,
                                    fresh))
            st.bump('self._dispatch_enabled')
            return
        # ---- anything else: may it run user code (and toggle D)? ------------
        if d is not None:
            parts = d.split('.')
            if parts[0] == 'self' and len(parts) == 2 \
                    and parts[1] in PURE_SELF_METHODS:
                return
            if len(parts) == 1 and parts[0] in PURE_FUNCS:
                return
            if d.startswith('self._') and parts[-1] in (
                    'add', 'discard', 'remove', 'pop', 'get', 'append',
                    'insert', 'clear', 'items', 'values', 'keys', 'copy',
                    'setdefault', 'update'):
                return
            if d in ('bisect.insort', 'bisect.insort_right',
                     'desper.bisect.insort'):
                return
        st.bump('self._dispatch_enabled')

    def _cond_truth(self, st, text):
        """Truth of the latest decision of `text` (normalised), if the tables
        it reads were not mutated since it was evaluated; else None."""
        text = unget(text)
        for t, node, truth, stamp in reversed(st.data['conds']):
            if t != text:
                continue
            d = dict(stamp)     # includes the versions at evaluation time
            for tbl in TABLES:
                if tbl in text and d.get(tbl, 0) != st.versions.get(tbl, 0):
                    return None
            return truth
        return None

    def _apply_summary(self, st, summ, cn, fn, ev):
        mapping = summ.bind(cn)
        if mapping is None:
            self.problems.append((fn, ev.node, 'call of a site-bearing method '
                                  'with arguments the rule cannot bind'))
            return
        live = []
        for ex in summ.exits:
            ok = True
            for text, truth in ex['entry']:
                t2 = instantiate(text, mapping)
                known = self._cond_truth(st, t2)
                if known is not None and known != truth:
                    ok = False
                    break
            if ok:
                live.append(ex)
        if live:
            vac = set.intersection(*[
                {tuple(instantiate(x, mapping) if x is not None else None
                       for x in v) if isinstance(v, tuple)
                 else instantiate(v, mapping) for v in ex['vacated']}
                for ex in live])
            gone = set.intersection(*[
                {instantiate(x, mapping) for x in ex['rows_gone']}
                for ex in live])
        else:
            vac, gone = set(), set()
        a = [norm(x) for x in cn.args]
        guard = None
        if summ.name == 'remove_component' and len(a) >= 2:
            guard = [f'{a[1]} in self._entities.get({a[0]}, {{}})',
                     f'{a[1]} in self._entities[{a[0]}]']
            slot = (a[0], a[1])
        elif summ.name == 'remove_processor' and len(a) >= 1:
            guard = [f'{a[0]} in self._processors']
            slot = a[0]
        guarded = None
        if guard is not None:
            guarded = False
            for g in guard:
                if self._cond_truth(st, g) is True:
                    guarded = True
            st.data['replace_calls'].append((slot, guarded, ev.node, fn))
        for t in summ.tables:
            self._log(st, t, 'summary', None, None)
            st.bump(t)
        for v in vac:
            st.data['vacated'].add(v)
        for g in gone:
            st.data['rows_gone'].add(g)
        st.data['summary_calls'].append((summ.name, norm(cn), sorted(
            map(str, vac)), sorted(gone)))
        if summ.callouts:
            st.bump('self._dispatch_enabled')
        if summ.relays:
            st.data['queue'].append(('relay', ev.node, fn))

    def _fresh_d(self, st):
        cur = st.versions.get('self._dispatch_enabled', 0)
        conds = st.data['conds']
        binds = st.data['cond_binds']
        for i in range(len(conds) - 1, -1, -1):
            text, node, truth, stamp = conds[i]
            if text == 'self._dispatch_enabled':
                # the flag VALUE must have been read after the last call-out
                # (bind-time stamp of the expression, not evaluation time)
                return truth is True and ('self._dispatch_enabled',
                                          cur) in binds[i]
        return False


class _Inst(ast.NodeTransformer):
    def __init__(self, mapping):
        self.m = mapping

    def visit_Name(self, node):
        if node.id in self.m:
            return ast.parse(self.m[node.id], mode='eval').body
        return node


def instantiate(text, mapping):
    if text is None:
        return None
    try:
        tree = ast.parse(text, mode='eval').body
    except SyntaxError:
        return text
    return norm(_Inst(mapping).visit(tree))


class Summary:
    """What a site-bearing World method guarantees to its callers."""

    def __init__(self, func):
        self.func = func
        self.name = func.name
        self.exits = []
        self.has_sites = False
        self.callouts = False
        self.relays = False
        self.tables = set()

    def bind(self, cn):
        a = self.func.node.args
        params = [x.arg for x in a.args][1:]
        if any(isinstance(x, ast.Starred) for x in cn.args):
            return None
        m = {}
        defaults = dict(zip(reversed(params), reversed(a.defaults)))
        for i, p in enumerate(params):
            if i < len(cn.args):
                m[p] = norm(cn.args[i])
            else:
                kw = [k for k in cn.keywords if k.arg == p]
                if kw:
                    m[p] = norm(kw[0].value)
                elif p in defaults:
                    m[p] = norm(defaults[p])
                else:
                    return None
        return m


# ----------------------------------------------------------------------
def atoms_for(obj, conds, problems):
    """Constraints on (H, A[ev]) for object text `obj` read off the path's
    decided conditions.  Returns a list of (kind, event, truth):
      ('H', None, t)   hasattr(obj,'__events__') / isinstance(obj, EventHandler)
      ('A', ev, t)     ev in obj.__events__            (evaluating it needs H)
      ('HA', ev, t)    ev in getattr(obj,'__events__', <empty>)   (H and A)
    """
    cons = []
    for text, node, truth, stamp in conds:
        n = node
        if isinstance(n, ast.Call) and dotted(n.func) == 'hasattr' \
                and len(n.args) == 2 and norm(n.args[0]) == obj \
                and isinstance(n.args[1], ast.Constant) \
                and n.args[1].value == '__events__':
            cons.append(('H', None, truth))
            continue
        if isinstance(n, ast.Call) and dotted(n.func) == 'isinstance' \
                and len(n.args) == 2 and norm(n.args[0]) == obj \
                and (dotted(n.args[1]) or '').split('.')[-1] == 'EventHandler':
            cons.append(('H', None, truth))
            continue
        if isinstance(n, ast.Compare) and len(n.ops) == 1 and isinstance(
                n.ops[0], ast.In) and isinstance(n.left, ast.Constant):
            r = n.comparators[0]
            if norm(r) == f'{obj}.__events__':
                cons.append(('A', n.left.value, truth))
                continue
            if isinstance(r, ast.Call) and dotted(r.func) == 'getattr' \
                    and len(r.args) == 3 and norm(r.args[0]) == obj \
                    and isinstance(r.args[1], ast.Constant) \
                    and r.args[1].value == '__events__' and (
                        (isinstance(r.args[2], (ast.Tuple, ast.List,
                                                ast.Set))
                         and not r.args[2].elts) or (
                            isinstance(r.args[2], ast.Dict)
                            and not r.args[2].keys)):
                cons.append(('HA', n.left.value, truth))
                continue
        # obj.__events__.get(EV) is None  /  obj.__events__[EV] is None: the
        # mapping holds method names, so "is None" means "EV not mapped"
        if isinstance(n, ast.Compare) and len(n.ops) == 1 and isinstance(
                n.ops[0], ast.Is) and isinstance(
                    n.comparators[0], ast.Constant) \
                and n.comparators[0].value is None:
            l = n.left
            ev_ = None
            if isinstance(l, ast.Call) and isinstance(
                    l.func, ast.Attribute) and l.func.attr == 'get' \
                    and norm(l.func.value) == f'{obj}.__events__' \
                    and 1 <= len(l.args) <= 2 and isinstance(
                        l.args[0], ast.Constant) and (
                            len(l.args) == 1 or (isinstance(
                                l.args[1], ast.Constant)
                                and l.args[1].value is None)):
                ev_ = l.args[0].value
            elif isinstance(l, ast.Subscript) and norm(l.value) == \
                    f'{obj}.__events__' and isinstance(l.slice, ast.Constant):
                ev_ = l.slice.value
            if ev_ is not None:
                cons.append(('A', ev_, not truth))
                continue
        # a condition about the object's handler-ness we cannot classify
        for sub in ast.walk(n):
            if isinstance(sub, ast.Attribute) and sub.attr == '__events__' \
                    and norm(sub.value) == obj:
                problems.append(('cond', text))
            elif isinstance(sub, ast.Call) and dotted(sub.func) in (
                    'hasattr', 'getattr') and sub.args \
                    and norm(sub.args[0]) == obj:
                problems.append(('cond', text))
    return cons


def consistent_valuations(cons, evname):
    """(H, A) valuations of one object compatible with the constraints."""
    out = []
    for H, A in ((False, False), (True, False), (True, True)):
        ok = True
        for kind, ev, truth in cons:
            if kind == 'H':
                if H != truth:
                    ok = False
            elif kind == 'A':
                if not H:
                    ok = False      # would have raised AttributeError
                elif ev == evname and A != truth:
                    ok = False
            elif kind == 'HA':
                if ev == evname and (H and A) != truth:
                    ok = False
        if ok:
            out.append((H, A))
    return out


def expected_args(site, kind):
    """Arguments a notification must carry for this site."""
    if site.table == 'self._entities':
        direct = [site.e, 'self']
    else:
        direct = []
    return direct


def check_path(st, func, results, problems):
    """Compare one path's actions with the protocol table.
    results: dict key -> {'ok': n, 'bad': [...]} keyed by (rule, site text)."""
    data = st.data
    sites = data['sites']
    acts = data['acts']
    conds = data['conds']
    by_obj = {}
    for s in sites:
        if s.kind in ('attach', 'detach'):
            by_obj.setdefault(s.c, []).append(s)
    valuation_cache = {}

    def res(rule, site):
        return results.setdefault((rule, site.func, site.text, site.line,
                                   site.kind, site.table),
                                  {'ok': 0, 'bad': []})

    for s in sites:
        if s.kind == 'detach-row-unvisited':
            res('protocol', s)['bad'].append({
                'why': 'a whole row of the component table is dropped without '
                       'a completed loop that detaches its components (no '
                       'on_remove, handlers stay registered)',
                'path': path_summary(st)})
        elif s.kind == 'attach':
            r = res('replace', s)
            if s.absent:
                r['ok'] += 1
            else:
                r['bad'].append({
                    'why': 'store into an occupied slot is possible: neither '
                           'a detach of the previous occupant nor a proof of '
                           'absence precedes it on this path',
                    'path': path_summary(st)})
    for slot, guarded, node, fn in data['replace_calls']:
        for s in sites:
            if s.kind != 'attach':
                continue
            sslot = (s.e, s.T) if s.table == 'self._entities' else s.T
            if sslot != slot:
                continue
            key = ('replace-exact', fn, norm(node), node.lineno, 'attach',
                   s.table)
            r = results.setdefault(key, {'ok': 0, 'bad': []})
            if guarded:
                r['ok'] += 1
            else:
                r['bad'].append({
                    'why': 'the replacement removes by type query without '
                           'knowing that an object of exactly this type is '
                           'present: when none is, the subclass walk detaches '
                           'an object of a subtype instead (which is not being '
                           'replaced)',
                    'path': path_summary(st)})
    for obj, ss in by_obj.items():
        localp = []
        cons = atoms_for(obj, conds, localp)
        mine = [a for a in acts if a.obj == obj]
        if localp:
            problems.append((func.qualname, ss[0].node,
                             f'condition on the handler-ness of {obj} that '
                             f'the rule cannot classify: {localp[0][1]}'))
            continue
        n_att = sum(1 for s in ss if s.kind == 'attach')
        n_det = sum(1 for s in ss if s.kind == 'detach')
        for s in ss:
            r = res('protocol', s)
            evname = ON_ADD if s.kind == 'attach' else ON_REMOVE
            regkind = 'reg' if s.kind == 'attach' else 'unreg'
            regname = 'add_handler' if regkind == 'reg' else 'remove_handler'
            n_same = n_att if s.kind == 'attach' else n_det
            regs = [a for a in mine if a.kind == regkind]
            notes = [a for a in mine if a.kind in ('direct', 'relay')
                     and a.ev == evname]
            odd = [a for a in mine if a.kind in ('direct', 'relay')
                   and a.ev not in (ON_ADD, ON_REMOVE)]
            bad = None
            val = None
            if odd:
                bad = f'notification with an unexpected event name: {odd[0]}'
            vals = consistent_valuations(cons, evname)
            for H, A in ([] if bad else vals):
                val = {'H': H, 'A': A}
                want_reg = n_same if H else 0
                want_note = n_same if (H and A) else 0
                what = ('not a handler (no __events__)' if not H else
                        f'a handler that maps {evname}' if A else
                        f'a handler that does not map {evname}')
                already = regkind == 'reg' and any(
                    t_ == f'self.is_handler({obj})' and tr_ is True
                    for t_, _n, tr_, _s in conds)
                if len(regs) != want_reg and not (
                        already and len(regs) == want_reg - 1):
                    # (registering a handler that is_handler() reports as
                    # registered changes nothing: same key, same elements)
                    bad = (f'for an object that is {what}: {len(regs)} '
                           f'call(s) of {regname}, expected {want_reg}'
                           + ('' if H else ' (the handler test is missing or '
                              'too weak on this path)'))
                    break
                if len(notes) != want_note:
                    bad = (f'for an object that is {what}: {len(notes)} '
                           f'notification(s) of {evname}, expected exactly '
                           f'{want_note}' + (
                               ': KeyError now or when dispatching is '
                               'enabled' if notes and H and not A else ''))
                    break
            if bad is None:
                for nt in notes:
                    want = expected_args(s, nt.kind)
                    got = nt.args
                    if got != want:
                        bad = (f'{nt.kind} notification carries '
                               f'({", ".join(got)}), expected '
                               f'({", ".join(want)})')
                        break
                    if nt.kind == 'direct' and not nt.fresh_d:
                        bad = ('callback invoked directly although '
                               'dispatching is not known to be enabled at '
                               'that point (flag not tested, tested false,'
                               ' or read before an earlier call-out that '
                               'may have toggled it)')
                        break
            if bad is None and s.kind == 'attach' and regs and notes:
                # registered before it is told: an on_add that detaches its
                # own component must find it registered
                ireg = min(acts.index(a) for a in regs)
                inote = min(acts.index(a) for a in notes)
                if inote < ireg:
                    bad = ('the component is told on_add before it is '
                           'registered as a listener: an on_add that removes '
                           'its own component (or deletes its entity) leaves '
                           'it registered while detached')
            if bad:
                r['bad'].append({'why': bad, 'object': obj, 'valuation': val,
                                 'actions': [repr(a) for a in mine],
                                 'path': path_summary(st)})
            else:
                r['ok'] += 1
    # actions on objects that were neither attached nor detached here
    loose = [a for a in acts if a.obj not in by_obj and a.obj != 'self']
    return loose


def path_summary(st, limit=14):
    out = []
    for text, node, truth, stamp in st.data['conds']:
        out.append(f'{"" if truth else "not "}({text})')
    return out[-limit:]


def analyse_world(program, rep, prop, tables, rules_prefix):
    """Walk every method of World (and in-repo subclasses' overrides).

    Methods are analysed callees-first; a method that carries sites of its own
    is verified once, for symbolic parameters, and its callers use its summary
    (which slots / rows are vacated on every exit compatible with what the
    caller knows) instead of inlining it.
    """
    world = program.cls('World')
    results = {}
    problems = []
    stats = {}
    loose_all = []
    relay_wipe = {}
    selfreg = {}
    sites_seen = set()
    summaries = {}
    inprogress = set()
    per_method = {}
    total = {'paths': 0}

    def analyse(m, c):
        if m.name in summaries:
            return summaries[m.name]
        if m.name in inprogress or m.name == '_on_single_dispatch':
            return None
        inprogress.add(m.name)
        dom = LifeDomain(program, summaries, analyse)
        w = Walker(program, dom)
        exits = w.run(m, c)
        total['paths'] += len(exits)
        stats[m.qualname] = {'paths': len(exits), 'cut': w.cuts}
        summ = Summary(m)
        results_m = {}
        problems_m = []
        for fn, node, why in dom.problems:
            problems_m.append((fn, node, why))
        for ex in exits:
            st = ex.state
            if ex.kind == 'raise':
                continue
            own = [s for s in st.data['sites']]
            if own or st.data['summary_calls']:
                summ.has_sites = True
            for s in own:
                sites_seen.add((s.func, s.text))
                summ.tables.add(s.table)
            for name, _, _, _ in st.data['summary_calls']:
                summ.tables |= summaries[name].tables
            if st.versions.get('self._dispatch_enabled', 0):
                summ.callouts = True
            if any(k == 'relay' for k, _, _ in st.data['queue']):
                summ.relays = True
            entry = []
            for text, node, truth, stamp in st.data['conds']:
                tv = [v for f, v in stamp if f in TABLES]
                if all(v == 0 for v in tv) and any(t in text
                                                   for t in TABLES):
                    entry.append((text, truth))
            summ.exits.append({'entry': entry,
                               'vacated': set(st.data['vacated']),
                               'rows_gone': set(st.data['rows_gone'])})
            loose = check_path(st, m, results_m, problems_m)
            if st.data['sites']:
                for a in loose:
                    loose_all.append((m.qualname, a))
            q = st.data['queue']
            seen_relay = None
            for kind, node, fn in q:
                if kind == 'relay':
                    seen_relay = (node, fn)
                elif kind == 'wipe' and seen_relay is not None:
                    relay_wipe.setdefault((m.qualname, norm(node)), {
                        'line': node.lineno, 'relay': norm(seen_relay[0]),
                        'relay_in': seen_relay[1], 'path': path_summary(st)})
            sr = st.data['selfreg']
            if any(k == 'wipe' for k, _, _ in sr) or m.name == '__init__':
                last = sr[-1][0] if sr else None
                d = selfreg.setdefault(m.qualname, {'ok': 0, 'bad': []})
                if last == 'reg':
                    d['ok'] += 1
                else:
                    d['bad'].append(path_summary(st))
        # A private helper that performs only part of a protocol (its own
        # analysis reports violations) is judged in the context of its
        # callers: it is inlined there instead of being summarised.
        private = m.name.startswith('_') and not m.name.startswith('__')
        summ.inline_only = private and (any(v['bad'] for v in
                                            results_m.values())
                                        or bool(problems_m))
        per_method[m.name] = (summ, results_m, problems_m)
        inprogress.discard(m.name)
        summaries[m.name] = summ
        return summ

    for c in [world] + program.subclasses(world):
        for m in c.methods.values():
            if m.kind in ('method',):
                analyse(m, c)
    for name, (summ, results_m, problems_m) in per_method.items():
        if summ.inline_only and getattr(summ, 'inlined', False):
            continue        # reported through the callers that inline it
        for k, v in results_m.items():
            r = results.setdefault(k, {'ok': 0, 'bad': []})
            r['ok'] += v['ok']
            r['bad'] += v['bad']
        problems.extend(problems_m)
    return dict(results=results, problems=problems, npaths=total['paths'],
                stats=stats, loose=loose_all, relay_wipe=relay_wipe,
                selfreg=selfreg, sites=sites_seen, summaries=summaries)
