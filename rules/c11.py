"""C11 - resource paths, shadowing and back-links stay consistent."""
import ast

from dlint.model import AnalysisError, dotted, norm, strip_docstring
from dlint.walk import Domain, Walker, loopvar_name

EXPLANATION = (
    'Static rules over ResourceMap (desper/model/tree.py), __setitem__ / get '
    '/ __getitem__ walked path by path (PathEval; the key loop 0/1/2 times, '
    'layer loops 0/1/2 times). backlink: every store of an object V into '
    'M.maps[k] or M.handles[k] is accompanied on the same path by V.parent = '
    'M and V.key = k (same canonical M and k; the second loop iteration '
    'distinguishes the current map from self); setdefault with a constructed '
    'default is a store without back-links. exclusive: a store into M.maps[k] '
    'is accompanied by a completed (no break) loop over M.handles.maps popping '
    'k from every layer, a store into M.handles[k] by the removal of k from '
    'M.maps. chainmap: ChainMap.pop / del / clear on `handles` act on the '
    'first layer only and are violations where total removal is needed. '
    'clear: back-links of the children in every handle layer and of every '
    'sub-map are reset before the containers are dropped, and every layer is '
    'dropped. lookup: get and __getitem__ are each checked against one lookup '
    'plan - split on self.split_char, all parts but the last through '
    '.maps[part], the last part decided by a membership test on handles, '
    '__getitem__ returning the handle called / get the handle itself, else '
    'the sub-map; get has exactly one handler, for KeyError, around the whole '
    'walk, returning the default.')
RULE = 'one obligation per (rule, function, statement)'
NOT_DECIDED = ['split_char changed at run time', 'cyclic trees']
ASSUMPTIONS = ['ChainMap: in / [] / items() see all layers, pop/del/clear '
               'only the first; `maps` is the list of layers']


class _D(Domain):
    loop_bound = 2

    def resolve_call(self, st, call, walker):
        # private helpers extracted from the analysed code are followed
        return walker.resolve_helper(st, call)

    counts = [0, 1, 2]

    def for_counts(self, st, node, itersym):
        return list(self.counts)

    def decide(self, st, sym, node):
        from dlint.walk import fold_truth
        n = sym.node
        if isinstance(n, ast.Call) and dotted(n.func) == 'isinstance':
            if len(n.args) == 2 and isinstance(n.args[0], ast.Call) \
                    and norm(n.args[0].func) == norm(n.args[1]):
                return True         # isinstance(C(), C)
            # what __setitem__ files (C11.exclusive): a value goes to `.maps`
            # exactly when it is a ResourceMap, to a layer of `.handles`
            # otherwise - so the class of a value READ from one of the two
            # containers is known as far as ResourceMap is concerned
            if len(n.args) == 2 and norm(n.args[1]) == 'ResourceMap' \
                    and isinstance(n.args[0], ast.Subscript):
                cont = norm(n.args[0].value)
                if cont.endswith('.maps') and not cont.endswith(
                        '.handles.maps'):
                    return True
                if cont.endswith('.handles'):
                    return False
            return None
        return fold_truth(n)


def _container_store(tnode):
    """M.maps[k] / M.handles[k] -> (M text, 'maps'|'handles', k text)."""
    if isinstance(tnode, ast.Subscript) and isinstance(
            tnode.value, ast.Attribute) and tnode.value.attr in ('maps',
                                                                 'handles'):
        return norm(tnode.value.value), tnode.value.attr, norm(tnode.slice)
    return None


def check_setitem(program, rep):
    rm = program.cls('ResourceMap')
    f = program.method('ResourceMap', '__setitem__', inherited=False)
    site = f.where
    w = Walker(program, _D(program))
    exits = w.run(f, rm)
    rep.count('paths', len(exits))
    res = {}
    nstores = 0

    def r(rule, node):
        return res.setdefault((rule, norm(node), getattr(node, 'lineno', 0)),
                              {'ok': 0, 'bad': []})

    for ex in exits:
        if ex.kind == 'raise':
            continue
        tr = ex.state.trace
        stores = []
        attrs = {}      # 'V.parent' -> value text list
        attr_log = []   # (index, object text, attr, value text, event)
        calls = []
        loops = {}      # iter text -> {'items': [...], 'complete': bool}
        cur_loop = []
        for i, e in enumerate(tr):
            if e.kind == 'store' and e.target is not None:
                cs = _container_store(e.target.node)
                if cs:
                    stores.append((i, e, cs))
                tn = e.target.node
                if isinstance(tn, ast.Attribute) and tn.attr in ('parent',
                                                                 'key'):
                    attrs.setdefault((norm(tn.value), tn.attr), []).append(
                        e.sym.text)
                    attr_log.append((i, norm(tn.value), tn.attr, e.sym.text,
                                     e))
            if e.kind == 'call' and isinstance(e.sym.node, ast.Call):
                calls.append((i, e))
                cn = e.sym.node
                if isinstance(cn.func, ast.Attribute) and cn.func.attr == \
                        'setdefault' and isinstance(
                            cn.func.value, ast.Attribute) \
                        and cn.func.value.attr in ('maps', 'handles') \
                        and len(cn.args) == 2 and isinstance(
                            cn.args[1], ast.Call):
                    r('backlink', e.node)['bad'].append(
                        'an object is created and stored with setdefault(): '
                        'it gets neither parent nor key, so walking .parent '
                        'from a nested resource stops short of the root')
            if e.kind == 'for':
                loops[e.sym.text] = {'n': 0, 'complete': False,
                                     'node': e.node}
            if e.kind == 'for-item':
                loops[e.sym.text]['n'] += 1
            if e.kind == 'for-end':
                loops[e.sym.text]['complete'] = True
        for i, e, (M, kind, k) in stores:
            nstores += 1
            V = e.sym.text
            # ---- backlink
            rr = r('backlink', e.node)
            par = attrs.get((V, 'parent'), [])
            key = attrs.get((V, 'key'), [])
            # a later reset of the back-links of an object read from the
            # tables (the "replaced" child) may hit V itself: assigning the
            # object that is already stored there is legal
            undone = None
            mine = [j for j, o, a, v, _ in attr_log if o == V]
            for j, o, a, v, ev2 in attr_log:
                if o == V or not mine or j < max(mine):
                    continue
                if not any(w_ in o for w_ in ('.maps', '.handles')):
                    continue
                distinct = any(x.kind == 'cond' and x.extra is False
                               and x.sym.text in (f'{o} is {V}', f'{V} is {o}')
                               for x in tr[:j])
                if not distinct:
                    undone = (o, a, v, ev2)
            if undone is not None:
                rr['bad'].append(
                    f'after the back-links of {V} are set, {undone[0]}.'
                    f'{undone[1]} is overwritten with {undone[2]} - and '
                    f'{undone[0]} may be {V} itself (m[k] = m.get(k) assigns '
                    'the object already stored there): the map stays '
                    'reachable but its parent/key no longer name its '
                    'container')
            elif M in par and k in key:
                rr['ok'] += 1
            else:
                rr['bad'].append(
                    f'{V} is stored under {M}.{kind}[{k}] but on this path '
                    f'its parent is set to {par or "nothing"} and its key to '
                    f'{key or "nothing"}: the back-links do not name the map '
                    'that contains it / the name it is stored under')
            # ---- exclusive
            rr = r('exclusive', e.node)
            absent = any(x.kind == 'cond' and x.extra is False
                         and x.sym.text == f'{k} in {M}.handles'
                         for x in tr[:i])
            if kind == 'maps' and absent:
                # no layer of the ChainMap holds the name: nothing to remove
                rr['ok'] += 1
            elif kind == 'maps':
                lp = loops.get(f'{M}.handles.maps')
                ok = False
                why = (f'no loop over every layer of {M}.handles removes {k} '
                       'before the sub-map is stored: a handle of the same '
                       'name stays reachable (the name denotes both)')
                if lp is not None:
                    if not lp['complete']:
                        why = ('the loop over the handle layers can stop '
                               'early (break): a handle of the same name in a '
                               'lower layer resurfaces')
                    else:
                        itertext = f'{M}.handles.maps'
                        ok = True
                        for j in range(lp['n']):
                            item = loopvar_name(itertext, j)
                            if not any(
                                    norm(c.sym.node.func) == f'{item}.pop'
                                    and c.sym.node.args and norm(
                                        c.sym.node.args[0]) == k
                                    and len(c.sym.node.args) == 2
                                    for _, c in calls):
                                ok = False
                                why = (f'a layer of {M}.handles is visited '
                                       f'without popping {k} from it')
                if ok:
                    rr['ok'] += 1
                else:
                    rr['bad'].append(why)
            else:
                ok = any(norm(c.sym.node.func) == f'{M}.maps.pop'
                         and c.sym.node.args and norm(c.sym.node.args[0]) == k
                         and len(c.sym.node.args) == 2 for _, c in calls)
                if ok:
                    rr['ok'] += 1
                else:
                    rr['bad'].append(
                        f'the handle is stored under {M}.handles[{k}] without '
                        f'removing {k} from {M}.maps: the name denotes both a '
                        'handle and a sub-map')
    vp = f.params()[2] if len(f.params()) > 2 else 'value'
    unstored = [ex for ex in exits if ex.kind != 'raise' and not any(
        e.kind == 'store' and e.target is not None and _container_store(
            e.target.node) and e.sym.text == vp for e in ex.state.trace)]
    rep.check(not unstored, 'C11.exclusive', site,
              f'{vp} is stored on every path',
              'the latest assignment wins: every path stores the value',
              'a path of __setitem__ returns without storing the value (a '
              'shortcut taken from stale back-links): assigning a resource '
              'again under a name it held before is silently ignored',
              line=getattr(unstored[0].node, 'lineno', f.node.lineno)
              if unstored else f.node.lineno)
    rep.floor('C11.backlink', 'stores into maps/handles on the paths of '
              '__setitem__', nstores, 3)
    for (rule, text, line), d in sorted(res.items(), key=lambda kv: kv[0][2]):
        if d['bad']:
            rep.bad(f'C11.{rule}', site, text, d['bad'][0],
                    detail={'failing_paths': len(d['bad']),
                            'conforming_paths': d['ok']}, line=line)
        else:
            rep.ok(f'C11.{rule}', site, text,
                   f'holds on all {d["ok"]} paths', line=line)


def check_chainmap(program, rep):
    """First-layer-only ChainMap operations on `handles`."""
    rm = program.cls('ResourceMap')
    n = 0
    for f in program.all_functions():
        for x in ast.walk(f.node):
            bad = None
            if isinstance(x, ast.Call) and isinstance(x.func, ast.Attribute) \
                    and x.func.attr in ('pop', 'clear', 'popitem') \
                    and isinstance(x.func.value, ast.Attribute) \
                    and x.func.value.attr == 'handles':
                bad = x
            if isinstance(x, ast.Delete):
                for t in x.targets:
                    if isinstance(t, ast.Subscript) and isinstance(
                            t.value, ast.Attribute) and t.value.attr == \
                            'handles':
                        bad = x
            if bad is None:
                continue
            n += 1
            # tolerated when the other layers are dropped in the same function
            drops = any(isinstance(y, ast.Delete) and any(
                norm(t).endswith('.handles.maps[1:]') for t in y.targets)
                for y in ast.walk(f.node))
            rep.check(drops, 'C11.chainmap', f.where, bad,
                      'first-layer operation, the other layers are dropped '
                      'in the same function',
                      f'{norm(bad)} acts on the first layer of the ChainMap '
                      'only: a shadowed handle of that name (or every '
                      'shadowed layer) survives and becomes visible again',
                      line=bad.lineno)
    if n == 0:
        rep.ok('C11.chainmap', f'{rm.module.relpath}:ResourceMap',
               'handles.pop / del handles[k] / handles.clear',
               'no first-layer-only ChainMap operation on `handles` in the '
               'package', nontrivial=False)
    # synthetic positive: the matcher must see the classic mistake
    probe = ast.parse('def f(self, k):\n    self.handles.pop(k, None)\n')
    hit = any(isinstance(x, ast.Call) and isinstance(x.func, ast.Attribute)
              and x.func.attr == 'pop' and isinstance(
                  x.func.value, ast.Attribute)
              and x.func.value.attr == 'handles' for x in ast.walk(probe))
    if not hit:
        rep.error('C11.chainmap: matcher self-test failed')


class _C(_D):
    def for_counts(self, st, node, itersym):
        return [1]


def check_clear(program, rep):
    """Path based: every child in every handle layer and every sub-map gets
    its back-links reset before the containers are dropped; everything is
    dropped."""
    rm = program.cls('ResourceMap')
    f = program.method('ResourceMap', 'clear', inherited=False)
    site = f.where
    w = Walker(program, _C(program))
    exits = [e for e in w.run(f, rm) if e.kind != 'raise']
    rep.count('paths', len(exits))
    bad = {}
    n_paths = 0

    def flag(k, why):
        bad.setdefault(k, why)

    for ex in exits:
        tr = ex.state.trace
        n_paths += 1
        # children visited
        layer_items = [e for e in tr if e.kind == 'for-item'
                       and e.sym.text == 'self.handles.maps'
                       and not (e.extra and isinstance(e.extra, dict))]
        layers = {e.target.text for e in layer_items}
        handle_items = []
        map_items = []
        for e in tr:
            if e.kind != 'for-item' or (isinstance(e.extra, dict)
                                        and e.extra.get('generator')):
                continue
            base = e.sym.node
            from rules.lifecycle import unwrap_iter
            b, view = unwrap_iter(base)
            if view == 'values' and norm(b) in layers:
                handle_items.append(e)
            if view == 'values' and norm(b) == 'self.maps':
                map_items.append(e)
        first_drop = None
        drops = {'maps': False, 'first_layer': False, 'rest': False,
                 'layers': set(), 'rebind': False}
        stores = {}
        for i, e in enumerate(tr):
            if e.kind == 'store' and e.target is not None:
                tn = e.target.node
                if isinstance(tn, ast.Attribute) and tn.attr in ('parent',
                                                                 'key') \
                        and isinstance(e.sym.node, ast.Constant) \
                        and e.sym.node.value is None:
                    stores.setdefault(norm(tn.value), {})[tn.attr] = i
                if e.target.text == 'self.maps':
                    drops['maps'] = True
                    first_drop = first_drop if first_drop is not None else i
                if e.target.text == 'self.handles':
                    drops['rebind'] = True
                    first_drop = first_drop if first_drop is not None else i
            if e.kind == 'call' and isinstance(e.sym.node, ast.Call):
                t = norm(e.sym.node.func)
                if t == 'self.maps.clear':
                    drops['maps'] = True
                    first_drop = first_drop if first_drop is not None else i
                elif t == 'self.handles.clear':
                    drops['first_layer'] = True
                    first_drop = first_drop if first_drop is not None else i
                elif t.endswith('.clear') and t[:-6] in layers:
                    drops['layers'].add(t[:-6])
                    first_drop = first_drop if first_drop is not None else i
            if e.kind == 'del' and e.target.text == 'self.handles.maps[1:]':
                drops['rest'] = True
        if not layer_items or not handle_items:
            flag('handles', 'clear() does not visit the handles of every '
                 'layer of the ChainMap (only the visible ones, or none): '
                 'former children still point to the cleared map')
        if not map_items:
            flag('maps', 'clear() does not visit its sub-maps to reset their '
                 'parent/key')
        for kind, items in (('handles', handle_items), ('maps', map_items)):
            for it in items:
                x = it.target.text
                conds = {e.sym.text: e.extra for e in tr if e.kind == 'cond'}
                is_child = conds.get(f'{x}.parent == self')
                if is_child is None:
                    is_child = conds.get(f'{x}.parent is self')
                st_ = stores.get(x, {})
                if is_child is False:
                    continue
                if is_child is None and ('parent' in st_ or 'key' in st_):
                    flag(kind, f'the back-links of {x} are reset without '
                         'testing that its parent is this map: a resource '
                         'that was meanwhile assigned into another map is '
                         'detached from that map')
                    continue
                if 'parent' not in st_ or 'key' not in st_:
                    flag(kind, f'a child ({x}) of the cleared map keeps its '
                         'parent / key')
                else:
                    # the child must have been drawn from its container
                    # before that container was emptied
                    from rules.lifecycle import unwrap_iter as _ui
                    own = norm(_ui(it.sym.node)[0])
                    drawn = next(i_ for i_, e_ in enumerate(tr) if e_ is it)
                    dropped_at = [i_ for i_, e_ in enumerate(tr) if (
                        e_.kind == 'call' and isinstance(
                            e_.sym.node, ast.Call) and norm(
                                e_.sym.node.func) in (
                                    f'{own}.clear', 'self.handles.clear'
                                    if kind == 'handles' else f'{own}.clear'))
                        or (e_.kind == 'store' and e_.target is not None
                            and e_.target.text == ('self.handles' if kind
                                                   == 'handles' else own))]
                    if dropped_at and dropped_at[0] < drawn:
                        flag(kind, 'the containers are dropped before the '
                             'back-links of the children are reset')
        all_layers = drops['rebind'] or (layers and layers
                                         <= drops['layers']) or (
            drops['first_layer'] and drops['rest'])
        if not drops['maps'] or not all_layers:
            flag('drop', 'clear() does not empty every layer of `handles` '
                 '(ChainMap.clear only clears the first one) or keeps the '
                 'sub-maps: shadowed handles stay reachable after clear()')
    if n_paths == 0:
        rep.inconclusive('C11.clear', site, 'clear', 'no path')
        return
    for k, okmsg in (('handles', 'the back-links of the handles of every '
                                 'layer are reset before the containers are '
                                 'dropped'),
                     ('maps', 'the back-links of the sub-maps are reset '
                              'before they are dropped'),
                     ('drop', 'sub-maps dropped and every layer of handles '
                              'emptied')):
        rep.check(k not in bad, 'C11.clear', site, f'clear(): {k}', okmsg,
                  bad.get(k, ''), line=f.node.lineno)


def _desentinel(program, module, node):
    """X.get(k, S) for a private sentinel object S reads the slot X[k]; the
    test `X.get(k, S) is S` is `k not in X`.  Returns (node', membership)
    where membership is (text 'k in X', negated?) for such a test."""
    import copy
    node = copy.deepcopy(node)

    def is_get(c):
        return isinstance(c, ast.Call) and isinstance(
            c.func, ast.Attribute) and c.func.attr == 'get' and len(
                c.args) == 2 and isinstance(c.args[1], ast.Name) \
            and program.is_sentinel(module, c.args[1].id)
    member = None
    if isinstance(node, ast.Compare) and len(node.ops) == 1 and isinstance(
            node.ops[0], (ast.Is, ast.IsNot, ast.Eq, ast.NotEq)) \
            and is_get(node.left) and isinstance(
                node.comparators[0], ast.Name) and node.comparators[0].id \
            == node.left.args[1].id:
        member = (f'{norm(node.left.args[0])} in '
                  f'{norm(node.left.func.value)}',
                  isinstance(node.ops[0], (ast.Is, ast.Eq)))

    class T(ast.NodeTransformer):
        def visit_Call(self, c):
            self.generic_visit(c)
            if is_get(c):
                return ast.Subscript(c.func.value, c.args[0], ast.Load())
            return c
    return ast.fix_missing_locations(T().visit(node)), member


def check_prefix_guard(program, rep):
    """`p, s, last = key.rpartition(c)`: p is empty both when c does not occur
    (s == '') and for keys of the form c + 'x' (s == c).  A walk over the
    prefix that is skipped when p is falsy treats '/x' as the plain key 'x',
    although its parts are ['', 'x'] - m['/x'] and m['']['x'] then denote
    different things."""
    rm = program.cls('ResourceMap')
    for f in rm.methods.values():
        for st in ast.walk(f.node):
            if not (isinstance(st, ast.Assign) and len(st.targets) == 1
                    and isinstance(st.targets[0], ast.Tuple)
                    and len(st.targets[0].elts) == 3
                    and all(isinstance(e, ast.Name)
                            for e in st.targets[0].elts)
                    and isinstance(st.value, ast.Call)
                    and isinstance(st.value.func, ast.Attribute)
                    and st.value.func.attr in ('rpartition', 'partition')):
                continue
            p_ = st.targets[0].elts[0 if st.value.func.attr == 'rpartition'
                                    else 2].id
            for n in ast.walk(f.node):
                if isinstance(n, (ast.If, ast.IfExp)) and isinstance(
                        n.test, ast.Name) and n.test.id == p_:
                    body = n.body if isinstance(n.body, list) else [n.body]
                    if any(isinstance(x, ast.Call) and isinstance(
                            x.func, ast.Attribute) and x.func.attr == 'split'
                            and isinstance(x.func.value, ast.Name)
                            and x.func.value.id == p_
                            for b in body for x in ast.walk(b)):
                        rep.bad('C11.lookup', f.where, n.test,
                                f'the walk over the key parts is skipped when '
                                f'`{p_}` (the text before the last separator) '
                                'is empty - which is also the case for keys '
                                'written with ONE leading separator: '
                                "m['/x'] is taken for m['x'] although its "
                                "parts are ['', 'x'], so m['/x'] and "
                                "m['']['x'] denote different resources",
                                line=n.test.lineno)


def check_lookup(program, rep):
    check_prefix_guard(program, rep)
    rm = program.cls('ResourceMap')
    for name, called in (('__getitem__', True), ('get', False)):
        f = program.method('ResourceMap', name, inherited=False)
        site = f.where
        keyp = f.params()[1]
        w = Walker(program, _D(program))
        exits = w.run(f, rm)
        rep.count('paths', len(exits))
        split = f'{keyp}.split(self.split_char)'
        parts_iter = f'{split}[:-1]'
        last = f'{split}[-1]'
        bad = None
        unrecognised = None
        nret = 0
        for ex in exits:
            if ex.kind != 'return':
                continue
            tr = ex.state.trace
            n_it = sum(1 for e in tr if e.kind == 'for-item'
                       and e.sym.text == parts_iter)
            has_loop = any(e.kind == 'for' and e.sym.text == parts_iter
                           for e in tr)
            V = 'self'
            for j in range(n_it):
                V = f'{V}.maps[{loopvar_name(parts_iter, j)}]'
            val = ex.payload.text if ex.payload is not None else 'None'
            if ex.payload is not None:
                val = norm(_desentinel(program, f.module,
                                       ex.payload.node)[0])
            if not has_loop:
                # functools.reduce(step, parts, self) with step(m, part) ==
                # m.maps[part] is the same walk
                for rname in ('functools.reduce', 'reduce'):
                    pre = f'{rname}('
                    k = val.find(pre)
                    if k < 0:
                        continue
                    try:
                        tree = ast.parse(val, mode='eval').body
                    except SyntaxError:
                        continue
                    for c in ast.walk(tree):
                        if isinstance(c, ast.Call) and dotted(c.func) == \
                                rname and len(c.args) == 3 and norm(
                                    c.args[1]) == parts_iter and norm(
                                        c.args[2]) == 'self':
                            stepf = None
                            if isinstance(c.args[0], ast.Lambda):
                                stepf = c.args[0]
                                ps_ = [a.arg for a in stepf.args.args]
                                body_ = stepf.body
                            else:
                                r_ = program.lookup(f.module, norm(c.args[0]))
                                if r_ and r_[0] == 'func':
                                    ps_ = r_[1].params()
                                    b_ = strip_docstring(r_[1].node.body)
                                    body_ = b_[0].value if len(
                                        b_) == 1 and isinstance(
                                            b_[0], ast.Return) else None
                                    stepf = r_[1]
                            if stepf is not None and body_ is not None \
                                    and len(ps_) == 2 and norm(body_) == \
                                    f'{ps_[0]}.maps[{ps_[1]}]':
                                V = norm(c)
                                has_loop = True
            if val == 'default' and name == 'get':
                continue
            nret += 1
            conds = {e.sym.text: e.extra for e in tr if e.kind == 'cond'}
            for e in tr:
                if e.kind == 'cond':
                    _, mem = _desentinel(program, f.module, e.sym.node)
                    if mem is not None:
                        conds[mem[0]] = (not e.extra) if mem[1] else e.extra
            in_h = conds.get(f'{last} in {V}.handles')
            in_m = conds.get(f'{last} in {V}.maps')
            want_h = f'{V}.handles[{last}]' + ('()' if called else '')
            want_m = f'{V}.maps[{last}]'
            ok = has_loop and (
                (val == want_h and (in_h is True or in_m is False))
                or (val == want_m and (in_h is False or in_m is True)))
            if not has_loop or last not in val:
                # the walk over the key parts / the last part are not in the
                # shape this rule reads (e.g. the part list is consumed with
                # pop()): no verdict
                unrecognised = ex.node
                continue
            if not ok and bad is None:
                bad = (ex.node, val, want_h, want_m, n_it)
        if nret == 0:
            rep.inconclusive('C11.lookup', site, f.node.name,
                             'no returning path found')
            continue
        if unrecognised is not None and bad is None:
            rep.inconclusive('C11.lookup', site, f.node.name,
                             'the walk over the key parts (for part in '
                             'key.split(..)[:-1]) and the lookup of the last '
                             'part were not recognised on some path',
                             line=getattr(unrecognised, 'lineno', None))
            continue
        rep.check(bad is None, 'C11.lookup', site,
                  bad[0] if bad else f'{name}: lookup plan',
                  f'on all {nret} returning paths the result is the handle'
                  f'{" called" if called else ""} or the sub-map found under '
                  'the last key part in the map reached through the other '
                  'parts, decided by a membership test',
                  (f'a path returns {bad[1]}; the lookup plan allows '
                   f'{bad[2]} (when the last part names a handle) or '
                   f'{bad[3]} (otherwise)') if bad else '',
                  line=getattr(bad[0], 'lineno', f.node.lineno) if bad
                  else f.node.lineno)
    # get: every step of the walk (loops over the key parts, subscripts of
    # maps / handles) lies in the body of a try whose only handler is
    # `except KeyError: return default`; nothing else is swallowed
    f = program.method('ResourceMap', 'get', inherited=False)
    tries = [n for n in ast.walk(f.node) if isinstance(n, ast.Try)]
    dflt = f.params()[2] if len(f.params()) > 2 else 'default'
    why = None
    if not tries:
        why = 'no try statement in get()'
    protected = set()
    for t in tries:
        names = [norm(h.type) if h.type is not None else None
                 for h in t.handlers]
        ret_default = len(t.handlers) == 1 and len(t.handlers[0].body) == 1 \
            and isinstance(t.handlers[0].body[0], ast.Return) and norm(
                t.handlers[0].body[0].value) == dflt
        if names != ['KeyError'] or not ret_default or t.finalbody:
            why = why or (f'a try in get() has handlers {names} '
                          f'(returns default: {ret_default})')
        for s in t.body:
            for x in ast.walk(s):
                protected.add(id(x))
    for n in ast.walk(f.node):
        risky = isinstance(n, ast.For) or (
            isinstance(n, ast.Subscript) and isinstance(
                n.value, ast.Attribute) and n.value.attr in ('maps',
                                                             'handles')
            and isinstance(n.ctx, ast.Load))
        if risky and id(n) not in protected:
            why = why or (f'`{norm(n)[:50]}` is evaluated outside the '
                          'KeyError handler')
    rep.check(why is None, 'C11.lookup', f.where,
              tries[0] if tries else f.node.name,
              'get returns its default exactly when the walk raises KeyError',
              'get() does not run every step of the walk under a KeyError '
              'handler returning the default (' + (why or '') + '): it '
              'returns the default where [] succeeds, raises where [] raises '
              'KeyError, or swallows other errors', line=f.node.lineno)


def check_identity(program, rep):
    """Back-links name ONE parent object.  When maps (or handles) compare by
    content, a guard written `x.parent == self` also holds for a different
    map with equal content - e.g. two empty maps - and the guard takes a child
    that lives elsewhere for its own."""
    rm = program.cls('ResourceMap')
    fam = [rm] + program.subclasses(rm)
    try:
        hd = program.cls('Handle')
        fam += [hd] + program.subclasses(hd)
    except AnalysisError:
        pass
    by_content = [c for c in fam if '__eq__' in c.methods]
    n = 0
    bad = None
    for c in fam:
        for f in c.methods.values():
            for cmp_ in ast.walk(f.node):
                if not (isinstance(cmp_, ast.Compare) and len(cmp_.ops) == 1):
                    continue
                sides = [cmp_.left, cmp_.comparators[0]]
                if not any(isinstance(s, ast.Attribute) and s.attr == 'parent'
                           for s in sides):
                    continue
                if any(isinstance(s, ast.Constant) for s in sides):
                    continue
                n += 1
                if isinstance(cmp_.ops[0], (ast.Eq, ast.NotEq)) \
                        and by_content and bad is None:
                    bad = (f, cmp_)
    if bad is not None:
        rep.bad('C11.backlink', bad[0].where, bad[1],
                f'{by_content[0].name} compares by content (__eq__ is '
                f'defined) and this guard tests the back-link with '
                f'{norm(bad[1])}: a child filed in ANOTHER map of equal '
                'content (two empty maps are equal) passes for a child of '
                'this one - its parent/key are reset (or kept) by the wrong '
                'map', line=bad[1].lineno)
    else:
        rep.ok('C11.backlink', f'{rm.module.relpath}:ResourceMap',
               'guards on .parent',
               f'{n} comparison(s) of a back-link: by identity, or no class '
               'of the tree defines content equality', nontrivial=False)


def run(program, rep, tier):
    check_identity(program, rep)
    _D.counts = [0, 1, 2, 3] if tier == 'thorough' else [0, 1, 2]
    rep.extra['loop_counts'] = _D.counts
    check_setitem(program, rep)
    check_chainmap(program, rep)
    check_clear(program, rep)
    check_lookup(program, rep)
