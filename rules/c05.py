"""C05 - deferred entity deletion is applied at the next process, safely."""
import ast

from dlint.model import AnalysisError, dotted, norm
from dlint.walk import Domain, Walker, fold_truth
from rules.lifecycle import chain, unwrap_iter
from rules import c02

EXPLANATION = (
    'Static rules over World.delete_entity / _clear_dead_entities (the '
    '"applier") / process / every method that deletes a row of _entities. '
    'mark: the deferred branch of delete_entity only adds to the pending set. '
    'first: in process() the applier call precedes the processor loop on '
    'every path. visible: the component queries do not read the pending set. '
    'subset (check-or-maintain): every row delete of _entities is followed, '
    'on every path, by the discard of that id from the pending set (so a '
    'pending id always has a row), and the applier draws each id from the '
    'live pending set immediately before tearing it down; if instead it '
    'iterates a snapshot, every row access in it must be guarded by a '
    'membership test. progress: walking the applier with one exception edge '
    'per call-out (PathEval), every exceptional exit finds the id being torn '
    'down already removed from the pending set, and the pending set is not '
    'iterated live while call-outs can change it. clear: the pending set is '
    'only wiped after every row has been deleted. The teardown protocol '
    'itself is C02.')
RULE = 'one obligation per (rule, function, statement)'
NOT_DECIDED = ['partial teardown when an on_remove raises midway through one '
               "entity's components",
               'marks added for entities that never existed (process raises '
               'KeyError by design, tests/test_logic.py::test_delete_entity)']
ASSUMPTIONS = ['set.pop() removes the element it returns']

E, DEAD = 'self._entities', 'self._dead_entities'
PRIM = {'add_handler', 'remove_handler', 'dispatch', 'is_handler',
        '_remove_weak_handler'}


class _Dom(Domain):
    loop_bound = 2

    def __init__(self, program, inline=False, exc=False):
        super().__init__(program)
        self.inline = inline
        self.follow_exceptions = exc

    def resolve_call(self, st, call, walker):
        if not self.inline:
            return walker.resolve_helper(st, call, skip={
                '_delete_entity_now', '_clear_dead_entities',
                '_on_single_dispatch'})
        r = walker.default_resolve(st, call)
        if r is None or r[0].name in PRIM or r[0].name in (
                'remove_component', 'remove_processor'):
            return None
        return r

    def for_counts(self, st, node, itersym):
        return [0, 1]

    def may_raise(self, st, ev):
        if ev.kind != 'call' or ev.func is not None:
            return False
        cn = ev.sym.node
        if not isinstance(cn, ast.Call):
            return False
        d = dotted(cn.func)
        if d in ('hasattr', 'getattr', 'type', 'tuple', 'list', 'set',
                 'isinstance', 'len'):
            return False
        if d and d.startswith('self._') and d.split('.')[-1] in (
                'add', 'discard', 'pop', 'items', 'values', 'keys', 'get',
                'clear', 'copy'):
            return False
        return True

    def decide(self, st, sym, node):
        n = sym.node
        if isinstance(n, ast.Compare) and len(n.ops) == 1 and isinstance(
                n.ops[0], ast.Is) and isinstance(
                    n.comparators[0], ast.Constant) \
                and n.comparators[0].value is None \
                and norm(n.left).startswith('self._entities['):
            return False
        return fold_truth(n)

    def on_event(self, st, ev):
        if ev.kind == 'local' and ev.sym is not None and ev.sym.tag == \
                'fresh' and isinstance(ev.sym.info, dict) \
                and 'call' in ev.sym.info \
                and '_dead_entities' in ev.sym.info['call'].text:
            # e.g. entity = next(iter(self._dead_entities)): drawn, not removed
            st.data.setdefault('peeked', set()).add(ev.sym.text)
        return super().on_event(st, ev)


def _in_keyerror_try(program, tr, e):
    """Is the node of this event inside a try whose handlers catch KeyError?"""
    funcs = {x.frame_func for x in tr if x.frame_func is not None}
    for f in funcs:
        for t in ast.walk(f.node):
            if isinstance(t, ast.Try) and any(
                    e.node is x for s in t.body for x in ast.walk(s)):
                for h in t.handlers:
                    names = [h.type] if not isinstance(
                        h.type, ast.Tuple) else h.type.elts
                    if h.type is None or any(
                            (dotted(n) or '').split('.')[-1] in (
                                'KeyError', 'LookupError', 'Exception',
                                'BaseException') for n in names):
                        return True
    return False


def _row_delete_key(e):
    """Entity text if the event deletes a whole row of _entities."""
    if e.kind == 'del':
        b, keys = chain(e.target.node)
        if b == E and len(keys) == 1:
            return norm(keys[0])
    if e.kind == 'call' and isinstance(e.sym.node, ast.Call):
        f = e.sym.node.func
        if isinstance(f, ast.Attribute) and f.attr == 'pop' \
                and dotted(f.value) == E and e.sym.node.args:
            return norm(e.sym.node.args[0])
    return None


def _dead_op(e):
    """('discard'|'add'|'pop'|'clear', arg text) for ops on the pending set."""
    if e.kind == 'call' and isinstance(e.sym.node, ast.Call):
        f = e.sym.node.func
        if isinstance(f, ast.Attribute) and dotted(f.value) == DEAD:
            a = norm(e.sym.node.args[0]) if e.sym.node.args else None
            if f.attr in ('discard', 'remove'):
                return 'discard', a
            if f.attr in ('add', 'pop', 'clear', 'update',
                          'difference_update'):
                return f.attr, a
    if e.kind == 'store' and e.target is not None and e.target.text == DEAD:
        return 'rebind', e.sym.text
    return None


def run(program, rep, tier):
    world = program.cls('World')
    site = lambda f: f.where

    # ---- mark ---------------------------------------------------------------
    f = program.method('World', 'delete_entity')
    w = Walker(program, _Dom(program))
    exits = w.run(f, world)
    imm = f.params()[2] if len(f.params()) > 2 else 'immediate'
    n_def = 0
    bad = None
    for ex in exits:
        tr = ex.state.trace
        conds = {e.sym.text: e.extra for e in tr if e.kind == 'cond'}
        if conds.get(imm) is not False:
            continue
        n_def += 1
        adds = [e for e in tr if _dead_op(e) and _dead_op(e)[0] == 'add']
        other = [e for e in tr if e.kind in ('store', 'del') or (
            e.kind == 'call' and not (_dead_op(e) and _dead_op(e)[0] == 'add')
            and dotted(e.sym.node.func) not in ('isinstance',))]
        if len(adds) != 1 or adds[0].sym.node.args and norm(
                adds[0].sym.node.args[0]) != f.params()[1] or other:
            bad = (other or adds or [None])[0]
    if n_def == 0:
        rep.inconclusive('C05.mark', site(f), f.node.name,
                         'no deferred (immediate=False) path found')
    else:
        rep.check(bad is None, 'C05.mark', site(f),
                  bad.node if bad is not None else f'{DEAD}.add(entity)',
                  'the deferred branch only records the id in the pending set',
                  'the deferred branch of delete_entity does more than adding '
                  'the id to the pending set (components must stay queryable '
                  'until the next process)', line=f.node.lineno)

    # ---- first --------------------------------------------------------------
    f = program.method('World', 'process')
    w = Walker(program, _Dom(program))
    exits = w.run(f, world)
    applier_name = None
    bad = None
    for ex in exits:
        tr = ex.state.trace
        i_app = i_proc = None
        for i, e in enumerate(tr):
            if e.kind == 'call' and isinstance(e.sym.node, ast.Call):
                d = dotted(e.sym.node.func) or ''
                if d.startswith('self.') and i_app is None and d.count(
                        '.') == 1:
                    m = program.resolve_method(world, d.split('.')[1])
                    from dlint.normalise import closure_nodes
                    if m is not None and any(
                            DEAD.split('.')[1] in norm(x)
                            for nd in closure_nodes(program, world, m)
                            for x in ast.walk(nd)
                            if isinstance(x, ast.Attribute)):
                        i_app = i
                        applier_name = m.name
                if d.endswith('.process') and not d.startswith('self.') \
                        and i_proc is None:
                    i_proc = i
            if e.kind == 'for' and '_sorted_processors' in e.sym.text \
                    and i_proc is None:
                i_proc = i
        if i_app is None or (i_proc is not None and i_proc < i_app):
            bad = ex
    if applier_name is None:
        rep.inconclusive('C05.first', site(f), f.node.name,
                         'process() does not call a method that consumes the '
                         'pending set')
        return
    rep.check(bad is None, 'C05.first', site(f),
              f'self.{applier_name}()',
              'pending deletions are applied before any processor runs',
              'a path through process() reaches the processor loop before '
              '(or without) applying the pending deletions',
              line=f.node.lineno)

    # ---- appliers: only process() (and its private helpers) flush the set ----
    def _self_calls(m):
        return {n.func.attr for n in ast.walk(m.node) if isinstance(
            n, ast.Call) and isinstance(n.func, ast.Attribute) and isinstance(
                n.func.value, ast.Name) and n.func.value.id == 'self'}
    meths = {m.name: m for c in [world] + program.subclasses(world)
             for m in c.methods.values() if m.kind == 'method'}
    callers_of = {}
    for m in meths.values():
        for callee in _self_calls(m):
            callers_of.setdefault(callee, set()).add(m.name)
    allowed = {'process'}
    changed = True
    while changed:
        changed = False
        for name in meths:
            if name in allowed or not name.startswith('_') \
                    or name.startswith('__'):
                continue
            cs = callers_of.get(name, set()) - {name}
            if cs and cs <= allowed:
                allowed.add(name)
                changed = True
    foreign = sorted(c for c in callers_of.get(applier_name, set())
                     if c not in allowed and c != applier_name)
    fm = meths[foreign[0]] if foreign else None
    rep.check(not foreign, 'C05.appliers', site(fm) if fm else site(f),
              f'self.{applier_name}()',
              'the pending deletions are applied only by process() (start of '
              'the frame)',
              'a method other than process() applies ALL pending deletions: '
              'entities awaiting deletion lose their components (and get '
              'on_remove) in the middle of a frame instead of at the start of '
              'the next process()', detail={'callers': foreign},
              line=fm.node.lineno if fm else None)

    # ---- visible -------------------------------------------------------------
    # World methods that (transitively, through self.<m> calls and
    # properties) read the pending set
    readers = set()
    changed = True
    while changed:
        changed = False
        for m in world.methods.values():
            base = m.name.split('.')[0]
            if base in readers:
                continue
            hit = any(isinstance(n, ast.Attribute) and isinstance(
                n.value, ast.Name) and n.value.id == 'self' and (
                    n.attr == '_dead_entities' or n.attr in readers)
                for n in ast.walk(m.node))
            if hit:
                readers.add(base)
                changed = True
    for name in ('get', '_get', 'get_component', 'get_components',
                 'has_component'):
        g = program.method('World', name)
        reads = [n for n in ast.walk(g.node) if isinstance(n, ast.Attribute)
                 and isinstance(n.value, ast.Name) and n.value.id == 'self'
                 and (n.attr == '_dead_entities' or n.attr in readers)]
        rep.check(not reads, 'C05.visible', site(g), g.node.name,
                  'component queries ignore the pending set (components stay '
                  'queryable until process)',
                  'a component query filters on the pending set: components of '
                  'an entity awaiting deletion are hidden before process()',
                  line=g.node.lineno)

    # ---- subset: maintain arm at every row-delete site ----------------------
    n_sites = 0
    unmaintained = []
    early = {}
    for c in [world] + program.subclasses(world):
        for m in c.methods.values():
            if m.kind != 'method':
                continue
            if not any(isinstance(x, (ast.Delete, ast.Call))
                       for x in ast.walk(m.node)):
                continue
            w = Walker(program, _Dom(program))
            try:
                exits = w.run(m, c)
            except AnalysisError:
                raise
            per_site = {}
            for ex in exits:
                if ex.kind == 'raise':
                    continue
                tr = ex.state.trace
                for i, e in enumerate(tr):
                    k = _row_delete_key(e)
                    if k is None:
                        continue
                    ok = any(_dead_op(x) == ('discard', k)
                             for x in tr[i + 1:])
                    # the applier's own pop of this very id also counts
                    if not ok and k == f'{DEAD}.pop()':
                        ok = True
                    d = per_site.setdefault((norm(e.node), e.node.lineno),
                                            {'ok': 0, 'bad': 0})
                    d['ok' if ok else 'bad'] += 1
            for ex in exits:
                if ex.kind == 'raise':
                    continue
                tr = ex.state.trace
                for i, e in enumerate(tr):
                    op = _dead_op(e)
                    if not op or op[0] != 'discard':
                        continue
                    if m.name == applier_name and e.depth == 0:
                        # the applier itself takes the mark away before the
                        # teardown (what its pop() does): that is the
                        # protocol of C05.progress, not an early discard
                        continue
                    gone = any(_row_delete_key(x) == op[1] for x in tr[:i])
                    d = early.setdefault((norm(e.node), e.node.lineno, m),
                                         {'ok': 0, 'bad': 0})
                    d['ok' if gone else 'bad'] += 1
            for (text, line), d in per_site.items():
                n_sites += 1
                if d['bad']:
                    unmaintained.append((m, text, line, d))
                else:
                    rep.ok('C05.subset', site(m), text,
                           f'on all {d["ok"]} paths the row delete is followed '
                           'by the discard of that id from the pending set',
                           line=line)
    rep.floor('C05.subset', 'row-delete sites of _entities', n_sites, 2)
    for (text, line, m), d in early.items():
        rep.check(d['bad'] == 0, 'C05.mark', site(m), text,
                  'a pending mark is only discarded once the row of the '
                  'entity is gone',
                  'the pending mark of an entity is discarded on a path on '
                  'which its row still exists: removing (or replacing) one '
                  'component of an entity awaiting deletion silently cancels '
                  'the deletion - it exists again and process() never '
                  'deletes it', detail=d, line=line)

    # ---- the applier: how ids are drawn, guards, progress --------------------
    app = program.method('World', applier_name)
    dom = _Dom(program, inline=True, exc=True)
    w = Walker(program, dom)
    exits = w.run(app, world)
    rep.count('paths', len(exits))
    live_iter = None
    falsy_id = None
    snapshot_draw = False
    unguarded = None
    stuck = None
    counted = blind_pop = strict_unindex = None
    n_exc = 0
    n_rows = 0
    for ex in exits:
        tr = ex.state.trace
        removed_ids = set()
        swapped = False
        current = []            # ids whose teardown has begun
        nonempty = False        # pending set known non-empty since the last
        #                         call-out
        for i, e in enumerate(tr):
            op = _dead_op(e)
            if e.kind == 'cond' and e.sym is not None and e.extra is True \
                    and e.sym.text in (DEAD, f'len({DEAD})',
                                       f'len({DEAD}) > 0',
                                       f'len({DEAD}) != 0',
                                       f'len({DEAD}) >= 1'):
                nonempty = True
            if e.kind == 'call' and dom.may_raise(None, e):
                nonempty = False
            if e.kind == 'for' and f'len({DEAD})' in e.sym.text:
                counted = counted or e
            # un-indexing tolerates an entry that is already gone: a sweep
            # that failed half-way (a raising on_remove) has un-indexed some
            # types of an entity that still exists and can be deleted again
            if e.kind == 'call' and isinstance(e.sym.node, ast.Call) \
                    and isinstance(e.sym.node.func, ast.Attribute) \
                    and e.sym.node.func.attr == 'remove' \
                    and norm(e.sym.node.func.value).startswith(
                        'self._components[') and e.sym.node.args:
                recv_ = norm(e.sym.node.func.value)
                arg_ = norm(e.sym.node.args[0])
                guarded_ = any(x.kind == 'cond' and x.extra is True
                               and x.sym.text == f'{arg_} in {recv_}'
                               for x in tr[:i]) or _in_keyerror_try(
                                   program, tr, e)
                if not guarded_ and strict_unindex is None:
                    strict_unindex = e
            if op and op[0] == 'pop' and not nonempty and blind_pop is None \
                    and not _in_keyerror_try(program, tr, e):
                blind_pop = e
            if op:
                if op[0] == 'pop':
                    removed_ids.add(f'{DEAD}.pop()')
                elif op[0] in ('discard',):
                    removed_ids.add(op[1])
                elif op[0] in ('clear', 'rebind'):
                    swapped = True
            if e.kind == 'for':
                base, view = unwrap_iter(e.sym.node)
                if dotted(base) == DEAD:
                    if base is e.sym.node:
                        live_iter = e
                    else:
                        snapshot_draw = True
                elif isinstance(base, ast.Name) and any(
                        x.kind == 'local' and isinstance(x.target, ast.Name)
                        and x.target.id == base.id and DEAD in x.sym.text
                        for x in tr[:i]):
                    snapshot_draw = True
            # row accesses
            texts = []
            if e.kind in ('for', 'del', 'call', 'store', 'local', 'cond') \
                    and e.sym is not None:
                texts.append(e.sym.node)
            if e.kind == 'del':
                texts.append(e.target.node)
            for tn in texts:
                for sub in ast.walk(tn):
                    if isinstance(sub, ast.Subscript) and dotted(
                            sub.value) == E:
                        ent = norm(sub.slice)
                        n_rows += 1
                        peeked = {x.sym.text for x in tr if x.kind == 'fresh'
                                  and '_dead_entities' in x.extra.text}
                        from_dead = (ent == f'{DEAD}.pop()' or DEAD.split(
                            '.')[1] in ent or ent in peeked)
                        if not from_dead:
                            continue
                        if ent not in current:
                            current.append(ent)
                        if ent != f'{DEAD}.pop()':
                            # drawn from a snapshot / live iteration
                            guard = any(
                                x.kind == 'cond' and x.extra is True
                                and x.sym.text in (f'{ent} in {E}',
                                                   # still marked in the LIVE
                                                   # set: has a row (subset
                                                   # invariant, maintain arm)
                                                   f'{ent} in {DEAD}')
                                for x in tr[:i])
                            if not guard:
                                unguarded = (e, ent)
            if e.kind == 'cond' and e.sym is not None and (
                    e.sym.text == f'{DEAD}.pop()' or e.sym.text in {
                        x.sym.text for x in tr if x.kind == 'fresh'
                        and '_dead_entities' in x.extra.text}):
                falsy_id = e
            if e.kind == 'exc-edge':
                n_exc += 1
                for ent in current:
                    if not (ent in removed_ids or swapped):
                        stuck = (e, ent)
    if falsy_id is not None:
        rep.bad('C05.progress', site(app), falsy_id.node,
                'the sweep decides by the truth value of the id it drew '
                f'({falsy_id.sym.text}): an entity whose id is falsy (0, "", '
                '()) ends the sweep - it exists again with its components '
                'and the remaining marks wait while the processors run',
                line=getattr(falsy_id.node, 'lineno', None))
    if live_iter is not None:
        rep.bad('C05.progress', site(app), live_iter.node.iter,
                'the pending set is iterated live while the teardown runs '
                'on_remove callbacks that may mark or delete other entities: '
                'RuntimeError "Set changed size during iteration", and the '
                'pending set is never emptied', line=live_iter.node.lineno)
    else:
        rep.ok('C05.progress', site(app), f'{applier_name}: drawing of ids',
               'the pending set is not iterated live')
    if counted is not None or blind_pop is not None:
        e_ = counted or blind_pop
        rep.bad('C05.progress', site(app),
                e_.node.iter if counted is not None else e_.node,
                'an id is drawn from the pending set without a test, fresh '
                'with respect to the callbacks of the previous teardown, that '
                'the set is not empty' + (
                    ' (the number of draws is fixed from its size at the '
                    'start of the sweep)' if counted is not None else '') +
                ': a callback that deletes another pending entity at once '
                'shrinks the set, pop() raises KeyError and process() fails '
                'although every deleted entity existed when it was deleted',
                line=getattr(e_.node, 'lineno', None))
    if strict_unindex is not None:
        rep.bad('C05.progress', site(app), strict_unindex.node,
                'the teardown un-indexes with set.remove(), which raises '
                'when the entry is already gone: after a sweep that failed '
                'half-way (an on_remove callback raised) the entity still '
                'exists, partly un-indexed - deleting it again makes '
                'process() raise KeyError before any processor runs, on '
                'this and on every later frame',
                line=getattr(strict_unindex.node, 'lineno', None))
    if stuck is not None:
        rep.bad('C05.progress', site(app), stuck[0].node,
                'a call-out of the teardown can raise while the id being torn '
                'down is still in the pending set: the next process() visits '
                'the half-deleted entity again and fails on every later frame',
                detail={'id': stuck[1]}, line=getattr(stuck[0].node, 'lineno',
                                                     None))
    else:
        rep.ok('C05.progress', site(app), f'{applier_name}: exceptional exits',
               f'at all {n_exc} exception edges the id being torn down has '
               'already left the pending set')
    if snapshot_draw or unguarded is not None:
        rep.check(unguarded is None, 'C05.subset', site(app),
                  unguarded[0].node if unguarded else app.node.name,
                  'ids drawn from a snapshot are tested for existence before '
                  'their row is used',
                  'the applier takes ids from a snapshot of the pending set '
                  'and indexes their rows without a guard: a callback that '
                  'deletes another pending entity immediately makes '
                  'process() raise KeyError (discarding the mark cannot help '
                  '- it is no longer read from the live set)',
                  line=getattr(unguarded[0].node, 'lineno', None)
                  if unguarded else None)
        guarded_all = unguarded is None
    else:
        guarded_all = False
        rep.ok('C05.subset', site(app), f'{applier_name}: drawing of ids',
               'each id is taken from the live pending set immediately before '
               'its teardown')
    for m, text, line, d in unmaintained:
        if guarded_all:
            rep.ok('C05.subset', site(m), text, 'row delete without discard, '
                   'but the applier guards every row access (check arm)',
                   line=line)
        else:
            rep.bad('C05.subset', site(m), text,
                    'the row of an entity is deleted and, on some path, its '
                    'id is not discarded from the pending set afterwards (and '
                    'the applier indexes rows without a guard): '
                    'delete_entity(e) followed by this deletion makes '
                    'process() raise KeyError on this and every later frame',
                    detail=d, line=line)
    rep.floor('C05.progress', 'exception edges in the applier', n_exc, 2)

    # ---- teardown: the tables agree whenever the teardown runs user code ----
    # (an on_remove callback that queries the world, or raises, must find the
    # row and the type index of the entity being deleted in agreement;
    # otherwise process() fails - and fails again on every later frame)
    from . import c01
    todo, tear = [applier_name], set()
    while todo:
        n = todo.pop()
        if n in tear or n not in meths:
            continue
        tear.add(n)
        todo += [c for c in _self_calls(meths[n]) if c.startswith('_')
                 and not c.startswith('__')]
    c01.analyse_writers(program, rep, only=tear, prefix='C05')
    # ---- a pending entity keeps its components queryable: attaching a
    # component to it keeps row and type index paired (the row is not replaced)
    c01.analyse_writers(program, rep, only={'add_component'}, prefix='C05',
                        label='pending')

    # ---- queries answer from the tables: a remembered answer survives the
    # deferred deletion unless every table mutator forgets it (C06.memo) ------
    from rules import c06
    rep.borrow(c06.check_query_memo, program, rep,
               keep=lambda o: o.rule == 'C06.memo',
               rename=lambda r: 'C05.visible-memo',
               why='after process() a query still reports the components of '
               'the deleted entity')

    # ---- "all of its components are removed AND NOTIFIED": the detach
    # protocol of World (C02) at the sites of the teardown - on_remove and
    # remove_handler decided by the component's own __events__
    from rules import lifecycle as _lc
    out_ = _lc.analyse_world(program, rep, 'C05', None, 'C05')
    n_det = 0
    for (rule_, fn_, text_, line_, kind_, table_), r_ in sorted(
            out_['results'].items(), key=lambda kv: (kv[0][1], kv[0][3] or 0)):
        if rule_ != 'protocol' or kind_ != 'detach' or fn_.split('.')[-1] \
                not in tear:
            continue
        n_det += 1
        s_ = f'desper/logic/world.py:{fn_}'
        if r_['bad']:
            rep.bad('C05.notified', s_, text_,
                    'a component of a deleted entity is not notified / '
                    f'unregistered on some path [{r_["bad"][0]["why"]}]',
                    detail={'path': r_['bad'][0]['path']}, line=line_)
        else:
            rep.ok('C05.notified', s_, text_, 'every component removed by '
                   'the teardown is notified and unregistered', line=line_)
    # ---- the identifier of an entity awaiting deletion is NOT free yet: an
    # automatic id is handed out only after a test on the row table itself
    # (entity_exists() denies pending entities) - C01's rule
    rep.borrow(c01.check_fresh_id, program, rep,
               keep=lambda o: o.rule == 'C01.fresh-id',
               rename=lambda r: 'C05.free-id',
               why='the id of an entity that is still awaiting deletion is '
               'handed out again: the new entity is merged into the dying row '
               'and deleted at the next process()')
    # ---- clear ----------------------------------------------------------------
    cl = program.method('World', 'clear')
    wipes = [n for n in ast.walk(cl.node) if isinstance(n, ast.Call)
             and norm(n.func) == f'{DEAD}.clear']
    if wipes:
        before = rep.obs[:]
        c02.clear_total(program, rep)
        for o in rep.obs[len(before):]:
            o.rule = 'C05.clear'
            if o.verdict == 'violated':
                o.why = ('clear() forgets the pending marks although not every '
                         'row was deleted (it iterates a filtered view): an '
                         'entity awaiting deletion survives clear() and is '
                         'never deleted')
