"""C13 - world switching delivers in/out events to the worlds that run."""
import ast

from dlint.model import AnalysisError, dotted, norm, strip_docstring
from dlint.walk import Domain, Walker

EXPLANATION = (
    'Static ordering and interprocedural typestate rules over desper/loop.py. '
    'order: on every path of switch() (PathEval) the target is loaded once, '
    'on_switch_out(from, to) is dispatched on the world being left before it '
    'is disabled, the entered world is disabled before on_switch_in(from, to) '
    'is dispatched on it, and SwitchWorld is raised last; SimpleLoop.loop '
    'catches SwitchWorld around process and hands (handle, clear_current, '
    'clear_next) - through SwitchWorld.__init__, which must store them under '
    'those names - to SimpleLoop.switch, which adopts the world through '
    'Loop.switch and enables it afterwards. same-instance: the paths of '
    'switch() and of Loop.switch are composed through that plumbing; under '
    'every feasible valuation of the flags, between the load on which '
    'on_switch_in was queued and the adoption `_current_world = '
    'world_handle()` no clear() may hit the target handle - neither directly '
    'nor through _current_world_handle, which aliases it on a self-switch '
    '(that alias case is the open known finding). current: the loop processes '
    '_current_world and `current_world` returns that same instance. '
    'held-events: dispatcher state (queue, tables) is created per instance, so '
    'a world that was left keeps its own pending events.')
RULE = 'one obligation per (rule, function, statement or flag valuation)'
NOT_DECIDED = ['loops other than SimpleLoop', 'desper.default_loop lookup',
               'what processors do between the request and the switch']
ASSUMPTIONS = ['Handle.__call__ returns the cached instance until clear() '
               '(C12)']


class _D(Domain):
    def resolve_call(self, st, call, walker):
        # private helpers extracted from the analysed code are followed
        return walker.resolve_helper(st, call)

    def resolve_setter(self, st, target, walker):
        return None


class _DEx(_D):
    """Inside `except X as ex` the caught instance is an object: never None,
    and (Exception defines neither __bool__ nor __len__) truthy."""
    ex_name = None

    def decide(self, state, sym, node):
        n = sym.node
        if isinstance(n, ast.Name) and n.id == self.ex_name:
            return True
        if isinstance(n, ast.UnaryOp) and isinstance(n.op, ast.Not) \
                and isinstance(n.operand, ast.Name) \
                and n.operand.id == self.ex_name:
            return False
        if isinstance(n, ast.Compare) and len(n.ops) == 1 and isinstance(
                n.ops[0], (ast.Is, ast.IsNot)):
            a, b = n.left, n.comparators[0]
            if isinstance(a, ast.Constant) and a.value is None:
                a, b = b, a
            if isinstance(a, ast.Name) and a.id == self.ex_name \
                    and isinstance(b, ast.Constant) and b.value is None:
                return isinstance(n.ops[0], ast.IsNot)
        return super().decide(state, sym, node)


def _calls(tr):
    return [(i, e) for i, e in enumerate(tr) if e.kind == 'call'
            and isinstance(e.sym.node, ast.Call)]


def analyse_switch_fn(program, rep):
    f = program.func('desper.loop', 'switch')
    site = f.where
    ps = f.params()
    th = ps[0]
    w = Walker(program, _D(program))
    exits = w.run(f, None)
    rep.count('paths', len(exits))
    out_paths = []
    bad = {}

    def flag(rule, node, why):
        bad.setdefault(rule, (node, why))

    for ex in exits:
        tr = ex.state.trace
        if ex.kind != 'raise' or (ex.payload or '').split('.')[-1] != \
                'SwitchWorld':
            flag('order', ex.node or f.node, 'switch() has a path that does '
                 'not end in raise SwitchWorld')
            continue
        loads = [i for i, e in _calls(tr) if norm(e.sym.node) == f'{th}()']
        clears = [i for i, e in _calls(tr) if norm(e.sym.node.func)
                  == f'{th}.clear']
        for i, e in _calls(tr):
            fn_ = norm(e.sym.node.func)
            if fn_.endswith('.clear') and fn_ != f'{th}.clear' \
                    and 'handle' in fn_:
                flag('order', e.node, f'switch() clears {fn_[:-6]}: it '
                     'cannot know which handle the running loop is leaving '
                     '(a custom loop is not the default loop); clear_current '
                     'must travel to the loop inside SwitchWorld')
        if len(loads) != 1:
            flag('order', f.node, f'the target handle is loaded {len(loads)} '
                 'times in switch()')
            continue
        to_w = f'{th}()'
        conds = {e.sym.text: e.extra for e in tr if e.kind == 'cond'}
        # clear_next: the target is cleared, before it is loaded, exactly
        # when the flag is set (the events below must reach the instance
        # that is going to run)
        cn = conds.get('clear_next')
        if cn is True and not (clears and clears[0] < loads[0]):
            flag('order', f.node, 'clear_next is set but the target handle '
                 'is not cleared before it is loaded: the entered handle '
                 'does not yield a fresh world instance')
        if cn is False and clears:
            flag('order', tr[clears[0]].node, 'the target handle is cleared '
                 'although clear_next is not set: every switch discards the '
                 'cached world of the target')
        if cn is None and clears:
            flag('order', tr[clears[0]].node, 'the target handle is cleared '
                 'on a path that has not tested clear_next')
        disp = [(i, e) for i, e in _calls(tr) if isinstance(
            e.sym.node.func, ast.Attribute) and e.sym.node.func.attr
            == 'dispatch']
        stores = [(i, e) for i, e in enumerate(tr) if e.kind == 'store'
                  and e.target is not None
                  and e.target.text.endswith('.dispatch_enabled')]
        outs = [(i, e) for i, e in disp if e.sym.node.args and norm(
            e.sym.node.args[0]) == "'on_switch_out'"]
        ins = [(i, e) for i, e in disp if e.sym.node.args and norm(
            e.sym.node.args[0]) == "'on_switch_in'"]
        i_raise = len(tr)
        from_none = None
        fw = None
        for t, v in conds.items():
            if t.endswith(' is None') and 'from_world' in t or (
                    t.endswith('is None') and 'current_world' in t):
                pass
        # IN
        if len(ins) != 1:
            flag('order', f.node, f'on_switch_in dispatched {len(ins)} times')
            continue
        i_in, e_in = ins[0]
        recv_in = norm(e_in.sym.node.func.value)
        if recv_in != to_w:
            flag('order', e_in.node, 'on_switch_in is not dispatched on the '
                 'world obtained from the target handle')
        args_in = [norm(a) for a in e_in.sym.node.args[1:]]
        fw = args_in[0] if args_in else None
        if len(args_in) != 2 or args_in[1] != to_w:
            flag('order', e_in.node, 'on_switch_in does not carry (from, to)')
        dis_to = [i for i, s in stores if s.target.text
                  == f'{to_w}.dispatch_enabled' and norm(s.sym.node) == 'False']
        # the path established that the entered world IS the world being
        # left (an identity test): disabling that one disabled this one
        same = [t for t, v in conds.items() if v is True and (
            t.startswith(f'{to_w} is ') or t.endswith(f' is {to_w}'))]
        dead = False
        for t in same:
            other = t[len(to_w) + 4:] if t.startswith(f'{to_w} is ') \
                else t[:-len(to_w) - 4]
            if conds.get(f'{other} is None') is True:
                # the entered world would be None: to_world.dispatch(..)
                # raises AttributeError, nothing is delivered on this path
                dead = True
            dis_to += [i for i, s in stores if s.target.text
                       == f'{other}.dispatch_enabled'
                       and norm(s.sym.node) == 'False']
        if dead:
            continue
        if not dis_to or min(dis_to) > i_in:
            flag('order', e_in.node, 'the entered world is not disabled '
                 'before on_switch_in is dispatched on it: the callback runs '
                 'before the loop has switched')
        # OUT
        if outs:
            i_out, e_out = outs[0]
            recv = norm(e_out.sym.node.func.value)
            a = [norm(x) for x in e_out.sym.node.args[1:]]
            if len(outs) > 1:
                flag('order', outs[1][1].node, 'on_switch_out dispatched '
                     'twice')
            if a != [recv, to_w]:
                flag('order', e_out.node, 'on_switch_out does not carry '
                     '(from, to) with the world it is dispatched on as from')
            dis_from = [i for i, s in stores if s.target.text
                        == f'{recv}.dispatch_enabled'
                        and norm(s.sym.node) == 'False']
            if not dis_from:
                flag('order', e_out.node, 'the world being left is not '
                     'disabled: it does not hold its events until re-entered')
            elif min(dis_from) < i_out:
                flag('order', e_out.node, 'the world being left is disabled '
                     'before on_switch_out is dispatched: the event is '
                     'queued, not delivered, in the world being left')
            if fw is not None and fw != recv:
                flag('order', e_in.node, 'on_switch_in names a different '
                     '"from" world than the one that got on_switch_out')
            if i_out > i_in:
                flag('order', e_out.node, 'on_switch_in is queued on the '
                     'entered world before on_switch_out was delivered in '
                     'the world being left: an on_switch_out callback that '
                     'raises (or switches elsewhere) leaves a phantom '
                     'on_switch_in behind, and on a self-switch the world '
                     'hears "in" before "out"')
        else:
            # only legal when there is no world to leave: none was given
            # and the running loop has none either
            none_known = any(t.endswith(' is None') and v is True
                             and 'current_world' in t
                             for t, v in conds.items())
            if not none_known:
                flag('order', f.node, 'a path of switch() with a world to '
                     'leave does not dispatch on_switch_out')
        # raise args
        rn = ex.node
        call = rn.exc if isinstance(rn, ast.Raise) else None
        rs = ex.state.trace[-1].sym if ex.state.trace else None
        rc = None
        for e in reversed(tr):
            if e.kind == 'raise':
                rc = e.sym.node
                break
        if isinstance(rc, ast.Call):
            a_ = list(rc.args)
            kw_ = {k.arg: k.value for k in rc.keywords}
            cc = kw_.get('clear_current', a_[1] if len(a_) > 1 else None)
            if cc is None or norm(cc) != 'clear_current':
                flag('order', rn, 'switch() does not hand its clear_current '
                     'flag to SwitchWorld unchanged: the handle being left '
                     'is not cleared (or the wrong one is)')
        out_paths.append({'conds': conds, 'raise': rc, 'clears': clears,
                          'load': loads[0], 'node': rn})
    return f, out_paths, bad


def plumbing(program, rep):
    """SwitchWorld.__init__ stores its arguments; the loop hands them on."""
    sw = program.cls('SwitchWorld')
    init = sw.methods.get('__init__')
    site = f'{sw.module.relpath}:SwitchWorld.__init__'
    ok = False
    params = []
    if init is not None:
        params = init.params()[1:]
        sets = {norm(t): norm(a.value) for a in ast.walk(init.node)
                if isinstance(a, ast.Assign) for t in a.targets}
        ok = all(sets.get(f'self.{p}') == p for p in params) and set(
            params) >= {'world_handle', 'clear_current', 'clear_next'}
    rep.check(ok, 'C13.order', site, 'self.<name> = <name>',
              'SwitchWorld carries handle and flags under their own names',
              'SwitchWorld.__init__ does not store world_handle / '
              'clear_current / clear_next under those names (flags swapped or '
              'dropped on the way to the loop)',
              line=init.node.lineno if init else sw.node.lineno)
    sl = program.cls('SimpleLoop')
    lp = program.method('SimpleLoop', 'loop', inherited=False)
    handlers = [h for h in ast.walk(lp.node) if isinstance(
        h, ast.ExceptHandler) and h.type is not None and (dotted(
            h.type) or '').split('.')[-1] == 'SwitchWorld']
    ok = False
    hcall = None
    if len(handlers) == 1 and handlers[0].name:
        ex = handlers[0].name
        # the handler body is walked (helpers that perform the switch are
        # followed); every path makes exactly one self.switch(handle,
        # clear_current, clear_next) with the fields of the caught exception
        dom = _DEx(program)
        dom.ex_name = ex
        w = Walker(program, dom)
        # one frame of the loop: the statements of the enclosing while body,
        # the try replaced by the handler (a frame that raised SwitchWorld) or
        # by its body (a frame that did not) - so that a switch performed
        # after the try, from a value the handler stored, is followed too
        try0 = [t for t in ast.walk(lp.node) if isinstance(t, ast.Try)
                and handlers[0] in t.handlers]
        wl0 = [x for x in ast.walk(lp.node) if isinstance(x, ast.While)
               and try0 and try0[0] in x.body]

        def frame(exc):
            out = []
            for s_ in wl0[0].body:
                if s_ is try0[0]:
                    out += (handlers[0].body if exc else s_.body + s_.orelse
                            ) + s_.finalbody
                else:
                    out.append(s_)
            return out
        hexits = w.run_block(lp, frame(True) if wl0 else handlers[0].body, sl)
        ok = bool(hexits)
        if wl0:
            for hx in Walker(program, _D(program)).run_block(
                    lp, frame(False), sl):
                for _, e in _calls(hx.state.trace):
                    if norm(e.sym.node.func) != 'self.switch':
                        continue
                    roots = {r_.id for a_ in list(e.sym.node.args) + [
                        k_.value for k_ in e.sym.node.keywords]
                        for r_ in ast.walk(a_) if isinstance(r_, ast.Name)}
                    if roots - {'self'}:
                        rep.bad('C13.order', lp.where, e.sym.node,
                                'a frame that raised no SwitchWorld still '
                                f'reaches self.switch with {sorted(roots - {"self"})} '
                                'left over from an earlier frame (the stored '
                                'request is not reset per frame): every later '
                                'frame switches again',
                                line=e.sym.node.lineno)
                    else:
                        rep.inconclusive(
                            'C13.order', lp.where, e.sym.node,
                            'a frame that raised no SwitchWorld reaches '
                            'self.switch with state kept on self: whether '
                            'that state is consumed exactly once is not '
                            'modelled')
        for hx in hexits:
            calls = [e.sym.node for _, e in _calls(hx.state.trace)
                     if norm(e.sym.node.func) == 'self.switch']
            if len(calls) != 1:
                ok = False
                continue
            hcall = calls[0]
            args = []
            for x in hcall.args:
                if isinstance(x, ast.Starred) and isinstance(
                        x.value, (ast.Tuple, ast.List)):
                    args += list(x.value.elts)
                elif isinstance(x, ast.Starred) and isinstance(
                        x.value, ast.Call) and dotted(x.value.func) in \
                        getattr(program, 'records', {}) \
                        and not x.value.keywords:
                    args += list(x.value.args)      # a private record
                elif isinstance(x, ast.Starred) and isinstance(
                        x.value, ast.Call) and isinstance(
                            x.value.func, ast.Name) and len(
                                x.value.args) == 1:
                    # *_getter(ex) with _getter = operator.attrgetter('a',
                    # 'b', 'c') at module level
                    defs = [s_.value for s_ in lp.module.tree.body
                            if isinstance(s_, ast.Assign) and any(
                                isinstance(t_, ast.Name)
                                and t_.id == x.value.func.id
                                for t_ in s_.targets)]
                    if len(defs) == 1 and isinstance(defs[0], ast.Call) \
                            and (dotted(defs[0].func) or '').split('.')[-1] \
                            .lstrip('_') == 'attrgetter' and all(
                                isinstance(a_, ast.Constant) and isinstance(
                                    a_.value, str) and a_.value.isidentifier()
                                for a_ in defs[0].args):
                        args += [ast.Attribute(x.value.args[0], a_.value,
                                               ast.Load())
                                 for a_ in defs[0].args]
                    else:
                        args.append(x)
                else:
                    args.append(x)
            a = [norm(x) for x in args]
            kw = {k.arg: norm(k.value) for k in hcall.keywords}
            got = {'world_handle': a[0] if a else kw.get('world_handle'),
                   'clear_current': a[1] if len(a) > 1 else kw.get(
                       'clear_current'),
                   'clear_next': a[2] if len(a) > 2 else kw.get('clear_next')}
            if got != {'world_handle': f'{ex}.world_handle',
                       'clear_current': f'{ex}.clear_current',
                       'clear_next': f'{ex}.clear_next'}:
                ok = False
        # the try must enclose the process call (possibly inside a private
        # helper that runs one frame), inside the while
        tries = [t for t in ast.walk(lp.node) if isinstance(t, ast.Try)
                 and handlers[0] in t.handlers]

        def _reaches_process(node, depth=2):
            for c in ast.walk(node):
                if isinstance(c, ast.Call) and isinstance(
                        c.func, ast.Attribute):
                    if c.func.attr == 'process':
                        return True
                    if depth and isinstance(c.func.value, ast.Name) \
                            and c.func.value.id == 'self':
                        g = program.resolve_method(sl, c.func.attr)
                        if g is not None and g.name.startswith('_') \
                                and _reaches_process(g.node, depth - 1):
                            return True
            return False
        encloses = tries and any(_reaches_process(s)
                                 for s in tries[0].body)
        in_while = any(isinstance(wl, ast.While) and tries and tries[0] in
                       list(ast.walk(wl)) for wl in ast.walk(lp.node))
        ok = ok and bool(encloses) and in_while
    rep.check(ok, 'C13.order', lp.where,
              hcall if hcall is not None else 'except SwitchWorld as ex',
              'SwitchWorld is caught around process, inside the loop, and '
              'its handle and flags are handed to switch() unchanged',
              'SimpleLoop.loop does not catch SwitchWorld around process '
              'inside the loop and forward (world_handle, clear_current, '
              'clear_next) in that order', line=lp.node.lineno)
    ss = program.method('SimpleLoop', 'switch', inherited=False)
    w = Walker(program, _D(program))
    exits = w.run(ss, sl)
    ok = bool(exits)
    stale = None
    p = ss.params()
    for exx in exits:
        tr = exx.state.trace
        sup = [i for i, e in _calls(tr) if norm(e.sym.node.func)
               in ('super().switch', 'Loop.switch')]
        en = [i for i, e in enumerate(tr) if e.kind == 'store'
              and e.target is not None and e.target.text
              in (f'{p[1]}().dispatch_enabled',
                  'self._current_world.dispatch_enabled',
                  'self.current_world.dispatch_enabled')
              and norm(e.sym.node) == 'True']
        why_stale = None
        if len(sup) == 1 and en and en[0] > sup[0] and tr[en[0]].target.text \
                .startswith(f'{p[1]}()'):
            # the world is the one the handle yields AFTER Loop.switch (which
            # may clear the handle): the call must be evaluated after it
            fresh = any(e.kind == 'call' and e.sym.text == f'{p[1]}()'
                        for e in tr[sup[0] + 1:en[0]])
            if not fresh:
                why_stale = tr[en[0]]
        if why_stale is not None:
            ok = False
            stale = why_stale.node
        elif len(sup) != 1 or not en or en[0] < sup[0]:
            ok = False
        else:
            e = tr[sup[0]]
            a = [norm(x) for x in e.sym.node.args]
            if a != p[1:4]:
                ok = False
    rep.check(ok, 'C13.order', ss.where,
              stale if stale is not None else 'super().switch(...); enable',
              'the adopted world is enabled (its pending load-time callbacks '
              'and on_switch_in released, in that order) after the loop has '
              'switched to it',
              'the world that is enabled was taken from the handle BEFORE '
              'Loop.switch ran: with clear_next the handle yields a fresh '
              'instance afterwards, the discarded one is enabled and the '
              'world that runs stays muted forever' if stale is not None else
              'SimpleLoop.switch does not adopt the world through '
              'Loop.switch(handle, clear_current, clear_next) and enable it '
              'afterwards: on_switch_in is never released, or released '
              'before the switch', line=ss.node.lineno)


def same_instance(program, rep, switch_fn, spaths):
    lp = program.cls('Loop')
    f = program.method('Loop', 'switch', inherited=False)
    site = f.where
    p = f.params()      # self, world_handle, clear_current, clear_next
    w = Walker(program, _D(program))
    qexits = [e for e in w.run(f, lp) if e.kind != 'raise']
    rep.count('paths', len(qexits))
    sp = switch_fn.params()
    n_combo = 0
    found = {}
    for P in spaths:
        rc = P['raise']
        if not isinstance(rc, ast.Call):
            rep.inconclusive('C13.same-instance', switch_fn.where,
                             P['node'], 'raise SwitchWorld(...) not a call')
            continue
        a = [x for x in rc.args]
        kw = {k.arg: k.value for k in rc.keywords}
        passed = {
            'clear_current': kw.get('clear_current',
                                    a[1] if len(a) > 1 else ast.Constant(
                                        False)),
            'clear_next': kw.get('clear_next',
                                 a[2] if len(a) > 2 else ast.Constant(False)),
        }
        # a clear of the target after the load, inside switch() itself
        if any(c > P['load'] for c in P['clears']):
            found.setdefault(('switch', 'clear-after-load'), (
                switch_fn.where, P['node'],
                'switch() clears the target handle after loading the world '
                'on which on_switch_in is queued'))

        def value(name):
            n = passed[name]
            if isinstance(n, ast.Constant):
                return bool(n.value)
            t = norm(n)
            v = P['conds'].get(t)
            return v        # True / False / None (unconstrained)
        for Q in qexits:
            tr = Q.state.trace
            conds = {e.sym.text: e.extra for e in tr if e.kind == 'cond'}
            feasible = True
            for flagname in ('clear_current', 'clear_next'):
                pv = value(flagname)
                qv = conds.get(flagname)
                if pv is not None and qv is not None and pv != qv:
                    feasible = False
            if not feasible:
                continue
            n_combo += 1
            adopt = [i for i, e in _calls(tr) if norm(e.sym.node)
                     == f'{p[1]}()']
            i_adopt = adopt[0] if adopt else len(tr)
            for i, e in _calls(tr):
                if i > i_adopt:
                    continue
                t = norm(e.sym.node.func)
                if t == f'{p[1]}.clear':
                    found.setdefault(('direct', norm(e.sym.node)), (
                        site, e.node,
                        'the target handle is cleared by the loop after '
                        'switch() loaded it and queued on_switch_in on that '
                        'instance: the instance that runs is a fresh one '
                        'that never hears on_switch_in, and the target is '
                        'loaded twice',
                        {'switch_path': sorted(
                            f'{k}={v}' for k, v in P['conds'].items()),
                         'loop_path': sorted(
                             f'{k}={v}' for k, v in conds.items())}))
                elif t == 'self._current_world_handle.clear':
                    found.setdefault(('alias', norm(e.sym.node)), (
                        site, e.node,
                        'with clear_current=True the current handle is '
                        'cleared after on_switch_in was queued; when the '
                        'target IS the current handle (self-switch) the '
                        'instance holding on_switch_in is discarded',
                        {'loop_path': sorted(f'{k}={v}'
                                             for k, v in conds.items())}))
    rep.floor('C13.same-instance', 'feasible (switch path, Loop.switch path) '
              'combinations', n_combo, 2)
    for key, v in sorted(found.items()):
        st, node, why = v[0], v[1], v[2]
        if key[0] in ('alias', 'direct'):
            # the construct is named by its canonical (alias-resolved) text
            ln = getattr(node, 'lineno', None)
            node = ast.parse(key[1], mode='eval').body
            node.lineno = ln
        rep.bad('C13.same-instance', st, node, why,
                detail=v[3] if len(v) > 3 else None,
                line=getattr(node, 'lineno', None))
    if not any(k[0] in ('direct', 'switch') for k in found):
        rep.ok('C13.same-instance', site, f'{p[1]}.clear()',
               f'in none of the {n_combo} feasible flag combinations is the '
               'target handle cleared between the load that received '
               'on_switch_in and its adoption', line=f.node.lineno)
    # adoption itself
    ok = True
    early = None
    for Q in qexits:
        tr = Q.state.trace
        st_ = {e.target.text: e.sym.text for e in tr if e.kind == 'store'
               and e.target is not None}
        if st_.get('self._current_world') != f'{p[1]}()' or st_.get(
                'self._current_world_handle') != p[1]:
            ok = False
        # the world adopted is the one the handle yields AFTER the clears of
        # this switch (clear_current may clear the very handle being entered)
        i_store = [i for i, e in enumerate(tr) if e.kind == 'store'
                   and e.target is not None
                   and e.target.text == 'self._current_world']
        if i_store:
            loads = [i for i, e in _calls(tr[:i_store[-1] + 1])
                     if norm(e.sym.node) == f'{p[1]}()']
            clears_ = [i for i, e in _calls(tr) if isinstance(
                e.sym.node.func, ast.Attribute)
                and e.sym.node.func.attr == 'clear' and norm(
                    e.sym.node.func.value) in (p[1],
                                               'self._current_world_handle')]
            if loads and clears_ and max(clears_) > loads[-1]:
                ok = False
                early = tr[loads[-1]].node
    if early is not None:
        rep.bad('C13.current', site, early,
                'the world the loop adopts is taken from the target handle '
                'BEFORE a handle is cleared later in the same switch: when '
                'the target is the current handle (restart with '
                'clear_current) the loop keeps processing the discarded '
                'instance - disabled by switch() and never enabled again - '
                'while a fresh, orphan world is the one that gets enabled',
                line=getattr(early, 'lineno', None))
    rep.check(ok, 'C13.current', site, 'self._current_world = world_handle()',
              'the loop adopts the target handle and its loaded instance',
              'Loop.switch does not store the target handle and its world as '
              'current on every path', line=f.node.lineno)


def current_rules(program, rep):
    lp = program.cls('Loop')
    fld = program.trivial_getter_field(lp, 'current_world')
    g = program.resolve_method(lp, 'current_world')
    rep.check(fld == '_current_world', 'C13.current',
              g.where if g else 'desper/loop.py:Loop', 'current_world',
              '`current_world` is the instance the loop processes',
              '`current_world` does not return the stored _current_world '
              '(e.g. it re-reads the handle): switch() without from_world '
              'may name a freshly loaded instance as the world being left',
              line=g.node.lineno if g else None)
    sl = program.method('SimpleLoop', 'loop', inherited=False)
    from dlint.normalise import closure_nodes
    procs = [c for node in closure_nodes(program, program.cls('SimpleLoop'),
                                         sl)
             for c in ast.walk(node) if isinstance(c, ast.Call)
             and isinstance(c.func, ast.Attribute) and c.func.attr == 'process']
    ok = len(procs) == 1 and norm(procs[0].func.value) in (
        'self._current_world', 'self.current_world')
    rep.check(ok, 'C13.current', sl.where, procs[0] if procs else 'process',
              'the loop processes the adopted world',
              'the loop does not process self._current_world', line=getattr(
                  procs[0], 'lineno', None) if procs else None)


def instance_state(program, rep, rule):
    """Dispatcher containers are per instance."""
    ed = program.cls('EventDispatcher')
    site = f'{ed.module.relpath}:EventDispatcher'
    bad = None
    for name, v in ed.attrs.items():
        if v is not None and isinstance(v, (ast.List, ast.Dict, ast.Set,
                                            ast.ListComp, ast.DictComp)) or (
                isinstance(v, ast.Call) and dotted(v.func) in (
                    'list', 'dict', 'set', 'deque', 'collections.deque')):
            bad = (name, v)
    init = ed.methods.get('__init__')
    made = set()
    if init is not None:
        for a in ast.walk(init.node):
            if isinstance(a, (ast.Assign, ast.AnnAssign)):
                tg = a.targets if isinstance(a, ast.Assign) else [a.target]
                for t in tg:
                    if norm(t).startswith('self.'):
                        made.add(norm(t)[5:])
    need = {'_event_queue', '_events', '_handlers'}
    rep.check(bad is None and need <= made, rule, site,
              f'{bad[0]} = {norm(bad[1])}' if bad else
              '__init__: self._events / _handlers / _event_queue',
              'every dispatcher owns its tables and its queue of postponed '
              'events',
              'dispatcher state is a class-level mutable (shared by every '
              'dispatcher) or is not created in __init__: events postponed '
              'in one world are released inside another',
              line=getattr(bad[1], 'lineno', ed.node.lineno) if bad
              else ed.node.lineno)


def handle_clear(program, rep):
    """switch() clears handles (clear_next before on_switch_out, clear_current
    inside the loop): that is harmless only while clear() of every in-repo
    handle class merely drops the cache - an override that touches the cached
    world empties the running world before on_switch_out reaches it."""
    h = program.cls('Handle')
    n = 0
    for c in [h] + program.subclasses(h):
        m = c.methods.get('clear')
        if m is None:
            continue
        n += 1
        calls = [x for x in ast.walk(m.node) if isinstance(x, ast.Call)
                 and norm(x.func) not in ('super', 'super().clear', 'setattr',
                                          'delattr', 'getattr', 'hasattr',
                                          'isinstance', 'object.__setattr__')]
        rep.check(not calls, 'C13.handle-clear', m.where,
                  calls[0] if calls else 'clear()',
                  'clear() only drops the cached value',
                  f'{m.qualname} does more than dropping the cache '
                  f'({norm(calls[0]) if calls else ""}): a restart through '
                  'switch(current_handle, clear_next=True) wipes the running '
                  'world before on_switch_out is dispatched in it - nobody in '
                  'the world being left hears it', line=m.node.lineno)
    rep.floor('C13.handle-clear', 'clear() implementations of handles', n, 1)


def run(program, rep, tier):
    from rules import c14
    c14.check_default_binding(program, rep, 'C13.order', ('switch',))
    handle_clear(program, rep)
    f, spaths, bad = analyse_switch_fn(program, rep)
    if 'order' in bad:
        node, why = bad['order']
        rep.bad('C13.order', f.where, node, why,
                line=getattr(node, 'lineno', None))
    else:
        rep.ok('C13.order', f.where, 'switch(): all paths',
               f'{len(spaths)} path(s): load once; out before disabling the '
               'left world; entered world disabled before in; raise last',
               line=f.node.lineno)
    rep.floor('C13.order', 'paths of switch() ending in raise SwitchWorld',
              len(spaths), 2)
    plumbing(program, rep)
    same_instance(program, rep, f, spaths)
    current_rules(program, rep)
    instance_state(program, rep, 'C13.held-events')
    # on_switch_in / load-time callbacks are released once, in order (C04)
    from rules import c04
    n0 = len(rep.obs)
    c04.check_release(program, rep)
    for o in rep.obs[n0:]:
        o.rule = o.rule.replace('C04.', 'C13.released-')
