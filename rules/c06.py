"""C06 - type queries match exactly the subclasses, once each."""
import ast

from dlint.model import AnalysisError, dotted, norm
from dlint.walk import Domain, Walker, fold_truth

EXPLANATION = (
    'A subclass walk is a loop over a work list seeded with the queried type '
    'and extended with .__subclasses__(). Each of the six query entry points '
    '(has_component, get/_get, get_component, remove_component, '
    'remove_processor, get_processor) must reach such a walk (cover, scope '
    'rule). Every path through each walk (PathEval, loop walked up to 3 '
    'times, a small model of the local work list so that the first popped '
    'element is known) is split into iterations and checked: exact-first - '
    'the first element tested is the queried type itself; match - the match '
    'test of an iteration is a membership test of the popped type on the '
    'table (not the truth value of the looked-up object); closure - an '
    'iteration that takes the back edge has pushed the subclasses of the '
    'popped element (or skipped an already visited one); once - a walk with a '
    'per-visit effect (yield) tests and records the popped type in a visited '
    'set first; single - after a detach the loop is not re-entered. These are '
    'independent of any particular class hierarchy.')
RULE = 'one obligation per (rule, walk); all paths of the walk must conform'
NOT_DECIDED = ['type.__subclasses__() itself is trusted']
ASSUMPTIONS = ['__subclasses__() returns the direct subclasses']

ENTRY = ['has_component', 'get', 'get_component', 'remove_component',
         'remove_processor', 'get_processor']
TABLE_WORDS = ('self._entities', 'self._processors', 'self._components')


class _NoInline(Domain):
    loop_bound = 3

    def resolve_call(self, st, call, walker):
        # private helpers extracted from the analysed code are followed
        return walker.resolve_helper(st, call)

    def for_counts(self, st, node, itersym):
        return [0, 1]

    def decide(self, st, sym, node):
        # a value read from the tables is never the object None
        n = sym.node
        if isinstance(n, ast.Compare) and len(n.ops) == 1 and isinstance(
                n.ops[0], ast.Is) and isinstance(
                    n.comparators[0], ast.Constant) \
                and n.comparators[0].value is None \
                and norm(n.left).startswith(('self._entities[',
                                             'self._processors[')):
            return False
        return fold_truth(n)


PEELED = set()
PAIR_MODE = {}      # walks that de-duplicate the yielded (owner, type) pairs


def find_walk(f, allow_seed_only=False):
    """(while node, worklist name, seed param) or None.  With
    allow_seed_only a work-list loop that never pushes subclasses is found
    too (a walk that examines the queried type only)."""
    params = set(f.params())
    seeds = {}
    for n in ast.walk(f.node):
        if isinstance(n, ast.Assign) and len(n.targets) == 1 and isinstance(
                n.targets[0], ast.Name):
            v = n.value
            if isinstance(v, ast.Call) and dotted(v.func) in (
                    'deque', 'collections.deque', 'list') and len(v.args) == 1:
                v = v.args[0]
            if isinstance(v, (ast.List, ast.Tuple)) and len(v.elts) == 1 \
                    and isinstance(v.elts[0], ast.Name) \
                    and v.elts[0].id in params:
                seeds[n.targets[0].id] = v.elts[0].id
            elif isinstance(v, ast.Call) and isinstance(
                    v.func, ast.Attribute) and v.func.attr == \
                    '__subclasses__' and isinstance(
                        v.func.value, ast.Name) and v.func.value.id in params \
                    and not v.args:
                # the queried type itself was examined before the loop
                # (first iteration peeled): the list starts with its
                # subclasses
                seeds[n.targets[0].id] = v.func.value.id
                PEELED.add(n.targets[0].id + '@' + f.qualname)
    for n in ast.walk(f.node):
        if isinstance(n, ast.While):
            t = n.test
            name = None
            if isinstance(t, ast.Name):
                name = t.id
            elif isinstance(t, ast.Compare) and isinstance(
                    t.left, ast.Call) and dotted(t.left.func) == 'len' \
                    and t.left.args and isinstance(t.left.args[0], ast.Name):
                name = t.left.args[0].id
            elif isinstance(t, ast.Call) and dotted(t.func) == 'len' \
                    and t.args and isinstance(t.args[0], ast.Name):
                name = t.args[0].id
            if name in seeds:
                uses_sub = any(isinstance(x, ast.Attribute)
                               and x.attr == '__subclasses__'
                               for x in ast.walk(n))
                if uses_sub:
                    return n, name, seeds[name]
                if not allow_seed_only:
                    continue
                pops = any(isinstance(x, ast.Call) and isinstance(
                    x.func, ast.Attribute) and x.func.attr in (
                        'pop', 'popleft') and isinstance(
                            x.func.value, ast.Name) and x.func.value.id
                    == name for x in ast.walk(n))
                if pops:
                    return n, name, seeds[name]
    return None


def find_walk_via_generator(program, f, world):
    """`for t in helper(param)` where helper is an in-repo generator that
    contains the walk -> (loop of the helper, its work list, f's parameter)."""
    params = set(f.params())
    for n in ast.walk(f.node):
        if not (isinstance(n, ast.For) and isinstance(n.iter, ast.Call)
                and len(n.iter.args) >= 1):
            continue
        call = n.iter
        g = None
        d = dotted(call.func) or ''
        if d.startswith('self.') and d.count('.') == 1:
            g = program.resolve_method(world, d.split('.')[1])
        else:
            r = program.lookup(f.module, d)
            if r and r[0] == 'func':
                g = r[1]
        if g is None or not any(isinstance(x, ast.Yield)
                                for x in ast.walk(g.node)):
            continue
        fw = find_walk(g)
        if fw is None:
            continue
        gparams = [p for p in g.params() if p not in ('self', 'cls')]
        if fw[2] not in gparams:
            continue
        arg = call.args[gparams.index(fw[2])] if gparams.index(
            fw[2]) < len(call.args) else None
        if isinstance(arg, ast.Name) and arg.id in params:
            return fw[0], fw[1], arg.id
    return None


def analyse_walk(program, rep, f, world):
    site = f.where
    found = find_walk(f) or find_walk_via_generator(program, f, world)
    if found is None:
        return False
    loop, wl, seed = found
    in_f = any(x is loop for x in ast.walk(f.node))
    # the walk reports something per visited type: it yields (itself, or -
    # when it lives in a generator helper - through a consumer that yields
    # or accumulates per visit)
    has_effect = any(isinstance(x, (ast.Yield, ast.YieldFrom))
                     for x in ast.walk(loop)) and (in_f or any(
        isinstance(x, (ast.Yield, ast.YieldFrom)) or (
            isinstance(x, ast.Call) and isinstance(x.func, ast.Attribute)
            and x.func.attr in ('append', 'extend'))
        for x in ast.walk(f.node)))
    w = Walker(program, _NoInline(program))
    exits = w.run(f, world)
    rep.count('paths', len(exits))
    viol = {}       # rule -> (node, why, path)
    unsure_once = []
    unsure_closure = []

    # an opt-in flag (a parameter whose default is False / None): the walk
    # is complete for every call that does not set it
    a_ = f.node.args
    names_ = [x.arg for x in a_.args]
    dflt_ = dict(zip(reversed(names_), reversed(a_.defaults)))
    dflt_.update({k.arg: d for k, d in zip(a_.kwonlyargs, a_.kw_defaults)
                  if d is not None})
    opt_in = {n_ for n_, d in dflt_.items() if isinstance(d, ast.Constant)
              and d.value in (False, None)}

    def _breaks(stmts):
        for s_ in stmts:
            if isinstance(s_, ast.If) and isinstance(s_.test, ast.Name) \
                    and s_.test.id in opt_in and not s_.orelse and len(
                        s_.body) == 1 and isinstance(s_.body[0], ast.Break):
                continue
            if isinstance(s_, ast.Break):
                return s_
            if isinstance(s_, (ast.For, ast.While, ast.FunctionDef)):
                continue
            for fld in ('body', 'orelse', 'finalbody'):
                sub_ = getattr(s_, fld, None)
                if isinstance(sub_, list) and sub_ and isinstance(
                        sub_[0], ast.stmt):
                    r_ = _breaks(sub_)
                    if r_ is not None:
                        return r_
            for h_ in getattr(s_, 'handlers', []) or []:
                r_ = _breaks(h_.body)
                if r_ is not None:
                    return r_
        return None
    brk = _breaks(loop.body)
    if brk is not None:
        viol['closure'] = (brk, 'the walk can stop (break) while types are '
                           'still on the work list: subclasses reached later '
                           'are never examined', [])
    for x in ast.walk(loop):
        if isinstance(x, ast.AugAssign) and isinstance(
                x.target, ast.Name) and x.target.id == wl and not isinstance(
                    x.op, ast.Add):
            viol['closure'] = (x, 'the work list is not extended with the '
                               'subclasses (operator is not +=)', [])
    okc = {'exact-first': 0, 'match': 0, 'closure': 0, 'single': 0, 'once': 0}
    unknown_first = 0

    def flag(rule, node, why, tr):
        if rule not in viol:
            viol[rule] = (node, why, [
                f'{"" if e.extra else "not "}({e.sym.text})'
                for e in tr if e.kind == 'cond'][:10])

    # pre-scan: does the walk de-duplicate the yielded (owner, type) pairs?
    PAIR_MODE.pop(f.qualname, None)
    for ex in exits:
        tr_ = ex.state.trace
        for k_, x in enumerate(tr_):
            if x.kind == 'cond' and x.extra is False and isinstance(
                    x.sym.node, ast.Compare) and isinstance(
                        x.sym.node.ops[0], ast.In) and isinstance(
                            x.sym.node.left, ast.Tuple) and len(
                                x.sym.node.left.elts) == 2 and isinstance(
                                    x.sym.node.comparators[0], ast.Name):
                key_ = norm(x.sym.node.left)
                if any(y.kind == 'call' and isinstance(
                        y.sym.node, ast.Call) and isinstance(
                            y.sym.node.func, ast.Attribute)
                        and y.sym.node.func.attr == 'add' and y.sym.node.args
                        and norm(y.sym.node.args[0]) == key_
                        for y in tr_[k_:k_ + 4]):
                    PAIR_MODE[f.qualname] = True
    for ex in exits:
        tr = ex.state.trace
        # split into iterations
        iters = []
        cur = None
        for e in tr:
            if e.kind == 'cond' and e.node is loop.test:
                if cur is not None:
                    iters.append(cur)
                cur = [] if e.extra else None
                if not e.extra:
                    pass
                continue
            if cur is not None:
                cur.append(e)
        entered_again = []
        # recompute with knowledge of "followed by another true test"
        iters = []
        cur = None
        for e in tr:
            if e.kind == 'cond' and e.node is loop.test:
                if cur is not None:
                    iters.append((cur, True))      # back edge was taken
                cur = [] if e.extra else None
                continue
            if cur is not None:
                cur.append(e)
        if cur is not None:
            iters.append((cur, False))             # left by return / exit
        detached = False
        for idx, (evs, back) in enumerate(iters):
            popped = None
            for e in evs:
                if e.kind == 'local' and isinstance(e.node, ast.Assign) \
                        and isinstance(e.node.value, ast.Call) \
                        and isinstance(e.node.value.func, ast.Attribute) \
                        and e.node.value.func.attr in ('pop', 'popleft') \
                        and dotted(e.node.value.func.value) == wl:
                    popped = e.sym.text
                    break
            if popped is None:
                flag('closure', loop, 'an iteration does not pop the work '
                     'list', tr)
                continue
            if detached:
                flag('single', loop, 'the loop is entered again after an '
                     'object was detached: more than one object is removed by '
                     'one call', tr)
            if idx == 0:
                peeled_ok = False
                if f'{wl}@{f.qualname}' in PEELED:
                    # exact type first: a membership test of the queried type
                    # in a table was decided (and missed) before the loop
                    first_test = [e for e in tr if e.kind == 'cond']
                    pre = []
                    for e in tr:
                        if e.kind == 'cond' and e.node is loop.test:
                            break
                        if e.kind == 'cond':
                            pre.append(e)
                    peeled_ok = any(
                        isinstance(e.sym.node, ast.Compare) and isinstance(
                            e.sym.node.ops[0], ast.In) and norm(
                                e.sym.node.left) == seed and any(
                                    w_ in e.sym.text for w_ in TABLE_WORDS)
                        and e.extra is False for e in pre)
                if popped == seed or peeled_ok:
                    okc['exact-first'] += 1
                elif popped.endswith(('.pop()', '.popleft()')):
                    unknown_first += 1
                else:
                    flag('exact-first', loop, f'the first type examined is '
                         f'{popped}, not the queried type {seed}', tr)
            # match test: first condition of the iteration that reads a table
            skipped = False
            visited_false = False
            visited_added = False
            extended = False
            first_table_cond = None
            reached_effect = False
            # alternative de-duplication: every yielded pair is tested
            # against / recorded in a set of (owner, type) keys - the key must
            # name the visited type, else distinct components of one owner
            # are suppressed
            alt = None
            yields_ = [x for x in evs if x.kind == 'yield']
            pair_keys = [x for x in evs if x.kind == 'cond' and isinstance(
                x.sym.node, ast.Compare) and isinstance(
                    x.sym.node.ops[0], ast.In) and x.extra is False
                and isinstance(x.sym.node.comparators[0], ast.Name)
                and not any(w_ in x.sym.text for w_ in TABLE_WORDS)
                and norm(x.sym.node.left) != popped]
            if has_effect and yields_ and pair_keys:
                key = pair_keys[-1].sym.node.left
                names_type = any(norm(k_) == popped for k_ in (
                    key.elts if isinstance(key, ast.Tuple) else [key]))
                recorded = any(
                    x.kind == 'call' and isinstance(x.sym.node, ast.Call)
                    and isinstance(x.sym.node.func, ast.Attribute)
                    and x.sym.node.func.attr == 'add' and x.sym.node.args
                    and norm(x.sym.node.args[0]) == norm(key) for x in evs)
                if names_type and recorded and isinstance(
                        key, ast.Tuple) and len(key.elts) == 2:
                    alt = 'ok'
                    PAIR_MODE[f.qualname] = True
                else:
                    alt = ('yielded pairs are de-duplicated by the key '
                           f'{norm(key)}, which does not name the visited '
                           'type (or is not recorded): a second component of '
                           'the same owner (another type of the queried '
                           'family) is suppressed')
            for e in evs:
                if e.kind == 'cond':
                    n = e.sym.node
                    reads_table = any(w_ in e.sym.text for w_ in TABLE_WORDS)
                    if isinstance(n, ast.Compare) and len(n.ops) == 1 \
                            and isinstance(n.ops[0], ast.In) \
                            and norm(n.left) == popped and not reads_table:
                        # membership in a local set: the visited test
                        if e.extra:
                            skipped = True
                        else:
                            visited_false = True
                    elif reads_table and first_table_cond is None:
                        first_table_cond = e
                elif e.kind == 'call':
                    cn = e.sym.node
                    if isinstance(cn, ast.Call) and isinstance(
                            cn.func, ast.Attribute):
                        if cn.func.attr == 'add' and cn.args and norm(
                                cn.args[0]) == popped and isinstance(
                                    cn.func.value, ast.Name):
                            visited_added = True
                        if cn.func.attr in ('extend', 'extendleft') and dotted(
                                cn.func.value) == wl and cn.args and norm(
                                    cn.args[0]) == f'{popped}.__subclasses__()':
                            extended = True
                elif e.kind == 'auglocal' and isinstance(e.target, ast.Name) \
                        and e.target.id == wl:
                    if e.sym.text == f'{popped}.__subclasses__()':
                        extended = True
                    sn = e.sym.node
                    if isinstance(sn, (ast.ListComp, ast.GeneratorExp)) \
                            and len(sn.generators) == 1 and norm(
                                sn.generators[0].iter) \
                            == f'{popped}.__subclasses__()' \
                            and norm(sn.elt) == norm(sn.generators[0].target) \
                            and all(isinstance(c_, ast.Compare)
                                    and len(c_.ops) == 1
                                    and isinstance(c_.ops[0], ast.NotIn)
                                    and norm(c_.left) == norm(sn.elt)
                                    and isinstance(c_.comparators[0], ast.Name)
                                    and not norm(c_.comparators[0])
                                    .startswith('self')
                                    for c_ in sn.generators[0].ifs):
                        # subclasses already visited are left out of the work
                        # list (they would be skipped when popped): still
                        # every unvisited subclass is pushed
                        vis_names = {norm(c_.comparators[0])
                                     for c_ in sn.generators[0].ifs}
                        tested = {x.sym.text.split(' in ', 1)[1]
                                  for x in tr if x.kind == 'cond'
                                  and x.sym.text.startswith(f'{popped} in ')}
                        if vis_names <= tested:
                            # (the set filtered on is the one the visited
                            # test of this walk uses)
                            extended = True
                    if isinstance(sn, (ast.ListComp, ast.GeneratorExp)) \
                            and len(sn.generators) == 1 and norm(
                                sn.generators[0].iter) \
                            == f'{popped}.__subclasses__()' and any(
                                w_ in norm(getattr(e.node, 'value', e.node))
                                for w_ in ('__bases__', '__mro__')):
                        # pushed or not by the position of the popped type
                        # among the bases: an argument about the class graph
                        unsure_closure.append(e)
                        extended = True
                elif e.kind in ('yield', 'for'):
                    if e.kind == 'yield' or any(
                            w_ in e.sym.text for w_ in TABLE_WORDS):
                        reached_effect = True
                        if alt == 'ok' or (alt is None and PAIR_MODE.get(
                                f.qualname) and not yields_):
                            okc['once'] += 1
                            continue
                        if alt is not None:
                            flag('once', e.node, alt, tr)
                            continue
                        graphy = [c_ for c_ in tr if c_.kind == 'cond' and (
                            '__bases__' in c_.sym.text
                            or '__mro__' in c_.sym.text)]
                        if has_effect and not (visited_false and visited_added) \
                                and graphy:
                            # the visited test is applied to some types only,
                            # chosen by the shape of the class graph: that the
                            # others are reached once is an argument about
                            # that graph, not decided here
                            unsure_once.append(graphy[0])
                        elif has_effect and not (visited_false and visited_added):
                            flag('once', e.node, 'the per-visit effect of the '
                                 'walk (yielding the components of the popped '
                                 'type) is not preceded, in the same '
                                 'iteration, by a visited-set test on the '
                                 'popped type and its recording: a type '
                                 'reachable through two bases is reported '
                                 'twice (or distinct components are '
                                 'suppressed)', tr)
                        elif has_effect:
                            okc['once'] += 1
                elif e.kind == 'del' or (e.kind == 'call' and isinstance(
                        e.sym.node, ast.Call) and isinstance(
                            e.sym.node.func, ast.Attribute)
                        and e.sym.node.func.attr == 'pop'
                        and any(w_ in norm(e.sym.node.func.value)
                                for w_ in ('self._entities',
                                           'self._processors'))):
                    t = e.target.text if e.kind == 'del' else norm(
                        e.sym.node.func.value)
                    if (t.startswith('self._entities[') and t.count('[') >= 2) \
                            or t.startswith('self._processors') and (
                                e.kind == 'del' and '[' in t
                                or e.kind == 'call'):
                        detached = True
                    if e.kind == 'call' and t.startswith('self._entities['):
                        detached = True
            if first_table_cond is not None and not has_effect:
                n = first_table_cond.sym.node
                good = isinstance(n, ast.Compare) and len(n.ops) == 1 \
                    and isinstance(n.ops[0], ast.In) and norm(n.left) == popped
                if good:
                    okc['match'] += 1
                else:
                    flag('match', first_table_cond.node,
                         'the match test of the walk is not a membership test '
                         f'of the popped type on the table (it is "'
                         f'{first_table_cond.sym.text}"): an object that is '
                         'falsy, or stored under another type, is skipped or '
                         'matched wrongly', tr)
            if back:
                if extended or skipped:
                    okc['closure'] += 1
                else:
                    flag('closure', loop,
                         'an iteration returns to the loop head without having '
                         'pushed the subclasses of the popped type: indirect '
                         'subclasses (or subclasses of non-matching types) are '
                         'never examined', tr)
            if detached and not back:
                okc['single'] += 1
    if unknown_first and 'exact-first' not in viol and not okc['exact-first']:
        rep.inconclusive('C06.exact-first', site, loop.test,
                         'the first popped element of the work list could not '
                         'be determined', line=loop.lineno)
    if unsure_closure and 'closure' not in viol:
        rep.inconclusive('C06.closure', site, unsure_closure[0].node,
                         'the subclasses pushed on the work list are chosen '
                         'by their position in the class graph '
                         f'({unsure_closure[0].sym.text[:90]}): that every '
                         'subclass is still reached is not decided here',
                         line=getattr(unsure_closure[0].node, 'lineno', None))
    if unsure_once and 'once' not in viol:
        rep.inconclusive('C06.once', site, unsure_once[0].node,
                         'the visited-set test is applied only when '
                         f'`{unsure_once[0].sym.text}`: that the other types '
                         'are examined once rests on the shape of the class '
                         'graph (a type with one base is pushed by that base '
                         'only), which this rule does not model',
                         line=getattr(unsure_once[0].node, 'lineno', None))
    for rule in ('exact-first', 'match', 'closure', 'once', 'single'):
        if rule in viol:
            node, why, path = viol[rule]
            if node is loop:
                node = ast.Expr(ast.Name(f'while {norm(loop.test)}: ...',
                                         ast.Load()))
                node.lineno = loop.lineno
            rep.bad(f'C06.{rule}', site, node, why, detail={'path': path},
                    line=getattr(node, 'lineno', None))
        elif okc[rule]:
            rep.ok(f'C06.{rule}', site, loop.test,
                   f'{okc[rule]} path/iteration instances conform',
                   line=loop.lineno)
    return True


QUERIES = ('get', 'get_component', 'get_components', 'has_component',
           'get_processor', 'entity_exists')
WORLD_TABLES = ('_entities', '_components', '_processors',
                '_sorted_processors')


def _self_writes(m):
    """{attr: node} for the attributes of self this method stores into,
    deletes from, rebinds or mutates through a mutator method."""
    from dlint.walk import MUTATORS
    out = {}
    def base_attr(n):
        while isinstance(n, ast.Subscript):
            n = n.value
        if isinstance(n, ast.Attribute) and isinstance(
                n.value, ast.Name) and n.value.id == 'self':
            return n.attr
        return None
    for s in ast.walk(m.node):
        tg = []
        if isinstance(s, ast.Assign):
            tg = [t for tt in s.targets for t in (
                tt.elts if isinstance(tt, ast.Tuple) else [tt])]
        elif isinstance(s, (ast.AugAssign, ast.AnnAssign)):
            tg = [s.target]
        elif isinstance(s, ast.Delete):
            tg = s.targets
        elif isinstance(s, ast.Call) and isinstance(s.func, ast.Attribute) \
                and s.func.attr in MUTATORS:
            tg = [s.func.value]
        for t in tg:
            a = base_attr(t)
            if a is not None:
                out.setdefault(a, s)
    return out


def check_query_memo(program, rep):
    """A query may only remember an answer in an attribute of the world if
    every method that changes the tables it reads forgets it again (and, for
    answers that depend on the subclass closure, forgets the supertypes'
    answers too)."""
    from .util import check_memo_invalidation
    world = program.cls('World')
    n = check_memo_invalidation(
        program, rep, 'C06.memo', world, QUERIES + ('processors', 'entities'),
        WORLD_TABLES + ('_dead_entities',),
        'a later query is answered from the memo - an object added meanwhile '
        'is not reported (or a removed one still is)', closure_keyed=True)
    rep.floor('C06.memo', 'query methods of World', n, 5)


def check_index(program, rep):
    """get(T) reads the type index: a component attached by add_component
    must be filed in the index entry the table holds (C01's rule for stale
    references to rows / owner sets)."""
    from rules import c01
    rep.borrow(c01.analyse_writers, program, rep,
               {'add_component', 'create_entity'},
               keep=lambda o: o.rule == 'C01.atomic',
               rename=lambda r: 'C06.index',
               why='a matching component is not reported by get(T)')


def check_visible(program, rep):
    from rules import c05
    rep.borrow(c05.run, program, rep, 'quick',
               keep=lambda o: o.rule == 'C05.visible',
               rename=lambda r: 'C06.match',
               why='a type query filters on the pending set: it stops '
               'matching components its sibling queries still match')


def run(program, rep, tier):
    check_query_memo(program, rep)
    check_visible(program, rep)
    check_index(program, rep)
    _NoInline.loop_bound = 5 if tier == 'thorough' else 3
    rep.extra['loop_bound'] = _NoInline.loop_bound
    world = program.cls('World')
    covered = 0
    seen = set()
    for name in ENTRY:
        f = program.method('World', name)
        target = f
        if find_walk(f) is None and find_walk_via_generator(
                program, f, world) is None:
            # delegates (get -> _get): follow a single self.<m>(param) call
            for n in ast.walk(f.node):
                if isinstance(n, ast.Call) and (dotted(n.func) or ''
                                                ).startswith('self.'):
                    g = program.resolve_method(world, n.func.attr)
                    if g is not None and (find_walk(g, True) is not None or
                                          find_walk_via_generator(
                                              program, g, world) is not None):
                        target = g
        if find_walk(target) is None and find_walk_via_generator(
                program, target, world) is None:
            so = find_walk(target, allow_seed_only=True)
            if so is not None:
                rep.bad('C06.closure', target.where, so[0],
                        'the work-list loop never pushes the subclasses of '
                        'the type it examines: only objects of exactly the '
                        'queried type are matched', line=so[0].lineno)
                covered += 1
                continue
            isub = [n for n in ast.walk(f.node) if isinstance(n, ast.Call)
                    and dotted(n.func) in ('issubclass', 'isinstance')
                    and len(n.args) == 2 and isinstance(n.args[1], ast.Name)
                    and n.args[1].id in f.params()]
            if isub:
                rep.bad('C06.match', f.where, isub[0],
                        f'{f.node.name} decides by {dotted(isub[0].func)}() '
                        'against the queried type instead of walking '
                        '__subclasses__() like its sibling queries: virtual '
                        'subclasses (ABC.register, __subclasshook__) match '
                        'here and nowhere else - the queries disagree, and '
                        'objects that are not subclasses are matched',
                        line=isub[0].lineno)
                covered += 1
                continue
            rep.inconclusive('C06.cover', f.where, f.node.name,
                             'no subclass walk (work list seeded with the '
                             'queried type and extended with '
                             '__subclasses__()) is reached by this query')
            continue
        covered += 1
        if target.name in seen:
            continue
        seen.add(target.name)
        analyse_walk(program, rep, target, world)
    # a queried TYPE is never classified by a structural protocol: a class can
    # satisfy Iterable / Sized / Container / ... through its metaclass (every
    # Enum class does), and would then be taken for a collection of types
    STRUCT = ('Iterable', 'Iterator', 'Sized', 'Container', 'Collection',
              'Reversible', 'Sequence', 'Hashable', 'Callable')
    DUNDER = ('__iter__', '__len__', '__contains__', '__getitem__',
              '__reversed__')
    todo = [program.method('World', n) for n in ENTRY]
    scanned = []
    while todo:
        g = todo.pop()
        if g is None or g in scanned:
            continue
        scanned.append(g)
        for n in ast.walk(g.node):
            if isinstance(n, ast.Call) and (dotted(n.func) or '').startswith(
                    'self._'):
                todo.append(program.resolve_method(world, n.func.attr))
    for g in scanned:
        ps = [a.arg for a in g.node.args.posonlyargs + g.node.args.args
              + g.node.args.kwonlyargs
              if (a.annotation is not None and norm(a.annotation).lower()
                  .startswith(('type', 'optional[type', 'union[type')))
              or (a.annotation is None and 'type' in a.arg.lower())]
        for n in ast.walk(g.node):
            if not (isinstance(n, ast.Call) and len(n.args) == 2
                    and isinstance(n.args[0], ast.Name)
                    and n.args[0].id in ps):
                continue
            fnm = dotted(n.func)
            if fnm == 'isinstance':
                alts = n.args[1].elts if isinstance(
                    n.args[1], ast.Tuple) else [n.args[1]]
                hit = [a for a in alts if (dotted(a) or '').split('.')[-1]
                       in STRUCT]
            elif fnm == 'hasattr':
                hit = [n.args[1]] if isinstance(
                    n.args[1], ast.Constant) and n.args[1].value in DUNDER \
                    else []
            else:
                hit = []
            if hit:
                rep.bad('C06.match', g.where, n,
                        f'the queried type is classified by {norm(n)}: a '
                        'component class can satisfy this protocol through '
                        'its metaclass (every Enum class is iterable, sized '
                        'and a container) and is then taken apart as a '
                        'collection of types - its own instances and '
                        'subclasses are never matched', line=n.lineno)
    rep.ok('C06.match', f'{world.module.relpath}:World',
           ', '.join(g.name for g in scanned),
           'no query classifies the queried type by a structural protocol',
           nontrivial=False)
    # the walk must not be memoised: classes defined later must be found
    for fn in program.all_functions():
        cached = [d for d in fn.node.decorator_list if (dotted(
            d.func if isinstance(d, ast.Call) else d) or '').split('.')[-1]
            in ('lru_cache', 'cache', 'cached_property')]
        if cached and any(isinstance(x, ast.Attribute)
                          and x.attr == '__subclasses__'
                          for x in ast.walk(fn.node)):
            rep.bad('C06.closure', fn.where, cached[0],
                    'the set of subclasses is computed once and cached: a '
                    'subclass defined after the first query is never matched',
                    line=fn.node.lineno)
    # remove_processor detaches the matched object from BOTH structures
    from rules import c07
    n0 = len(rep.obs)
    c07.check_writers(program, rep)
    kept = []
    for o in rep.obs[n0:]:
        if 'type filtered out' in o.why or 'execution list drops' in o.why:
            o.rule = 'C06.single'
            kept.append(o)
    rep.obs[n0:] = kept
    rep.floor('C06.cover', 'query entry points reaching a subclass walk',
              covered, 6)
    if covered == 6:
        rep.ok('C06.cover', f'{world.module.relpath}:World', ', '.join(ENTRY),
               'all six type queries reach a recognised subclass walk')
