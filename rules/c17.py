"""C17 - a static resource map is a faithful, immutable mirror."""
import ast

from dlint.model import AnalysisError, dotted, norm, strip_docstring
from dlint.walk import Domain, Walker
from rules import c12

EXPLANATION = (
    'Static rules over StaticResourceMap and ResourceMap.get_static_map. '
    'immutable: every path through StaticResourceMap.__setattr__ and '
    '__delattr__ (PathEval) ends in raise with no store; the generated '
    'subclass defines neither; its __init__ writes only through '
    'object.__setattr__. mirror: get_static_map iterates self.handles.items() '
    '(the visible handles) and self.maps.items(), stores each handle itself '
    'and each sub-map through a recursive get_static_map() under its own key, '
    '_handle_names is the frozenset of exactly the handle keys, the slot / '
    '__dict__ decision looks at the names of both handles and sub-maps, and a '
    'fresh snapshot is built on every call (nothing is cached on the map). '
    'unwrap: __getattribute__ calls the stored object iff its name is in '
    '_handle_names, get returns it uncalled, __getitem__ delegates to '
    'attribute access.')
RULE = 'one obligation per (rule, function, statement)'
NOT_DECIDED = ['names colliding with the snapshot\'s own members',
               'composite paths in [] on a snapshot']
ASSUMPTIONS = ['object.__setattr__ bypasses the overridden __setattr__']


class _D(Domain):
    def resolve_call(self, st, call, walker):
        # private helpers extracted from the analysed code are followed
        return walker.resolve_helper(st, call)


def run(program, rep, tier):
    sm = program.cls('StaticResourceMap')
    class _DX(_D):
        follow_exceptions = True

        def may_raise(self, st, ev):
            return ev.kind == 'call'
    for nm in ('__setattr__', '__delattr__'):
        f = program.method('StaticResourceMap', nm, inherited=False)
        w = Walker(program, _DX(program))
        exits = w.run(f, sm)
        rep.count('paths', len(exits))
        bad = None
        for ex in exits:
            if ex.kind != 'raise':
                bad = (ex.node or f.node, 'a path returns normally')
            for e in ex.state.trace:
                if e.kind in ('store', 'del') or (
                        e.kind == 'call' and dotted(e.sym.node.func) in (
                            'object.__setattr__', 'object.__delattr__',
                            'super().__setattr__', 'super().__delattr__',
                            'setattr', 'delattr')):
                    bad = (e.node, 'a path changes the object')
        rep.check(bad is None and bool(exits), 'C17.immutable', f.where,
                  bad[0] if bad else f'{nm}: raise',
                  'every path raises and changes nothing',
                  f'{nm} of a static map does not always raise ('
                  + (bad[1] if bad else '') + '): the snapshot can be '
                  'modified', line=f.node.lineno)
    g = program.method('ResourceMap', 'get_static_map', inherited=False)
    site = g.where
    classes = [n for n in ast.walk(g.node) if isinstance(n, ast.ClassDef)]
    if len(classes) != 1:
        rep.inconclusive('C17.immutable', site, 'StaticSubmap',
                         'generated subclass not found')
        return
    cls = classes[0]
    defs = {n.name for n in cls.body if isinstance(n, ast.FunctionDef)}
    rep.check(not ({'__setattr__', '__delattr__', '__getattribute__',
                    '__getitem__', 'get'} & defs), 'C17.immutable', site,
              f'class {cls.name}', 'the generated class inherits the '
              'immutable accessors', 'the generated snapshot class overrides '
              'the accessors / mutators of StaticResourceMap',
              line=cls.lineno)
    based = [norm(b) for b in cls.bases] == ['StaticResourceMap']
    rep.check(based, 'C17.immutable', site, f'class {cls.name}(...)',
              'the snapshot is a StaticResourceMap',
              'the generated class does not derive from StaticResourceMap',
              line=cls.lineno)
    init = [n for n in cls.body if isinstance(n, ast.FunctionDef)
            and n.name == '__init__']
    if init:
        sub = init[0].args.args[0].arg
        raw = [n for n in ast.walk(init[0]) if isinstance(
            n, (ast.Assign, ast.AugAssign)) and any(
                norm(t).startswith(sub + '.') for t in (
                    n.targets if isinstance(n, ast.Assign) else [n.target]))]
        rep.check(not raw, 'C17.immutable', site,
                  raw[0] if raw else 'object.__setattr__(subself, ...)',
                  'the snapshot is filled through object.__setattr__ only',
                  'the snapshot __init__ assigns attributes directly (raises '
                  'ValueError)', line=init[0].lineno)
    # mirror: handles part shared with C12
    c12.check_static_build(program, rep, 'C17.mirror')
    ok_m = False
    if init:
        from dlint.model import FuncInfo
        sub = init[0].args.args[0].arg

        class _One(_D):
            def for_counts(self, st, node, itersym):
                return [1]
        fi = FuncInfo(g.module, None, '__init__', init[0])
        w = Walker(program, _One(program))
        exits = [e for e in w.run(fi, None) if e.kind != 'raise']
        ok_m = bool(exits)
        for ex in exits:
            tr = ex.state.trace
            from rules.c12 import closure_plain
            _plain = closure_plain(g, init[0])
            items = [e for e in tr if e.kind == 'for-item'
                     and _plain(e.sym.text) == 'self.maps.items()']
            merged = [e for e in tr if e.kind == 'for-item' and _plain(
                e.sym.text) in (
                    'chain(self.handles.items(), self.maps.items())',
                    'itertools.chain(self.handles.items(), '
                    'self.maps.items())')]
            sets = [e.sym.node for e in tr if e.kind == 'call' and isinstance(
                e.sym.node, ast.Call) and norm(e.sym.node.func) in (
                    'object.__setattr__', 'setattr')]
            cds = {e.sym.text: e.extra for e in tr if e.kind == 'cond'}
            good = False
            for it in items:
                t = it.target.text
                if any([norm(a) for a in cc.args] == [
                        sub, f'{t}[0]', f'{t}[1].get_static_map()']
                        for cc in sets):
                    good = True
            for it in merged:
                t = it.target.text
                im = cds.get(f'isinstance({t}[1], ResourceMap)')
                want = [sub, f'{t}[0]', f'{t}[1].get_static_map()'] \
                    if im is True else [sub, f'{t}[0]', f'{t}[1]']
                if im is not None and any(
                        [norm(a) for a in cc.args] == want for cc in sets):
                    good = True
            if not good:
                ok_m = False
    rep.check(ok_m, 'C17.mirror', site, 'for key, value in self.maps.items()',
              'every sub-map is mirrored recursively under its own name',
              'sub-maps are not mirrored as value.get_static_map() under '
              'their own names', line=g.node.lineno)
    # slots / __dict__ decision: whatever decides whether '__dict__' is among
    # the slots must look at the names of both the handles and the sub-maps
    assigns = {}
    for n in ast.walk(g.node):
        if isinstance(n, ast.Assign) and isinstance(n.targets[0], ast.Name):
            assigns.setdefault(n.targets[0].id, []).append(n.value)

    def closure_text(expr, depth=4):
        txt = norm(expr)
        seen = set()
        frontier = {x.id for x in ast.walk(expr) if isinstance(x, ast.Name)}
        for _ in range(depth):
            nxt = set()
            for nm in frontier:
                if nm in seen:
                    continue
                seen.add(nm)
                for v in assigns.get(nm, []):
                    txt += ' ' + norm(v)
                    nxt |= {x.id for x in ast.walk(v)
                            if isinstance(x, ast.Name)}
            frontier = nxt
        return txt
    deciders = []
    for n in ast.walk(g.node):
        if isinstance(n, (ast.If, ast.IfExp)):
            inner = (n.body + n.orelse) if isinstance(n, ast.If) else [
                n.body, n.orelse]
            if any(isinstance(x, ast.Constant) and x.value == '__dict__'
                   for b in inner for x in ast.walk(b)):
                deciders.append(n)
    ok_d = False
    why = 'no decision about a __dict__ slot found'

    class _NoEval(Exception):
        pass

    def _pred_fn(name):
        """(param, returned expression) of a private module-level function
        `def _f(x): return <expr>` of the module."""
        if not name or not name.startswith('_'):
            return None
        for s_ in g.module.tree.body:
            if isinstance(s_, ast.FunctionDef) and s_.name == name:
                body_ = strip_docstring(s_.body)
                if len(s_.args.args) == 1 and len(body_) == 1 and isinstance(
                        body_[0], ast.Return) and body_[0].value is not None:
                    return s_.args.args[0].arg, body_[0].value
        return None

    class _Nm:
        """An abstract resource name: truth value = str.isidentifier()."""
        def __init__(self, ident, mangled):
            self.ident, self.mangled = ident, mangled

        def __bool__(self):
            return self.ident
    _ID, _OT, _MG = _Nm(True, False), _Nm(False, False), _Nm(True, True)

    def _ev(n, sc, env):
        """Evaluate the decision for a scenario: collections of names are
        lists of "is an identifier" flags."""
        if isinstance(n, ast.Constant):
            return n.value
        if isinstance(n, ast.Name):
            if n.id in env:
                return env[n.id]
            vs = assigns.get(n.id, [])
            if len(vs) == 1:
                v0 = vs[0]
                one_shot = isinstance(v0, ast.GeneratorExp) or (
                    isinstance(v0, ast.Call) and (dotted(v0.func) or ''
                                                  ).split('.')[-1] in (
                        'chain', 'map', 'filter', 'zip', 'iter', 'islice',
                        'filterfalse'))
                if one_shot:
                    # an iterator: whoever reads it first uses it up
                    uses = sorted((x.lineno, x.col_offset) for x in ast.walk(
                        g.node) if isinstance(x, ast.Name) and x.id == n.id
                        and isinstance(x.ctx, ast.Load))
                    if uses and (n.lineno, n.col_offset) != uses[0]:
                        return []
                return _ev(v0, sc, env)
            raise _NoEval(n.id)
        t = norm(n)
        mg_h = sc[5] if len(sc) > 5 else 0
        mg_m = sc[6] if len(sc) > 6 else 0
        if t in ('self.handles', 'self.handles.keys()'):
            return [_ID] * sc[0] + [_OT] * sc[1] + [_MG] * mg_h
        if t in ('self.maps', 'self.maps.keys()'):
            return [_ID] * sc[2] + [_OT] * sc[3] + [_MG] * mg_m
        if t == 'self.handles.maps':
            # the layers: every name in the first one, sc[4] identifier names
            # shadowed in a second one
            return [[_ID] * sc[0] + [_OT] * sc[1] + [_MG] * mg_h,
                    [_ID] * sc[4]]
        if isinstance(n, ast.Call):
            d = dotted(n.func) or ''
            if d.split('.')[-1] == 'chain' and not n.keywords:
                out = []
                for a in n.args:
                    if isinstance(a, ast.Starred):
                        for part in _ev(a.value, sc, env):
                            out += list(part)
                    else:
                        out += list(_ev(a, sc, env))
                return out
            if d in ('tuple', 'list', 'set', 'frozenset', 'sorted') \
                    and len(n.args) == 1:
                return list(_ev(n.args[0], sc, env))
            if d == 'len' and len(n.args) == 1:
                return len(_ev(n.args[0], sc, env))
            if d in ('any', 'all') and len(n.args) == 1:
                return (any if d == 'any' else all)(_ev(n.args[0], sc, env))
            if d == 'map' and len(n.args) == 2 and norm(n.args[0]) \
                    == 'str.isidentifier':
                return [bool(x) for x in _ev(n.args[1], sc, env)]
            pf = _pred_fn(d)
            if pf is not None and len(n.args) == 1 and not n.keywords:
                return _ev(pf[1], sc, dict(env, **{
                    pf[0]: _ev(n.args[0], sc, env)}))
            if d in ('map', 'filter') and len(n.args) == 2 and _pred_fn(
                    dotted(n.args[0]) or '') is not None:
                pf = _pred_fn(dotted(n.args[0]))
                seq = _ev(n.args[1], sc, env)
                res_ = [(x, _ev(pf[1], sc, dict(env, **{pf[0]: x})))
                        for x in seq]
                return [bool(r_) for _, r_ in res_] if d == 'map' else [
                    x for x, r_ in res_ if r_]
            if d == 'filter' and len(n.args) == 2:
                f_, seq = n.args
                seq = _ev(seq, sc, env)
                if isinstance(f_, ast.Lambda) and len(f_.args.args) == 1:
                    p_ = f_.args.args[0].arg
                    return [x for x in seq
                            if _ev(f_.body, sc, dict(env, **{p_: x}))]
                if norm(f_) == 'str.isidentifier':
                    return [x for x in seq if x]
            if isinstance(n.func, ast.Attribute) and n.func.attr == \
                    'isidentifier' and not n.args:
                return bool(_ev(n.func.value, sc, env))
            if isinstance(n.func, ast.Attribute) and n.func.attr in (
                    'startswith', 'endswith') and len(n.args) == 1 \
                    and isinstance(n.args[0], ast.Constant) \
                    and n.args[0].value == '__':
                v_ = _ev(n.func.value, sc, env)
                if isinstance(v_, _Nm):
                    return v_.mangled if n.func.attr == 'startswith' \
                        else False
            raise _NoEval(t)
        if isinstance(n, (ast.GeneratorExp, ast.ListComp, ast.SetComp)) \
                and len(n.generators) == 1 and isinstance(
                    n.generators[0].target, ast.Name):
            g_ = n.generators[0]
            out = []
            for x in _ev(g_.iter, sc, env):
                e2 = dict(env, **{g_.target.id: x})
                if all(_ev(c, sc, e2) for c in g_.ifs):
                    out.append(_ev(n.elt, sc, e2))
            return out
        if isinstance(n, (ast.Tuple, ast.List)):
            out = []
            for e_ in n.elts:
                if isinstance(e_, ast.Starred):
                    out += list(_ev(e_.value, sc, env))
                else:
                    out.append(_ev(e_, sc, env))
            return out
        if isinstance(n, ast.BinOp) and isinstance(n.op, (ast.Add, ast.Sub)):
            a_, b_ = _ev(n.left, sc, env), _ev(n.right, sc, env)
            return a_ + b_ if isinstance(n.op, ast.Add) else a_ - b_
        if isinstance(n, ast.UnaryOp) and isinstance(n.op, ast.Not):
            return not _ev(n.operand, sc, env)
        if isinstance(n, ast.BoolOp):
            vals = [_ev(v, sc, env) for v in n.values]
            return all(vals) if isinstance(n.op, ast.And) else any(vals)
        if isinstance(n, ast.Compare) and len(n.ops) == 1:
            a_, b_ = _ev(n.left, sc, env), _ev(n.comparators[0], sc, env)
            import operator as _o
            ops = {ast.Lt: _o.lt, ast.LtE: _o.le, ast.Gt: _o.gt,
                   ast.GtE: _o.ge, ast.Eq: _o.eq, ast.NotEq: _o.ne}
            if type(n.ops[0]) in ops:
                return ops[type(n.ops[0])](a_, b_)
        raise _NoEval(t)
    if deciders:
        src = closure_text(deciders[0].test)
        ok_d = 'self.handles' in src and 'self.maps' in src
        # evaluate the decision for every mix of identifier / other names
        dec = deciders[0]
        in_body = any(isinstance(x, ast.Constant) and x.value == '__dict__'
                      for b in (dec.body if isinstance(dec, ast.If)
                                else [dec.body]) for x in ast.walk(b))
        try:
            import itertools as _it
            for sc in _it.product((0, 1, 2), (0, 1, 2), (0, 1, 2), (0, 1, 2),
                                  (0, 1, 2), (0, 1), (0, 1)):
                if sc[4] > sc[0]:
                    continue
                got = bool(_ev(dec.test, sc, {}))
                has_dict = got if in_body else not got
                # a name that is no identifier cannot be a slot; neither can
                # `__x` (two leading underscores, not two trailing ones): in
                # the class body its slot is mangled to _StaticSubmap__x
                need = sc[1] + sc[3] + sc[5] + sc[6] > 0
                if need and not has_dict:
                    ok_d = False
                    why = (f'with {sc[0]}+{sc[1]}+{sc[5]} handle names' + (
                               f' ({sc[4]} of them shadowed in a second '
                               'layer)' if sc[4] else '') + ' and '
                           f'{sc[2]}+{sc[3]}+{sc[6]} sub-map names (plain '
                           'identifiers + non-identifiers + names like `__x`, '
                           'which are mangled inside a class body) the '
                           'snapshot class gets no __dict__ although a name '
                           'cannot be a slot: get_static_map() raises '
                           'AttributeError')
                    break
            else:
                if ok_d:
                    why = ''
        except (_NoEval, TypeError, ValueError):
            pass
        if not ok_d and not why.startswith('with '):
            why = ('the decision to give the snapshot a __dict__ does not '
                   'look at the names of both the handles and the sub-maps: '
                   'a level whose only non-identifier names are of the other '
                   'kind makes get_static_map() raise AttributeError')
    rep.check(ok_d, 'C17.mirror', site,
              deciders[0].test if deciders else '__dict__ decision',
              'non-identifier names of either kind get a __dict__', why,
              line=deciders[0].lineno if deciders else g.node.lineno)
    # fresh snapshot: nothing cached on the map, returns a new instance
    stores = [n for n in ast.walk(g.node) if isinstance(
        n, (ast.Assign, ast.AugAssign)) and any(
            norm(t).startswith('self.') for t in (
                n.targets if isinstance(n, ast.Assign) else [n.target]))
        and not any(n in ast.walk(c) for c in classes)]
    rets = [n for n in ast.walk(g.node) if isinstance(n, ast.Return)
            and not any(n in ast.walk(c) for c in classes)]
    def _is_class_expr(fn_):
        # the generated class itself, or an element of a container that only
        # ever receives that class (the class is cached, instances are not)
        if norm(fn_) == cls.name:
            return True
        if isinstance(fn_, ast.Subscript) and dotted(fn_.value):
            cont = dotted(fn_.value)
            vals = [n.value for fn2 in program.all_functions()
                    for n in ast.walk(fn2.node) if isinstance(n, ast.Assign)
                    and any(isinstance(t, ast.Subscript) and dotted(t.value)
                            == cont for t in n.targets)]
            return bool(vals) and all(isinstance(v, ast.Name)
                                      and v.id == cls.name for v in vals)
        return False
    fresh = all(isinstance(r.value, ast.Call) and _is_class_expr(
        r.value.func) for r in rets) and bool(rets)
    rep.check(not stores and fresh, 'C17.mirror', site,
              stores[0] if stores else (rets[0] if rets else 'return'),
              'every call builds and returns a new snapshot',
              'get_static_map() caches or reuses a snapshot (state stored on '
              'the map / a non-fresh return value): a second snapshot after '
              'a nested change still shows the old tree', line=g.node.lineno)
    # unwrap
    get = program.method('StaticResourceMap', 'get', inherited=False)
    body = strip_docstring(get.node.body)
    k = get.params()[1]
    ok = len(body) == 1 and isinstance(body[0], ast.Return) and norm(
        body[0].value) == f'object.__getattribute__(self, {k})'
    rep.check(ok, 'C17.unwrap', get.where, body[0] if body else 'get',
              'get returns the stored handle / sub-map uncalled',
              'get() on a snapshot does not return the stored object itself',
              line=get.node.lineno)
    # the snapshot files every name once - as a handle (listed in
    # _handle_names, unwrapped on access) or as a nested snapshot: that a name
    # of the source map is never BOTH a handle and a sub-map is what
    # __setitem__ guarantees by purging every layer (C11.exclusive)
    from rules import c11
    rep.borrow(c11.check_setitem, program, rep,
               keep=lambda o: o.rule == 'C11.exclusive',
               rename=lambda r: 'C17.mirror',
               why='a name of the source map can be a handle (in a shadowed '
               'layer) and a sub-map at once: the snapshot lists it in '
               '_handle_names but stores the nested snapshot under it - '
               'snapshot[name] calls a map (TypeError), get() and the source '
               'disagree')
    # __getattribute__ / __getitem__ : reuse C12 obligations under C17
    before = len(rep.obs)
    sub_rep_rules = ('C12.paths',)
    import copy
    tmp = copy.copy(rep)
    tmp.obs = []
    tmp.errors = []
    tmp.analysed = {}
    c12.run(program, tmp, tier)
    for o in tmp.obs:
        if o.rule == 'C12.paths' and ('StaticResourceMap' in o.site):
            o.rule = 'C17.unwrap'
            rep.obs.append(o)
            if o.verdict == 'inconclusive':
                rep.errors.append(f'{o.rule} at {o.site}: {o.why}')
