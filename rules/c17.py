"""C17 - a static resource map is a faithful, immutable mirror."""
import ast

from dlint.model import AnalysisError, dotted, norm, strip_docstring
from dlint.walk import Domain, Walker
from rules import c12

EXPLANATION = (
    'Static rules over StaticResourceMap and ResourceMap.get_static_map. '
    'immutable: every path through StaticResourceMap.__setattr__ and '
    '__delattr__ (PathEval) ends in raise with no store; the generated '
    'subclass defines neither; its __init__ writes only through '
    'object.__setattr__. mirror: get_static_map iterates self.handles.items() '
    '(the visible handles) and self.maps.items(), stores each handle itself '
    'and each sub-map through a recursive get_static_map() under its own key, '
    '_handle_names is the frozenset of exactly the handle keys, the slot / '
    '__dict__ decision looks at the names of both handles and sub-maps, and a '
    'fresh snapshot is built on every call (nothing is cached on the map). '
    'unwrap: __getattribute__ calls the stored object iff its name is in '
    '_handle_names, get returns it uncalled, __getitem__ delegates to '
    'attribute access.')
RULE = 'one obligation per (rule, function, statement)'
NOT_DECIDED = ['names colliding with the snapshot\'s own members',
               'composite paths in [] on a snapshot']
ASSUMPTIONS = ['object.__setattr__ bypasses the overridden __setattr__']


class _D(Domain):
    def resolve_call(self, st, call, walker):
        # private helpers extracted from the analysed code are followed
        return walker.resolve_helper(st, call)


def run(program, rep, tier):
    sm = program.cls('StaticResourceMap')
    for nm in ('__setattr__', '__delattr__'):
        f = program.method('StaticResourceMap', nm, inherited=False)
        w = Walker(program, _D(program))
        exits = w.run(f, sm)
        rep.count('paths', len(exits))
        bad = None
        for ex in exits:
            if ex.kind != 'raise':
                bad = (ex.node or f.node, 'a path returns normally')
            for e in ex.state.trace:
                if e.kind in ('store', 'del') or (
                        e.kind == 'call' and dotted(e.sym.node.func) in (
                            'object.__setattr__', 'object.__delattr__',
                            'super().__setattr__', 'super().__delattr__',
                            'setattr', 'delattr')):
                    bad = (e.node, 'a path changes the object')
        rep.check(bad is None and bool(exits), 'C17.immutable', f.where,
                  bad[0] if bad else f'{nm}: raise',
                  'every path raises and changes nothing',
                  f'{nm} of a static map does not always raise ('
                  + (bad[1] if bad else '') + '): the snapshot can be '
                  'modified', line=f.node.lineno)
    g = program.method('ResourceMap', 'get_static_map', inherited=False)
    site = g.where
    classes = [n for n in ast.walk(g.node) if isinstance(n, ast.ClassDef)]
    if len(classes) != 1:
        rep.inconclusive('C17.immutable', site, 'StaticSubmap',
                         'generated subclass not found')
        return
    cls = classes[0]
    defs = {n.name for n in cls.body if isinstance(n, ast.FunctionDef)}
    rep.check(not ({'__setattr__', '__delattr__', '__getattribute__',
                    '__getitem__', 'get'} & defs), 'C17.immutable', site,
              f'class {cls.name}', 'the generated class inherits the '
              'immutable accessors', 'the generated snapshot class overrides '
              'the accessors / mutators of StaticResourceMap',
              line=cls.lineno)
    based = [norm(b) for b in cls.bases] == ['StaticResourceMap']
    rep.check(based, 'C17.immutable', site, f'class {cls.name}(...)',
              'the snapshot is a StaticResourceMap',
              'the generated class does not derive from StaticResourceMap',
              line=cls.lineno)
    init = [n for n in cls.body if isinstance(n, ast.FunctionDef)
            and n.name == '__init__']
    if init:
        sub = init[0].args.args[0].arg
        raw = [n for n in ast.walk(init[0]) if isinstance(
            n, (ast.Assign, ast.AugAssign)) and any(
                norm(t).startswith(sub + '.') for t in (
                    n.targets if isinstance(n, ast.Assign) else [n.target]))]
        rep.check(not raw, 'C17.immutable', site,
                  raw[0] if raw else 'object.__setattr__(subself, ...)',
                  'the snapshot is filled through object.__setattr__ only',
                  'the snapshot __init__ assigns attributes directly (raises '
                  'ValueError)', line=init[0].lineno)
    # mirror: handles part shared with C12
    c12.check_static_build(program, rep, 'C17.mirror')
    ok_m = False
    if init:
        sub = init[0].args.args[0].arg
        for lp in ast.walk(init[0]):
            if isinstance(lp, ast.For) and norm(lp.iter) == \
                    'self.maps.items()' and isinstance(lp.target, ast.Tuple):
                kv = [norm(x) for x in lp.target.elts]
                if len(lp.body) == 1 and isinstance(lp.body[0], ast.Expr) \
                        and norm(lp.body[0].value) == (
                            f'object.__setattr__({sub}, {kv[0]}, '
                            f'{kv[1]}.get_static_map())'):
                    ok_m = True
    rep.check(ok_m, 'C17.mirror', site, 'for key, value in self.maps.items()',
              'every sub-map is mirrored recursively under its own name',
              'sub-maps are not mirrored as value.get_static_map() under '
              'their own names', line=g.node.lineno)
    # slots / __dict__ decision
    body_src = g.node
    uses = {'handles': False, 'maps': False}
    slot_assign = None
    for n in ast.walk(body_src):
        if isinstance(n, ast.Assign) and isinstance(n.targets[0], ast.Name) \
                and 'isidentifier' in norm(n.value):
            slot_assign = n
    dict_if = [n for n in ast.walk(body_src) if isinstance(n, ast.If)
               and any('__dict__' in norm(x) for x in ast.walk(n))]
    ok_d = False
    why = 'no `if ...: <add __dict__>` decision found'
    if dict_if:
        t = dict_if[0].test
        txt = norm(t)
        src = txt
        if slot_assign is not None and slot_assign.targets[0].id in txt:
            src += ' ' + norm(slot_assign.value)
        both = 'self.handles' in src and 'self.maps' in src
        ok_d = both
        why = ('the decision to give the snapshot a __dict__ does not look '
               'at the names of both the handles and the sub-maps: a level '
               'whose only non-identifier names are of the other kind makes '
               'get_static_map() raise AttributeError')
    rep.check(ok_d, 'C17.mirror', site,
              dict_if[0].test if dict_if else '__dict__ decision',
              'non-identifier names of either kind get a __dict__', why,
              line=dict_if[0].lineno if dict_if else g.node.lineno)
    # fresh snapshot: nothing cached on the map, returns a new instance
    stores = [n for n in ast.walk(g.node) if isinstance(
        n, (ast.Assign, ast.AugAssign)) and any(
            norm(t).startswith('self.') for t in (
                n.targets if isinstance(n, ast.Assign) else [n.target]))
        and not any(n in ast.walk(c) for c in classes)]
    rets = [n for n in ast.walk(g.node) if isinstance(n, ast.Return)
            and not any(n in ast.walk(c) for c in classes)]
    fresh = all(isinstance(r.value, ast.Call) and norm(r.value.func)
                == cls.name for r in rets) and bool(rets)
    rep.check(not stores and fresh, 'C17.mirror', site,
              stores[0] if stores else (rets[0] if rets else 'return'),
              'every call builds and returns a new snapshot',
              'get_static_map() caches or reuses a snapshot (state stored on '
              'the map / a non-fresh return value): a second snapshot after '
              'a nested change still shows the old tree', line=g.node.lineno)
    # unwrap
    get = program.method('StaticResourceMap', 'get', inherited=False)
    body = strip_docstring(get.node.body)
    k = get.params()[1]
    ok = len(body) == 1 and isinstance(body[0], ast.Return) and norm(
        body[0].value) == f'object.__getattribute__(self, {k})'
    rep.check(ok, 'C17.unwrap', get.where, body[0] if body else 'get',
              'get returns the stored handle / sub-map uncalled',
              'get() on a snapshot does not return the stored object itself',
              line=get.node.lineno)
    # __getattribute__ / __getitem__ : reuse C12 obligations under C17
    before = len(rep.obs)
    sub_rep_rules = ('C12.paths',)
    import copy
    tmp = copy.copy(rep)
    tmp.obs = []
    tmp.errors = []
    tmp.analysed = {}
    c12.run(program, tmp, tier)
    for o in tmp.obs:
        if o.rule == 'C12.paths' and ('StaticResourceMap' in o.site):
            o.rule = 'C17.unwrap'
            rep.obs.append(o)
