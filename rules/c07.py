"""C07 - processors run once per frame in priority order, one per type."""
import ast

from dlint.model import AnalysisError, dotted, norm, strip_docstring
from dlint.walk import Domain, Walker
from rules import lifecycle

EXPLANATION = (
    'Static rules over World.add_processor / remove_processor / process / '
    'processors and desper/bisect.py: (protocol) the PathEval lifecycle table '
    'of C02 applied to the processor table, with the processor knowing its '
    'world before on_add; (optional) the Optional priority parameter is '
    'tested by identity, and the priority store is guarded by it; (order) '
    'priority store and replacement precede the sorted insertion, whose key is '
    'the priority attribute; (stable) `bisect.insort` resolves - through the '
    'module alias - to insort_right, which inserts x at bisect_right(a, '
    'key(x), key=key), whose loops are the upper-bound search (hi = mid iff '
    'x < key(a[mid]) strictly, else lo = mid + 1, no early return); (writers) '
    'every writer of _sorted_processors in the package is the empty '
    'initialisation, that insort, or an order-preserving identity filter '
    'paired with the delete from _processors; (frame) process() runs one loop '
    'over the sorted list with one processor.process(dt) per element and the '
    'unmodified dt, and `processors` returns the list in order. The induction '
    '"sorted list invariant is preserved" is the written argument of '
    'DESIGN.md appendix C.')
RULE = ('one obligation per (rule, function, statement); non-trivial when the '
        'anchor statement exists')
NOT_DECIDED = [
    'processors added or removed from inside process() of the same frame',
    'a priority attribute mutated after insertion',
    'processor classes whose __lt__-less priorities are not comparable',
]
ASSUMPTIONS = ['list.insert / filter preserve the relative order of the '
               'other elements (frozen operation table)']


def _site(f):
    return f.where


def check_protocol(program, rep):
    out = lifecycle.analyse_world(program, rep, 'C07', None, 'C07')
    rep.count('paths', out['npaths'])
    n = 0
    for (rule, fn, text, line, kind, table), r in sorted(
            out['results'].items(), key=lambda kv: (kv[0][1], kv[0][3] or 0)):
        if table != 'self._processors':
            continue
        n += 1
        site = f'desper/logic/world.py:{fn}'
        rname = f'C07.{rule}'
        if r['bad']:
            b = r['bad'][0]
            rep.bad(rname, site, text, b['why'],
                    detail={k: v for k, v in b.items() if k != 'why'}
                    | {'failing_paths': len(r['bad']),
                       'conforming_paths': r['ok']}, line=line)
        else:
            rep.ok(rname, site, text, f'all {r["ok"]} path/object instances '
                   'conform to the protocol table', line=line)
    for fn, node, why in out['problems']:
        if 'processor' in norm(node):
            rep.inconclusive('C07.protocol', f'desper/logic/world.py:{fn}',
                             node, why, line=getattr(node, 'lineno', None))
    rep.floor('C07.protocol', 'attach/detach sites on _processors', n, 3)


class _Plain(Domain):
    PRIM = lifecycle.LifeDomain.PRIMITIVES | {'remove_processor',
                                              'remove_component'}

    def decide(self, st, sym, node):
        from dlint.walk import fold_truth
        n = sym.node
        # a module-level name bound to a non-None value is not None
        if isinstance(n, ast.Compare) and len(n.ops) == 1 and isinstance(
                n.ops[0], ast.Is) and isinstance(
                    n.comparators[0], ast.Constant) \
                and n.comparators[0].value is None and isinstance(
                    n.left, ast.Name):
            for m in self.program.modules.values():
                for stt in m.tree.body:
                    if isinstance(stt, ast.Assign) and any(
                            isinstance(t, ast.Name) and t.id == n.left.id
                            for t in stt.targets) and not (
                                isinstance(stt.value, ast.Constant)
                                and stt.value.value is None):
                        return False
        return fold_truth(n)

    def resolve_call(self, st, call, walker):
        r = walker.default_resolve(st, call)
        if r is None:
            h = walker.resolve_helper(st, call)
            if h is not None:
                return h
            m = walker.resolve_module_func(st, call)
            if m is not None and m[0].module.name.endswith('.bisect') \
                    and not m[0].name.startswith('bisect'):
                return m        # insort / insort_right / their helpers
            return None
        if r[0].name in self.PRIM:
            return None
        return r


def check_add_processor(program, rep):
    f = program.method('World', 'add_processor')
    site = _site(f)
    params = f.params()
    if len(params) < 3:
        rep.inconclusive('C07.optional', site, f.node.name,
                         'add_processor(self, processor, priority) expected')
        return
    proc, prio = params[1], params[2]
    a = f.node.args
    dflt = a.defaults[-1] if a.defaults else None
    optional = isinstance(dflt, ast.Constant) and dflt.value is None
    w = Walker(program, _Plain(program))
    exits = [e for e in w.run(f, program.cls('World')) if e.kind != 'raise']
    rep.count('paths', len(exits))
    truthy = []
    unguarded = []
    missing = []
    late_prio = []
    late_replace = []
    world_late = []
    world_early = []
    searches = []
    keys = set()
    insorts = 0
    stores = 0
    for ex in exits:
        tr = ex.state.trace
        conds = {e.sym.text: e.extra for e in tr if e.kind == 'cond'}
        i_ins = i_prio = i_world = i_note = i_rep = None
        for i, e in enumerate(tr):
            if e.kind == 'cond' and optional:
                n = e.sym.node
                if isinstance(n, ast.Name) and n.id == prio:
                    truthy.append(e.node)
            if e.kind == 'call':
                d = dotted(e.sym.node.func) if isinstance(
                    e.sym.node, ast.Call) else None
                if d == 'self._sorted_processors.insert' and i_ins is None:
                    i_ins = i
                    insorts += 1
                    cn = e.sym.node
                    idx = cn.args[0] if cn.args else None
                    searches.append((idx, e))
                    if not (len(cn.args) == 2 and norm(cn.args[1]) == proc):
                        keys.add('BAD-ARGS:' + norm(cn))
                    if isinstance(idx, ast.Call):
                        k = [x for x in idx.keywords if x.arg == 'key']
                        keys.add(norm(k[0].value) if k else None)
                    else:
                        keys.add('BAD-INDEX:' + norm(cn))
                if d == 'self.remove_processor' and i_rep is None:
                    i_rep = i
                if d == 'self.dispatch' or (isinstance(
                        e.sym.node, ast.Call) and isinstance(
                            e.sym.node.func, ast.Call) and dotted(
                                e.sym.node.func.func) == 'getattr'):
                    if i_note is None:
                        i_note = i
            if e.kind == 'store' and e.target is not None:
                t = e.target.text
                if t == f'{proc}.priority':
                    i_prio = i
                    stores += 1
                    if e.sym.text != prio:
                        unguarded.append((e.node, 'stores '
                                          + e.sym.text + ', not the requested '
                                          'priority'))
                    elif optional and conds.get(f'{prio} is None') is not False:
                        unguarded.append((e.node, 'the priority is stored '
                                          'without the identity test '
                                          '"priority is not None" holding on '
                                          'the path'))
                if t == f'{proc}.world' and e.sym.text == 'self':
                    i_world = i
        if optional and conds.get(f'{prio} is None') is False and i_prio is None:
            missing.append(ex)
        if i_ins is not None and i_prio is not None and i_prio > i_ins:
            late_prio.append(tr[i_prio].node)
        if i_ins is not None and i_rep is not None and i_rep > i_ins:
            late_replace.append(tr[i_rep].node)
        if i_note is not None and (i_world is None or i_world > i_note):
            world_late.append(tr[i_note].node)
        if i_world is not None and i_rep is not None and i_world < i_rep:
            world_early.append(tr[i_world].node)
        if i_world is None:
            world_late.append(f.node)
    rep.check(not truthy, 'C07.optional', site,
              truthy[0] if truthy else f'{prio}: Optional[int] = None',
              'the Optional priority is never tested by truth value',
              'the Optional priority is tested by truth value: priority 0 is '
              'taken for "not given" and the class default is used',
              line=truthy[0].lineno if truthy else f.node.lineno)
    rep.check(not unguarded and not missing, 'C07.optional', site,
              unguarded[0][0] if unguarded else f'{proc}.priority = {prio}',
              'the requested priority is stored exactly when it is not None',
              unguarded[0][1] if unguarded else
              'a path on which a priority was given does not store it',
              line=unguarded[0][0].lineno if unguarded else f.node.lineno)
    rep.floor('C07.order', 'sorted insertion in add_processor', insorts, 1)
    rep.floor('C07.optional', 'store of the requested priority', stores, 1)
    rep.check(not late_prio, 'C07.order', site,
              late_prio[0] if late_prio else f'{proc}.priority = {prio}',
              'the priority in force is assigned before the sorted insertion',
              'the priority is assigned after the sorted insertion: the '
              'processor is filed under its old priority',
              line=late_prio[0].lineno if late_prio else f.node.lineno)
    rep.check(not late_replace, 'C07.order', site,
              late_replace[0] if late_replace else 'self.remove_processor(..)',
              'the replaced instance is removed before the insertion',
              'the previous processor of this type is removed after the new '
              'one was inserted (the filter by type drops the new one too)',
              line=late_replace[0].lineno if late_replace else f.node.lineno)
    def resolve_key(k):
        """Follow a module-level alias `name = <expr>` and imported names."""
        if k is None:
            return None
        mod = f.module
        for _ in range(3):
            try:
                n = ast.parse(k, mode='eval').body
            except SyntaxError:
                return k
            if isinstance(n, ast.Name):
                for stt in mod.tree.body:
                    if isinstance(stt, ast.Assign) and any(
                            isinstance(t, ast.Name) and t.id == n.id
                            for t in stt.targets):
                        k = norm(stt.value)
                        break
                else:
                    return k
            else:
                break
        try:
            n = ast.parse(k, mode='eval').body
        except SyntaxError:
            return k
        if isinstance(n, ast.Call) and len(n.args) == 1 and isinstance(
                n.args[0], ast.Constant) and n.args[0].value == 'priority':
            d = dotted(n.func) or ''
            r = program.lookup(mod, d)
            if d in ('operator.attrgetter', 'attrgetter') or (
                    r and r[0] == 'external'
                    and r[1] == 'operator.attrgetter'):
                return "operator.attrgetter('priority')"
        return k
    keys = {resolve_key(k) for k in keys}
    good_keys = {f'lambda p: p.priority', "operator.attrgetter('priority')",
                 "attrgetter('priority')"}
    bad = [k for k in keys if k is None or (
        k not in good_keys and not _is_prio_lambda(k))]
    rep.check(not bad, 'C07.order', site, 'bisect.insort(..., key=...)',
              'the list is kept sorted by the priority attribute',
              f'sorted insertion with key {bad[0] if bad else None}: the '
              'execution list is not ordered by priority',
              line=f.node.lineno)
    # the index comes from the upper-bound search of desper/bisect.py on the
    # list itself, for key(processor)
    sbad = None
    for idx, e in searches:
        if not isinstance(idx, ast.Call):
            sbad = (e, 'the insertion index is not the result of a search')
            continue
        fnm = dotted(idx.func) or ''
        r = program.lookup(e.frame_func.module, fnm)
        target = r[1] if r and r[0] == 'func' else None
        SEARCH_FUNCS.append(target)
        a = [norm(x) for x in idx.args]
        kk = [x for x in idx.keywords if x.arg == 'key']
        ktext = norm(kk[0].value) if kk else None
        okkey = a[1:2] in ([f'{proc}.priority'], [f'({ktext})({proc})'],
                           [f'{ktext}({proc})'])
        if target is None or target.name != 'bisect_right' \
                or not target.module.name.endswith('.bisect'):
            sbad = (e, f'the insertion point is searched with {fnm}, not the '
                    'upper-bound search bisect_right: processors of equal '
                    'priority are not kept in insertion order')
        elif a[:1] != ['self._sorted_processors'] or not okkey:
            sbad = (e, f'the search is made on ({", ".join(a)}): it must '
                    'search the execution list for the priority of the new '
                    'processor')
    rep.check(sbad is None and bool(searches), 'C07.stable', site,
              sbad[0].node if sbad else 'insert at bisect_right(list, '
              'priority)', 'the processor is inserted at the upper bound of '
              'its priority in the execution list (after equal priorities)',
              sbad[1] if sbad else 'no sorted insertion found',
              line=getattr(sbad[0].node, 'lineno', None) if sbad
              else f.node.lineno)
    rep.check(not world_late, 'C07.protocol', site,
              world_late[0] if world_late else f'{proc}.world = self',
              'the processor knows its world on every path, before on_add',
              'processor.world is not set (before on_add is delivered)',
              line=getattr(world_late[0], 'lineno', None) if world_late
              else f.node.lineno)
    rep.check(not world_early, 'C07.protocol', site,
              world_early[0] if world_early else f'{proc}.world = self',
              'the world is assigned after the replaced processor was '
              'detached', 'processor.world is assigned before the previous '
              'processor of that type is removed: re-adding the registered '
              'instance lets its own removal reset the world it was just '
              'given', line=getattr(world_early[0], 'lineno', None)
              if world_early else f.node.lineno)
    # both tables on every path
    both = True
    for ex in exits:
        has_ins = any(e.kind == 'call' and isinstance(e.sym.node, ast.Call)
                      and dotted(e.sym.node.func)
                      == 'self._sorted_processors.insert'
                      for e in ex.state.trace)
        has_tab = any(e.kind == 'store' and e.target is not None
                      and e.target.text.startswith('self._processors[')
                      for e in ex.state.trace)
        if has_ins != has_tab or not has_ins:
            both = False
    rep.check(both, 'C07.writers', site, 'insort + self._processors[T] = p',
              'every path files the processor in both the sorted list and '
              'the type table',
              'a path updates only one of _sorted_processors / _processors: '
              'process() and get_processor() disagree', line=f.node.lineno)


def _is_prio_lambda(text):
    try:
        n = ast.parse(text, mode='eval').body
    except SyntaxError:
        return False
    return (isinstance(n, ast.Lambda) and len(n.args.args) == 1
            and isinstance(n.body, ast.Attribute) and n.body.attr == 'priority'
            and isinstance(n.body.value, ast.Name)
            and n.body.value.id == n.args.args[0].arg)


SEARCH_FUNCS = []


def check_bisect(program, rep):
    fns = [x for x in SEARCH_FUNCS if x is not None
           and x.name == 'bisect_right']
    if fns:
        check_upper_bound(fns[0], rep)
    else:
        br = program.lookup(program.cls('World').module, 'bisect.bisect_right')
        if br and br[0] == 'func':
            check_upper_bound(br[1], rep)
        else:
            rep.inconclusive('C07.stable', 'desper/bisect.py', 'bisect_right',
                             'not found')
    return
    world_mod = program.cls('World').module
    r = program.lookup(world_mod, 'bisect.insort')
    if r is None or r[0] != 'func':
        rep.inconclusive('C07.stable', world_mod.relpath, 'bisect.insort',
                         'bisect.insort does not resolve to an in-repo '
                         'function')
        return
    ins = r[1]
    site = ins.where
    a = ins.node.args
    if len(a.args) < 2:
        rep.inconclusive('C07.stable', site, ins.node.name, 'insort(a, x, ..)')
        return
    A, X = a.args[0].arg, a.args[1].arg
    # which search does it use, on every path, and what does it insert?
    searches = set()
    inserts = []
    key_paths_ok = True
    for n in ast.walk(ins.node):
        if isinstance(n, ast.Call):
            d = dotted(n.func)
            if d and d.startswith('bisect_'):
                searches.add(d)
                kw = {k.arg: norm(k.value) for k in n.keywords}
                if 'key' in kw:
                    if not (len(n.args) >= 2 and norm(n.args[1])
                            == f'key({X})' and kw['key'] == 'key'):
                        key_paths_ok = False
                else:
                    if not (len(n.args) >= 2 and norm(n.args[1]) == X):
                        key_paths_ok = False
            if d == f'{A}.insert':
                inserts.append(n)
    rep.check(searches == {'bisect_right'}, 'C07.stable', site,
              f'insort -> {ins.node.name}: ' + ', '.join(sorted(searches)),
              'the insertion point is the upper bound (after equal keys)',
              'the insertion used by add_processor searches with '
              + ', '.join(sorted(searches)) + ': processors of equal '
              'priority are not kept in insertion order',
              line=ins.node.lineno)
    ok_ins = len(inserts) == 1 and len(inserts[0].args) == 2 and norm(
        inserts[0].args[1]) == X
    idx = norm(inserts[0].args[0]) if inserts else None
    assigned = any(isinstance(n, ast.Assign) and norm(n.targets[0]) == idx
                   and isinstance(n.value, ast.Call)
                   and (dotted(n.value.func) or '').startswith('bisect_')
                   for n in ast.walk(ins.node)) if idx else False
    rep.check(ok_ins and assigned and key_paths_ok, 'C07.stable', site,
              inserts[0] if inserts else ins.node.name,
              'x is inserted at the index returned by the search, which '
              'compares key(x) with key(a[i])',
              'the element is not inserted at the searched index, or the '
              'search is not given key(x) together with key', line=getattr(
                  inserts[0], 'lineno', ins.node.lineno) if inserts else None)
    br = program.lookup(ins.module, 'bisect_right')
    if br is None or br[0] != 'func':
        rep.inconclusive('C07.stable', site, 'bisect_right', 'not found')
        return
    check_upper_bound(br[1], rep)


def check_upper_bound(f, rep):
    site = f.where
    a = f.node.args
    A, X = a.args[0].arg, a.args[1].arg
    loops = [n for n in ast.walk(f.node) if isinstance(n, ast.While)]
    rep.floor('C07.stable', 'search loops in bisect_right', len(loops), 1)
    for lp in loops:
        ok = True
        why = ''
        if norm(lp.test) not in ('lo < hi', 'hi > lo'):
            ok, why = False, f'loop condition {norm(lp.test)}'
        mid = None
        for st in lp.body:
            if isinstance(st, ast.Assign) and isinstance(st.targets[0],
                                                          ast.Name):
                if norm(st.value) in ('(lo + hi) // 2', '(hi + lo) // 2',
                                      'lo + (hi - lo) // 2', 'lo + hi >> 1',
                                      '(lo + hi) >> 1'):
                    mid = st.targets[0].id
        rets = [n for st in lp.body for n in ast.walk(st)
                if isinstance(n, (ast.Return, ast.Break))]
        if rets:
            rep.bad('C07.stable', site, rets[0],
                    'the search leaves the loop early: an element equal to x '
                    'found at mid does not prove that no equal element lies to '
                    'its right, so the result is not the upper bound and ties '
                    'lose their insertion order', line=rets[0].lineno)
            continue
        ifs = [st for st in lp.body if isinstance(st, ast.If)]
        if mid is None or len(ifs) != 1:
            rep.inconclusive('C07.stable', site, lp,
                             'search loop is not "mid = (lo+hi)//2; if ..: '
                             '.. else: .." - shape not understood',
                             line=lp.lineno)
            continue
        iff = ifs[0]
        elem = {f'{A}[{mid}]', f'key({A}[{mid}])'}
        # a local holding the (keyed) middle element
        for st in lp.body:
            if isinstance(st, ast.Assign) and isinstance(
                    st.targets[0], ast.Name) and st.targets[0].id != mid:
                v = st.value
                alts = [v.body, v.orelse] if isinstance(v, ast.IfExp) else [v]
                if all(norm(x) in elem for x in alts):
                    elem = elem | {st.targets[0].id}
            if isinstance(st, ast.If) and st is not iff:
                asg = [x for b in (st.body, st.orelse) for x in b]
                if asg and all(isinstance(x, ast.Assign) and isinstance(
                        x.targets[0], ast.Name) and norm(x.value) in elem
                        for x in asg) and len({x.targets[0].id
                                               for x in asg}) == 1:
                    elem = elem | {asg[0].targets[0].id}
        ifs = [st for st in lp.body if isinstance(st, ast.If) and any(
            isinstance(x, ast.Assign) and norm(x.targets[0]) in ('lo', 'hi')
            for x in ast.walk(st))]
        if len(ifs) != 1:
            rep.inconclusive('C07.stable', site, lp, 'search loop shape not '
                             'understood', line=lp.lineno)
            continue
        iff = ifs[0]
        t = iff.test
        rel = None      # 'x<e' strict upper-bound test
        if isinstance(t, ast.Compare) and len(t.ops) == 1:
            l, r, op = norm(t.left), norm(t.comparators[0]), t.ops[0]
            if l == X and r in elem:
                rel = {ast.Lt: 'x<e', ast.LtE: 'x<=e', ast.Gt: 'x>e',
                       ast.GtE: 'x>=e'}.get(type(op))
            elif r == X and l in elem:
                rel = {ast.Gt: 'x<e', ast.GtE: 'x<=e', ast.Lt: 'x>e',
                       ast.LtE: 'x>=e'}.get(type(op))
        if rel is None:
            rep.inconclusive('C07.stable', site, iff.test,
                             'comparison of the search loop not understood',
                             line=iff.lineno)
            continue

        def upd(body):
            if len(body) == 1 and isinstance(body[0], ast.Assign):
                return norm(body[0])
            return None
        tb, fb = upd(iff.body), upd(iff.orelse)
        hi_mid, lo_mid1 = f'hi = {mid}', f'lo = {mid} + 1'
        if rel == 'x<e':
            good = (tb == hi_mid and fb == lo_mid1)
        elif rel == 'x>=e':
            good = (tb == lo_mid1 and fb == hi_mid)
        else:
            good = False
        rep.check(good and ok, 'C07.stable', site, iff.test,
                  'upper-bound search: hi = mid exactly when x < key(a[mid]), '
                  'otherwise lo = mid + 1',
                  f'the search branches on "{norm(iff.test)}" with updates '
                  f'({tb}) / ({fb}){"; " + why if why else ""}: this is not '
                  'the upper-bound search, equal priorities are inserted '
                  'before (or among) the existing ones', line=iff.lineno)


def check_writers(program, rep):
    """Every writer of _sorted_processors in the package."""
    n_w = 0
    for f in program.all_functions():
        for n in ast.walk(f.node):
            kind = None
            node = None
            if isinstance(n, (ast.Assign, ast.AugAssign, ast.AnnAssign)):
                tg = n.targets if isinstance(n, ast.Assign) else [n.target]
                for t in tg:
                    if (dotted(t) or '').endswith('._sorted_processors'):
                        kind, node = 'rebind', n
                    elif isinstance(t, ast.Subscript) and (dotted(
                            t.value) or '').endswith('._sorted_processors'):
                        kind, node = 'item-store', n
            elif isinstance(n, ast.Call):
                d = dotted(n.func) or ''
                parts = d.split('.')
                if len(parts) >= 2 and parts[-2] == '_sorted_processors' \
                        and parts[-1] in ('append', 'insert', 'extend', 'sort',
                                          'reverse', 'remove', 'pop', 'clear',
                                          'appendleft'):
                    kind, node = parts[-1], n
                elif parts[-1] in ('insort', 'insort_right', 'insort_left',
                                   'heappush') and n.args and (dotted(
                                       n.args[0]) or '').endswith(
                                           '._sorted_processors'):
                    kind, node = 'insort', n
            elif isinstance(n, ast.Delete):
                for t in n.targets:
                    if '_sorted_processors' in norm(t):
                        kind, node = 'del', n
            if kind is None:
                continue
            n_w += 1
            site = f.where
            if kind == 'insort':
                rep.ok('C07.writers', site, node, 'sorted insertion',
                       line=node.lineno)
            elif kind == 'rebind' and isinstance(node, (ast.Assign,
                                                        ast.AnnAssign)):
                v = node.value
                if isinstance(v, ast.List) and not v.elts:
                    rep.check(f.name == '__init__', 'C07.writers', site, node,
                              'empty initialisation',
                              'the execution list is emptied outside the '
                              'constructor while _processors keeps its '
                              'entries', line=node.lineno)
                    continue
                pred = _order_preserving_filter(v)
                if pred is None:
                    rep.bad('C07.writers', site, node,
                            'the execution list is rebound to something that '
                            'is not an order-preserving filter of itself',
                            line=node.lineno)
                    continue
                var, test = pred
                ident = _identity_predicate(var, test)
                # the type filtered out must be the one whose table entry is
                # deleted in this function
                dels = [norm(t.slice) for x in ast.walk(f.node)
                        if isinstance(x, ast.Delete) for t in x.targets
                        if isinstance(t, ast.Subscript) and norm(t.value)
                        == 'self._processors'] + [
                    norm(x.args[0]) for x in ast.walk(f.node)
                    if isinstance(x, ast.Call) and norm(x.func)
                    == 'self._processors.pop' and x.args]
                if ident and isinstance(test, ast.Compare) and norm(
                        test.left) == f'type({var})' and dels:
                    cmp_to = norm(test.comparators[0])
                    rep.check(cmp_to in dels, 'C07.writers', site, test,
                              'the type filtered out of the execution list '
                              'is the one removed from the type table',
                              f'the execution list drops processors of type '
                              f'{cmp_to} while the type table drops '
                              f'{dels[0]}: a processor matched through a '
                              'subclass stays in the execution list (keeps '
                              'running) although it was removed',
                              line=node.lineno)
                rep.check(ident, 'C07.writers', site, node,
                          'order-preserving filter on the identity of the '
                          'type / instance',
                          'the filter removes processors by equality '
                          '(user-defined __eq__ may drop another processor, '
                          'or keep the replaced one)', line=node.lineno)
                # paired with the delete from _processors
                owner = f.node
                has_del = any(isinstance(x, ast.Delete) and any(
                    norm(t).startswith('self._processors[')
                    for t in x.targets) or (
                        isinstance(x, ast.Call) and norm(x.func)
                        == 'self._processors.pop') for x in ast.walk(owner))
                rep.check(has_del, 'C07.writers', site,
                          'del self._processors[T]',
                          'the filter is paired with the removal from the '
                          'type table', 'the execution list is filtered but '
                          'the type table keeps the entry', line=node.lineno)
            else:
                if kind == 'insert' and f.name == 'add_processor':
                    rep.ok('C07.writers', site, node, 'insertion at the '
                           'searched index (validated by C07.stable)',
                           line=node.lineno)
                    continue
                why = {
                    'remove': 'list.remove() compares with ==: a processor '
                              'with a value-style __eq__ makes it drop a '
                              'different, equal-comparing processor while the '
                              'replaced one keeps running',
                    'append': 'append does not keep the list sorted by '
                              'priority',
                    'insert': 'insert at a computed index bypasses the stable '
                              'sorted insertion',
                }.get(kind, f'writer "{kind}" of the execution list is '
                            'neither the sorted insertion nor an identity '
                            'filter')
                rep.bad('C07.writers', site, node, why, line=node.lineno)
    rep.floor('C07.writers', 'writers of _sorted_processors', n_w, 2)


def _order_preserving_filter(v):
    """list(filter(lambda p: TEST, self._sorted_processors)) or
    [p for p in self._sorted_processors if TEST] -> (var, TEST)."""
    if isinstance(v, ast.Call) and dotted(v.func) in ('list', 'tuple') \
            and len(v.args) == 1:
        v = v.args[0]
    if isinstance(v, ast.Call) and dotted(v.func) == 'filter' \
            and len(v.args) == 2 and isinstance(v.args[0], ast.Lambda) \
            and (dotted(v.args[1]) or '').endswith('._sorted_processors'):
        lam = v.args[0]
        return lam.args.args[0].arg, lam.body
    if isinstance(v, ast.ListComp) and len(v.generators) == 1:
        g = v.generators[0]
        if (dotted(g.iter) or '').endswith('._sorted_processors') \
                and isinstance(g.target, ast.Name) and norm(v.elt) \
                == g.target.id and len(g.ifs) == 1:
            return g.target.id, g.ifs[0]
    return None


def _identity_predicate(var, test):
    if isinstance(test, ast.Compare) and len(test.ops) == 1:
        l = norm(test.left)
        op = test.ops[0]
        if l == f'type({var})' and isinstance(op, (ast.IsNot, ast.NotEq)):
            return True
        if l == var and isinstance(op, ast.IsNot):
            return True
    return False


def check_frame(program, rep):
    """Path based (helpers followed): one loop over the execution list, one
    processor.process(dt) per element with the unmodified dt."""
    world = program.cls('World')
    f = program.method('World', 'process')
    site = f.where
    dt = f.params()[1] if len(f.params()) > 1 else None

    class _FD(Domain):
        def resolve_call(self, st, call, walker):
            r = walker.resolve_helper(st, call, skip={
                '_clear_dead_entities', '_delete_entity_now'})
            return r

        def for_counts(self, st, node, itersym):
            return [1]
    exits = [e for e in Walker(program, _FD(program)).run(f, world)
             if e.kind != 'raise']
    if not exits or dt is None:
        rep.inconclusive('C07.frame', site, f.node.name, 'no path')
        return
    bad = None
    n_loops = 0
    for ex in exits:
        tr = ex.state.trace
        items = [e for e in tr if e.kind == 'for-item'
                 and '_sorted_processors' in e.sym.text]
        fors = [e for e in tr if e.kind == 'for'
                and '_sorted_processors' in e.sym.text]
        if len(fors) != 1:
            bad = bad or (f.node, f'{len(fors)} loops over the execution '
                          'list in one frame')
            continue
        n_loops += 1
        from rules.lifecycle import unwrap_iter
        base, view = unwrap_iter(fors[0].sym.node)
        if norm(base) != 'self._sorted_processors' or any(
                w_ in fors[0].sym.text for w_ in ('sorted(', 'reversed(',
                                                  'set(')):
            bad = bad or (fors[0].node, 'the frame does not iterate the '
                          'execution list in its order')
        for it in items:
            t = it.target.text
            calls = [e.sym.node for e in tr if e.kind == 'call'
                     and isinstance(e.sym.node, ast.Call)
                     and norm(e.sym.node.func) == f'{t}.process']
            # extra keywords of the frame call may be passed on as they came
            # (`**kwargs` of process() itself - empty for process(dt)); dt
            # itself is bound by position, whatever the processor calls it
            kwp = f.node.args.kwarg.arg if f.node.args.kwarg else None
            extra_ok = all(k.arg is None and kwp is not None
                           and norm(k.value) == kwp
                           for k in (calls[0].keywords if calls else []))
            if len(calls) != 1 or [norm(a) for a in calls[0].args] != [dt] \
                    or not extra_ok:
                bad = bad or (it.node, 'a processor is not called exactly '
                              f'once with the dt given to process() '
                              f'({[norm(c) for c in calls]})')
    rebound = any(isinstance(n, (ast.Assign, ast.AugAssign)) and any(
        norm(t) == dt for t in (n.targets if isinstance(n, ast.Assign)
                                else [n.target])) for n in ast.walk(f.node))
    rep.check(bad is None and not rebound and n_loops > 0, 'C07.frame', site,
              bad[0] if bad else 'for processor in self._sorted_processors',
              'each processor is called exactly once per frame, in list '
              'order, with the dt given to process()',
              bad[1] if bad else 'process() rebinds dt or has no loop',
              line=getattr(bad[0], 'lineno', f.node.lineno) if bad
              else f.node.lineno)
    g = program.method('World', 'processors')
    body = strip_docstring(g.node.body)
    COPIES = ('tuple(self._sorted_processors)',
              'list(self._sorted_processors)',
              'self._sorted_processors[:]',
              'self._sorted_processors.copy()')
    ok = len(body) == 1 and isinstance(body[0], ast.Return) and norm(
        body[0].value) in COPIES
    if not ok and len(body) == 2 and isinstance(body[0], ast.If) \
            and not body[0].orelse and isinstance(body[1], ast.Return) \
            and len(body[0].body) == 1 and isinstance(
                body[0].body[0], ast.Assign):
        # the copy built lazily and remembered: `if self.M is None: self.M =
        # <copy>; return self.M` - the listing is right as long as the memo
        # is forgotten by every change of the list (C06.memo, taken over
        # below for this query)
        t_, a_ = body[0].test, body[0].body[0]
        memo = norm(body[1].value) if body[1].value is not None else None
        ok = (isinstance(t_, ast.Compare) and len(t_.ops) == 1
              and isinstance(t_.ops[0], ast.Is)
              and norm(t_.left) == memo and norm(t_.comparators[0]) == 'None'
              and len(a_.targets) == 1 and norm(a_.targets[0]) == memo
              and memo is not None and memo.startswith('self._')
              and norm(a_.value) in COPIES[:2])
    from rules import c06
    rep.borrow(c06.check_query_memo, program, rep,
               keep=lambda o: o.rule == 'C06.memo' and o.site.endswith(
                   ('World.processors', 'World.get_processor')),
               rename=lambda r: 'C07.listing',
               why='`processors` / get_processor answer from a remembered '
               'copy that a change of the processor list did not forget')
    rep.check(ok, 'C07.frame', g.where, body[0] if body else g.node.name,
              '`processors` lists the execution list in order',
              '`processors` does not return the execution list in its order',
              line=g.node.lineno)


def check_remove_processor(program, rep):
    """Both structures have dropped the processor before its on_remove runs
    (a callback that registers a processor of that type again, or raises, must
    not find - or leave - the table and the execution list in disagreement)."""
    f = program.method('World', 'remove_processor')
    site = _site(f)
    w = Walker(program, _Plain(program))
    exits = [e for e in w.run(f, program.cls('World')) if e.kind != 'raise']
    late = None
    n_del = 0
    for ex in exits:
        tr = ex.state.trace
        first = None
        for i, e in enumerate(tr):
            if e.kind == 'call' and isinstance(e.sym.node, ast.Call):
                cn = e.sym.node
                if first is None and (dotted(cn.func) == 'self.dispatch'
                                      or isinstance(cn.func, ast.Call)):
                    first = i
                    n_del += 1
            wr = None
            if e.kind == 'del' and e.target is not None and e.target.text \
                    .startswith(('self._processors[',
                                 'self._sorted_processors[')):
                wr = e
            if e.kind == 'store' and e.target is not None and e.target.text \
                    .startswith(('self._sorted_processors',
                                 'self._processors')):
                wr = e
            if e.kind == 'call' and isinstance(e.sym.node, ast.Call) and \
                    isinstance(e.sym.node.func, ast.Attribute) and dotted(
                        e.sym.node.func.value) in (
                            'self._processors', 'self._sorted_processors') \
                    and e.sym.node.func.attr in ('pop', 'remove', 'clear',
                                                 '__delitem__'):
                wr = e
            if wr is not None and first is not None and late is None:
                late = wr
    rep.floor('C07.writers', 'on_remove deliveries in remove_processor',
              n_del, 1)
    rep.check(late is None, 'C07.writers', site,
              late.node if late is not None else 'del self._processors[T]',
              'the type table and the execution list have both dropped the '
              'processor before its on_remove is delivered',
              'a structure is updated after on_remove was delivered: a '
              'callback that adds a processor of that type again has it '
              'wiped from the table while it stays in the execution list '
              '(or, raising, leaves the removed processor registered in one '
              'structure only) - processors / get_processor and process() '
              'disagree', line=getattr(getattr(late, 'node', None), 'lineno',
                                       f.node.lineno))


def run(program, rep, tier):
    del SEARCH_FUNCS[:]
    check_protocol(program, rep)
    check_add_processor(program, rep)
    check_remove_processor(program, rep)
    check_bisect(program, rep)
    check_writers(program, rep)
    check_frame(program, rep)
