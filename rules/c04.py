"""C04 - disabled dispatchers defer events and release them once, in order."""
import ast

from dlint.model import AnalysisError, dotted, norm
from rules import evrules, lifecycle
from rules.evrules import EVENTS, QUEUE, FLAG

EXPLANATION = (
    'Static typestate rules over EventDispatcher.dispatch and the '
    'dispatch_enabled setter, walked path by path (PathEval, loops 0/1/2) with '
    'one exception edge per delivery. gate: every path of dispatch() that '
    'delivers has tested the enabled flag true; the disabled path appends '
    '(event_name, args, kwargs) - all three - to the queue and delivers '
    'nothing; unknown events return before either. release: in the setter '
    'every delivery is preceded, in its own loop iteration, by the removal of '
    'exactly that element from the FRONT of the queue, and is delivered from '
    'the removed element (so at every exception edge the delivered event has '
    'left the queue and the undelivered ones are still queued, in order); no '
    'wipe or swap-out of the queue; every delivery is preceded by a test of '
    'the enabled flag that is fresh with respect to the previous delivery (a '
    'callback that disables again stops the release, so the drain cannot '
    're-queue what it drains - termination); enabling never returns before '
    'the release loop. direct: every callback that World invokes directly is '
    'under a fresh enabled test (from the C02 lifecycle analysis).')
RULE = 'one obligation per (rule, function, statement)'
NOT_DECIDED = ['per-handler atomicity of one event whose callback raises '
               'midway through its listeners']
ASSUMPTIONS = ['list.pop(0) / deque.popleft() remove and return the front '
               'element']


def check_gate(program, rep):
    f = program.method('EventDispatcher', 'dispatch', inherited=False)
    site = f.where
    ev = f.params()[1]
    a = f.node.args
    va = a.vararg.arg if a.vararg else None
    kw = a.kwarg.arg if a.kwarg else None
    exits, w = evrules.walk_method(program, f)
    rep.count('paths', len(exits))
    bad_gate = bad_queue = bad_unknown = bad_lock = None
    n_del = n_q = 0
    for ex in exits:
        tr = ex.state.trace
        conds = {}
        flag_at = {}
        delivered = []
        queued = []
        locks = evrules.HeldLocks(program)
        for i, e in enumerate(tr):
            locks.feed(e)
            if e.kind == 'cond':
                conds[e.sym.text] = e.extra
            if e.kind == 'call':
                if evrules.is_delivery(e) == 'method' and locks.held():
                    bad_lock = (e, locks.held()[0])
                if evrules.is_delivery(e) == 'method':
                    delivered.append((e, conds.get(FLAG)))
                cn = e.sym.node
                if isinstance(cn, ast.Call) and isinstance(
                        cn.func, ast.Attribute) and norm(cn.func.value) \
                        == QUEUE and cn.func.attr in ('append', 'appendleft',
                                                      'insert', 'extend'):
                    queued.append((e, conds.get(FLAG)))
        for e, fl in delivered:
            n_del += 1
            if fl is not True:
                bad_gate = e
        for e, fl in queued:
            n_q += 1
            cn = e.sym.node
            want = f'({ev}, {va}, {kw})'
            item_ok = bool(cn.args) and norm(cn.args[0]) == want
            if cn.args and isinstance(cn.args[0], ast.Call) and not \
                    cn.args[0].keywords and [norm(x)
                                             for x in cn.args[0].args] == [
                        ev, va, kw]:
                # a tuple-like record (NamedTuple) built from the same three
                rc = program.lookup_class(f.module, dotted(cn.args[0].func)
                                          or '')
                if rc is not None and any('NamedTuple' in b or 'tuple' in b
                                          for b in rc.ext_bases):
                    item_ok = True
            if cn.func.attr != 'append' or not item_ok or fl is not False \
                    or delivered:
                bad_queue = e
        if conds.get(f'{ev} in {EVENTS}') is False and (delivered or queued):
            bad_unknown = (delivered or queued)[0][0]
        if conds.get(FLAG) is False and not queued and conds.get(
                f'{ev} in {EVENTS}') is not False:
            bad_queue = bad_queue or tr[-1]
    rep.floor('C04.gate', 'delivery calls in dispatch()', n_del, 1)
    rep.floor('C04.gate', 'queue appends in dispatch()', n_q, 1)
    rep.check(bad_gate is None, 'C04.gate', site,
              bad_gate.node if bad_gate else f'if not {FLAG}',
              'every delivering path has tested the enabled flag true',
              'a path of dispatch() delivers without having found the '
              'dispatcher enabled: callbacks run while dispatching is '
              'disabled', line=getattr(getattr(bad_gate, 'node', None),
                                       'lineno', f.node.lineno))
    rep.check(bad_queue is None, 'C04.gate', site,
              bad_queue.node if bad_queue is not None
              else f'{QUEUE}.append(({ev}, {va}, {kw}))',
              'the disabled path queues (name, args, kwargs) at the back and '
              'delivers nothing',
              'the disabled path does not append exactly (event_name, args, '
              'kwargs) to the back of the queue (an argument is lost, the '
              'order is broken, or the event is dropped)',
              line=getattr(getattr(bad_queue, 'node', None), 'lineno',
                           f.node.lineno))
    if bad_lock is not None:
        rep.bad('C04.gate', site, bad_lock[0].node,
                f'dispatch() delivers while holding {bad_lock[1]}, a lock that '
                'is not reentrant: a callback that dispatches (or toggles '
                'dispatch_enabled) on the same dispatcher blocks forever',
                line=getattr(bad_lock[0].node, 'lineno', f.node.lineno))
    rep.check(bad_unknown is None, 'C04.gate', site,
              bad_unknown.node if bad_unknown else f'{ev} not in {EVENTS}',
              'events nobody listens to are neither queued nor delivered',
              'an event without listeners is queued or delivered',
              line=f.node.lineno)


def _front_pop(cn):
    """Is this canonical call the removal of the queue's front element?"""
    if not (isinstance(cn, ast.Call) and isinstance(cn.func, ast.Attribute)
            and norm(cn.func.value) == QUEUE):
        return None
    if cn.func.attr == 'popleft' and not cn.args:
        return True
    if cn.func.attr == 'pop':
        if len(cn.args) == 1 and isinstance(cn.args[0], ast.Constant) \
                and cn.args[0].value == 0:
            return True
        return False        # pop() / pop(-1) / pop(i): not the front
    return None


def check_release(program, rep):
    try:
        f = program.method('EventDispatcher', 'dispatch_enabled.setter',
                           inherited=False)
    except AnalysisError:
        rep.inconclusive('C04.release', 'desper/events.py:EventDispatcher',
                         'dispatch_enabled setter', 'setter not found')
        return
    site = f.where
    val = f.params()[1]
    # --- release by cursor: `while i < len(q) and enabled: ev = q[i]; i += 1;
    # dispatch(*ev)` with the delivered prefix deleted afterwards.  The release
    # is re-entrant (a callback may disable and enable again, which starts a
    # nested release over the SAME list and compacts it), so a cursor that is
    # local to one activation of the setter is wrong whatever else the loop
    # does; a cursor kept in the dispatcher is a shape this rule does not
    # carry an argument for (analysis error, no verdict).
    aliases = {QUEUE} | {norm(t) for n in ast.walk(f.node)
                         if isinstance(n, ast.Assign)
                         and norm(n.value) == QUEUE for t in n.targets}
    for wl in [n for n in ast.walk(f.node) if isinstance(n, ast.While)]:
        delivers = any(isinstance(c, ast.Call)
                       and dotted(c.func) == 'self.dispatch'
                       for c in ast.walk(wl))
        pops = any(_front_pop(c) is not None or (
            isinstance(c, ast.Call) and isinstance(c.func, ast.Attribute)
            and c.func.attr in ('pop', 'popleft')
            and norm(c.func.value) in aliases) for c in ast.walk(wl))
        reads = [x for x in ast.walk(wl) if isinstance(x, ast.Subscript)
                 and isinstance(x.ctx, ast.Load) and norm(x.value) in aliases
                 and not isinstance(x.slice, (ast.Constant, ast.Slice))]
        if not (delivers and reads and not pops):
            continue
        idx = reads[0].slice
        if isinstance(idx, ast.Name):
            rep.bad('C04.release', site, reads[0],
                    f'the release walks the queue with the cursor `{idx.id}`, '
                    'a local of this activation of the setter, while the '
                    'release is re-entrant: a callback that disables and '
                    'enables again (or enables during the release) starts a '
                    'nested release over the same list - it begins at its own '
                    'cursor 0 (events already delivered, or their cleared '
                    'slots, are delivered again / TypeError) and the outer '
                    'cursor goes stale when the nested one compacts the list',
                    line=reads[0].lineno)
        else:
            rep.inconclusive('C04.release', site, norm(reads[0]),
                             'the release walks the queue by a cursor kept '
                             f'in the dispatcher ({norm(idx)}) instead of '
                             'removing the front element: shape not decided '
                             'by this rule')
        return
    exits, w = evrules.walk_method(program, f, exc=True)
    rep.count('paths', len(exits))
    n_del = 0
    n_exc = 0
    bad = {}
    loop_leaves = set()
    disp_cls = evrules.dispatcher_class(program)
    for m in list(disp_cls.methods.values()) + [f]:
        # the release loop may live in a private helper of the class
        for lp in ast.walk(m.node):
            if isinstance(lp, ast.While):
                for x in ast.walk(lp.test):
                    loop_leaves.add(id(x))

    def flag(rule, node, why):
        bad.setdefault(rule, (node, why))

    for ex in exits:
        tr = ex.state.trace
        enabled_known = False       # flag known true since the last call-out
        stored_val = False
        popped = None               # text of the front element just removed
        deliveries = 0
        loop_tests = 0
        val_truth = None
        locks = evrules.HeldLocks(program)
        queue_empty = False     # established on this path, nothing ran since
        for i, e in enumerate(tr):
            locks.feed(e)
            if e.kind == 'call' and (e.func is None and not (
                    dotted(e.sym.node.func) if isinstance(
                        e.sym.node, ast.Call) else '') in (
                            'bool', 'len', 'isinstance')):
                queue_empty = False
            if e.kind == 'call' and evrules.is_delivery(e) and locks.held():
                flag('termination', e.node,
                     f'callbacks are delivered while {locks.held()[0]} - a '
                     'lock that is not reentrant - is held by the enabling '
                     'assignment: a callback that assigns dispatch_enabled '
                     'again (the nested disable) blocks on it forever, '
                     'enabling never terminates')
            if e.kind == 'store' and e.target is not None \
                    and e.target.text == FLAG:
                stored_val = (e.sym.text == val)
                enabled_known = False
            if e.kind == 'cond':
                t = e.sym.text
                if (t in (QUEUE, f'bool({QUEUE})', f'len({QUEUE})',
                          f'len({QUEUE}) > 0', f'len({QUEUE}) != 0')
                        and e.extra is False) or (
                            t == f'len({QUEUE}) == 0' and e.extra is True):
                    queue_empty = True
                if t == FLAG:
                    enabled_known = bool(e.extra)
                if t == val:
                    val_truth = e.extra
                    if e.extra and stored_val:
                        enabled_known = True
                if id(e.node) in loop_leaves:
                    loop_tests += 1
            if e.kind == 'for' and QUEUE in e.sym.text:
                flag('release', e.node.iter,
                     'the release iterates the queue (or a copy / swapped-out '
                     'list) instead of removing the front element before each '
                     'delivery: after a raising callback the delivered events '
                     'are still queued (delivered again on the next enable) '
                     'or the undelivered ones are lost; a callback that '
                     'disables again makes dispatch() append to the list '
                     'being iterated')
            if e.kind == 'call':
                cn = e.sym.node
                fp = _front_pop(cn)
                if fp is True:
                    popped = norm(cn)
                elif fp is False:
                    flag('release', e.node,
                         'an element is removed from the queue, but not from '
                         'its front: postponed events are released out of '
                         'dispatch order')
                if isinstance(cn, ast.Call) and isinstance(
                        cn.func, ast.Attribute) and norm(cn.func.value) \
                        == QUEUE and cn.func.attr == 'clear':
                    if deliveries:
                        flag('release', e.node,
                             'the queue is wiped after deliveries: events '
                             'queued by callbacks during the release are '
                             'lost, and an exception before this point leaves '
                             'delivered events queued')
                kind = evrules.is_delivery(e)
                if kind is not None:
                    deliveries += 1
                    n_del += 1
                    args = [norm(a) for a in cn.args]
                    kws = [(k.arg, norm(k.value)) for k in cn.keywords]
                    if kind == 'dispatch':
                        want = ([f'{popped}[0]', f'*{popped}[1]'],
                                [(None, f'{popped}[2]')])
                        if popped is None or (args, kws) != want:
                            flag('release', e.node,
                                 'the delivery is not made from the element '
                                 'just removed from the front of the queue '
                                 f'(delivers {norm(cn)}): a raising callback '
                                 'leaves the delivered event queued, or '
                                 'arguments are lost')
                    else:
                        if popped is None:
                            flag('release', e.node, 'delivery without '
                                 'removing the event from the queue first')
                    if not enabled_known:
                        flag('termination', e.node,
                             'the delivery is not preceded by a test of the '
                             'enabled flag that is fresh with respect to the '
                             'previous delivery: when a callback disables '
                             'dispatching again, the release goes on - '
                             'dispatch() re-queues each event it is given '
                             '(events are reordered, or the loop never '
                             'ends)')
                    popped_used = popped
                    popped = None
                    enabled_known = False
            if e.kind == 'store' and e.target is not None and \
                    e.target.text == QUEUE and deliveries == 0 and any(
                        x.kind == 'call' and evrules.is_delivery(x)
                        for x in tr[i:]):
                flag('release', e.node,
                     'the whole queue is swapped out before the deliveries: '
                     'an exception drops every event not yet delivered, and '
                     'events re-queued by a nested disable are released '
                     'after newer ones')
            if e.kind == 'exc-edge':
                n_exc += 1
        if ex.kind in ('fall', 'return') and val_truth is not False \
                and loop_tests == 0 and not queue_empty:
            flag('drain', ex.node or f.node,
                 'a path on which the dispatcher is being enabled returns '
                 'without reaching the release loop: events postponed earlier '
                 '(e.g. left pending by a callback that raised) are not '
                 'delivered by this enabling assignment')
    rep.floor('C04.release', 'deliveries in the enabling setter', n_del, 1)
    rep.floor('C04.release', 'exception edges out of deliveries', n_exc, 1)
    for rule, okmsg in (
            ('release', 'each delivery is made from the element just removed '
                        'from the front of the queue; nothing else is removed'),
            ('termination', 'each delivery follows a fresh test of the '
                            'enabled flag'),
            ('drain', 'enabling always reaches the release loop')):
        if rule in bad:
            node, why = bad[rule]
            rep.bad(f'C04.{rule}', site, node, why,
                    line=getattr(node, 'lineno', f.node.lineno))
        else:
            rep.ok(f'C04.{rule}', site, f'{f.qualname}: release loop', okmsg,
                   line=f.node.lineno)
    # an exception raised by a callback leaves the setter: the delivery is
    # not inside a `try` whose handlers swallow (or mistake for "queue empty")
    # what callbacks raise
    for g in [f] + [e.func for ex in exits for e in ex.state.trace
                    if e.kind == 'enter' and e.func is not None]:
        for t in ast.walk(g.node):
            if not isinstance(t, ast.Try) or not t.handlers:
                continue
            delivering = [c for s in t.body for c in ast.walk(s)
                          if isinstance(c, ast.Call) and (
                              dotted(c.func) == 'self.dispatch'
                              or isinstance(c.func, (ast.Call,
                                                     ast.Subscript)))]
            swallowing = [h for h in t.handlers if not (
                h.body and isinstance(h.body[-1], ast.Raise)
                and h.body[-1].exc is None)]
            if delivering and swallowing:
                rep.bad('C04.release', g.where, delivering[0],
                        'the delivery sits inside a `try` whose handler ('
                        f'except {norm(swallowing[0].type) if swallowing[0].type is not None else ""}) '
                        'does not re-raise: an exception of that type raised '
                        'by a CALLBACK is taken for the condition the handler '
                        'was written for (e.g. "queue empty"), the enabling '
                        'assignment returns normally and the remaining '
                        'events stay queued', line=delivering[0].lineno)
                break
    # other writers of the queue in the package
    disp = evrules.dispatcher_class(program)
    for c in [disp] + program.subclasses(disp):
        for g in c.methods.values():
            for n in ast.walk(g.node):
                if not (isinstance(n, (ast.Assign, ast.AnnAssign))
                        and isinstance(n.value, ast.Call)):
                    continue
                ts = n.targets if isinstance(n, ast.Assign) else [n.target]
                if not any(norm(t) == QUEUE for t in ts):
                    continue
                v = n.value
                if (dotted(v.func) or '').split('.')[-1] != 'deque':
                    continue
                ml = [k.value for k in v.keywords if k.arg == 'maxlen'] + \
                    list(v.args[1:2])
                if ml and not (isinstance(ml[0], ast.Constant)
                               and ml[0].value is None):
                    rep.bad('C04.release', g.where, v,
                            'the queue of postponed events is a bounded deque '
                            f'(maxlen={norm(ml[0])}): once it is full every '
                            'append silently discards the oldest pending '
                            'event, which is then never delivered',
                            line=v.lineno)
    inlined = {e.func for ex in exits for e in ex.state.trace
               if e.kind == 'enter' and e.func is not None}
    for g in program.all_functions():
        if g is f or g in inlined:
            continue
        for n in ast.walk(g.node):
            if isinstance(n, ast.Call) and isinstance(n.func, ast.Attribute) \
                    and (dotted(n.func.value) or '').endswith(
                        '._event_queue') and n.func.attr in (
                            'pop', 'popleft', 'remove', 'insert', 'sort',
                            'reverse', 'appendleft'):
                rep.bad('C04.release', g.where, n,
                        'the queue of postponed events is reordered or '
                        'consumed outside the enabling setter',
                        line=n.lineno)


def check_direct(program, rep):
    out = lifecycle.analyse_world(program, rep, 'C04', None, 'C04')
    n = 0
    for (rule, fn, text, line, kind, table), r in sorted(
            out['results'].items(), key=lambda kv: (kv[0][1], kv[0][3] or 0)):
        if rule != 'protocol':
            continue
        n += 1
        stale = [b for b in r['bad'] if 'invoked directly' in b['why']]
        site = f'desper/logic/world.py:{fn}'
        if stale:
            rep.bad('C04.direct', site, text, stale[0]['why'],
                    detail={'path': stale[0]['path']}, line=line)
        else:
            rep.ok('C04.direct', site, text, 'every direct callback at this '
                   'site is under a fresh enabled test', line=line)
    rep.floor('C04.direct', 'lifecycle sites in World', n, 4)


def run(program, rep, tier):
    check_gate(program, rep)
    check_release(program, rep)
    check_direct(program, rep)
    from rules import c13
    c13.instance_state(program, rep, 'C04.instance-state')
    # the anchored release site of the loop: SimpleLoop.switch makes the
    # enabling assignment on the entered world on every path (C13's rule)
    got = rep.borrow(c13.plumbing, program, rep,
                     keep=lambda o: o.site.endswith('SimpleLoop.switch'),
                     rename=lambda r: 'C04.loop-release',
                     why='the loop never makes the enabling assignment on the '
                     'world it enters: its deferred events are never released')
    rep.floor('C04.loop-release', 'SimpleLoop.switch release site', len(got),
              1)
    # "delivered exactly once to the handlers registered at delivery time":
    # the delivery loop skips handlers that are gone, not handlers that are
    # falsy (the world itself - the listener of the relay - may define __len__)
    rep.borrow(evrules.delivery_sites, program, rep, 'C10', {'deref'},
               keep=lambda o: o.rule == 'C10.deref',
               rename=lambda r: 'C04.gate',
               why='a released event is popped from the queue but never '
               'reaches a registered handler')
    # ... and the world it enables is the one the loop goes on processing
    # (C13.current: the adopted world is taken from the handle after the
    # clears of the switch)

    def _adoption(program, rep):
        f_, spaths, _bad = c13.analyse_switch_fn(program, rep)
        c13.same_instance(program, rep, f_, spaths)
    rep.borrow(_adoption, program, rep,
               keep=lambda o: o.rule == 'C13.current',
               rename=lambda r: 'C04.loop-release',
               why='the world the loop keeps processing is not the one it '
               'enabled: the events deferred on it are never released')
