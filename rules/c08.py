"""C08 - coroutines advance one step per frame and wake exactly on time."""
import ast

from dlint.model import AnalysisError, dotted, norm
from dlint.walk import Domain, Walker, fold_truth
from rules import c09

EXPLANATION = (
    'Static rules over CoroutineProcessor (timer discipline and one-step '
    'scheduling). writes: every write of _timer in the class is ADV '
    '(+= the unmodified dt parameter) or RESET (= 0); on every path of '
    'process() (PathEval) exactly one ADV precedes the first wake comparison '
    'and none follows it; every RESET is preceded on its path by an emptiness '
    'test of the wait heap with no push in between. deadline: every push onto '
    'the heap stores <value yielded by next()> + self._timer; the wake test '
    'is self._timer >= head.wait_time (non-strict) on the heap head; '
    'removal is heapq.heappop; the heap is mutated only through heapq (or a '
    'filter followed by heapify); _WaitingGenerator orders by wait_time only. '
    'sleep: the test that sends a coroutine to the heap equals "wait is not '
    'None and wait > 0" on the abstract values None / negative / zero / '
    'positive. step: per iteration of the active loop at most one next(), '
    'exactly one of rotate / popleft; woken and started coroutines are '
    'appended at the right; one sentinel; rotate(-1) before the loop; the '
    'loop tests the sentinel. queue-once: the C09 typestate invariant (a '
    'generator is queued exactly once) for start/kill/process. The arithmetic '
    'argument from these premises to "wakes in the first frame in which the '
    'accumulated dt reaches n" is written in DESIGN.md appendix C.')
RULE = 'one obligation per (rule, function, statement)'
NOT_DECIDED = ['floating point rounding of the accumulated time (excluded by '
               'the quantifier)', 'generators raising other exceptions']
ASSUMPTIONS = ['heapq keeps the minimum at index 0 when all mutations go '
               'through it']

T, WQ, AQ = 'self._timer', 'self._wait_queue', 'self._active_queue'
G_ = 'self._generators'


class _D(Domain):
    loop_bound = 2

    def resolve_call(self, st, call, walker):
        # private helpers extracted from the analysed code are followed
        return walker.resolve_helper(st, call)

    def decide(self, st, sym, node):
        # the generator of a record popped from the wait heap is a generator
        # object: never None
        t = sym.text
        if t.endswith('.generator is None') and 'heappop' in t:
            return False
        return fold_truth(sym.node)


def _abs_eval(n, v):
    """Evaluate a guard over the abstract yielded value v in
    {'none','neg','zero','pos'}; returns bool or raises."""
    if isinstance(n, ast.BoolOp):
        if isinstance(n.op, ast.And):
            return all(_abs_eval(x, v) for x in n.values)
        return any(_abs_eval(x, v) for x in n.values)
    if isinstance(n, ast.UnaryOp) and isinstance(n.op, ast.Not):
        return not _abs_eval(n.operand, v)
    if isinstance(n, ast.Name):
        return v in ('neg', 'pos')
    if isinstance(n, ast.Compare) and len(n.ops) == 1 and isinstance(
            n.left, ast.Name):
        op, r = n.ops[0], n.comparators[0]
        if isinstance(r, ast.Constant) and r.value is None:
            if isinstance(op, ast.Is):
                return v == 'none'
            if isinstance(op, ast.IsNot):
                return v != 'none'
        if isinstance(r, ast.Constant) and isinstance(r.value, (int, float)) \
                and r.value == 0:
            if v == 'none':
                raise TypeError('None compared with a number')
            sign = {'neg': -1, 'zero': 0, 'pos': 1}[v]
            return {ast.Gt: sign > 0, ast.GtE: sign >= 0, ast.Lt: sign < 0,
                    ast.LtE: sign <= 0, ast.Eq: sign == 0,
                    ast.NotEq: sign != 0}[type(op)]
    raise AnalysisError(f'guard {norm(n)} not understood')


def _linear(n, t_text, h_text, sign):
    """(coef of timer, coef of heap head, constant) of a +/- expression over
    those two atoms and numeric constants, times `sign`; None otherwise."""
    tx = norm(n)
    if tx == t_text:
        return (sign, 0, 0)
    if tx == h_text:
        return (0, sign, 0)
    if isinstance(n, ast.Constant) and isinstance(n.value, (int, float)) \
            and not isinstance(n.value, bool):
        return (0, 0, sign * n.value)
    if isinstance(n, ast.UnaryOp) and isinstance(n.op, (ast.USub, ast.UAdd)):
        return _linear(n.operand, t_text, h_text,
                       -sign if isinstance(n.op, ast.USub) else sign)
    if isinstance(n, ast.BinOp) and isinstance(n.op, (ast.Add, ast.Sub)):
        a = _linear(n.left, t_text, h_text, sign)
        b = _linear(n.right, t_text, h_text,
                    sign if isinstance(n.op, ast.Add) else -sign)
        if a is None or b is None:
            return None
        return tuple(x + y for x, y in zip(a, b))
    return None


def _sentinel_free(program):
    init = program.method('CoroutineProcessor', '__init__')
    aq = [n for n in ast.walk(init.node) if isinstance(n, ast.Assign)
          and any(norm(t) == AQ for t in n.targets)]
    return len(aq) == 1 and norm(aq[0].value) in (
        'deque()', 'collections.deque()')


def _order_field(program):
    """(ordering field, generator field position info) of the wait record."""
    wg = program.cls('_WaitingGenerator')
    fields = []
    for s_ in wg.node.body:
        if isinstance(s_, ast.AnnAssign) and isinstance(s_.target, ast.Name):
            cmp_ = True
            if isinstance(s_.value, ast.Call) and dotted(s_.value.func) == \
                    'field':
                for k in s_.value.keywords:
                    if k.arg == 'compare' and isinstance(
                            k.value, ast.Constant):
                        cmp_ = bool(k.value.value)
            fields.append((s_.target.id, cmp_))
    compared = [n for n, c in fields if c]
    return wg, fields, (compared[0] if len(compared) == 1 else None)


def run(program, rep, tier, sleep_only=False):
    cp = program.cls('CoroutineProcessor')
    f = program.method('CoroutineProcessor', 'process')
    site = f.where
    dtp = f.params()[1]
    wg, wfields, OF = _order_field(program)
    OFN = OF or 'wait_time'
    # ---- the wake scan is not put behind a quantity the rules do not model
    # (e.g. a cached "earliest deadline": whether every push keeps it a lower
    # bound of the heap is an invariant of its own - no verdict)
    known_attrs = {'_timer', '_wait_queue', '_active_queue', '_generators',
                   '_kill_queue', '_promises'}
    def _guards(node, path, out):
        for ch in ast.iter_child_nodes(node):
            if isinstance(ch, ast.While) and f'.{OFN}' in norm(ch.test) \
                    and WQ in norm(ch.test):
                out.append(list(path))
            _guards(ch, path + [ch.test] if isinstance(ch, ast.If)
                    and ch is not node else path, out)
    found = []
    from .util import methods_of as _mo, called_only_from as _cof
    todo_ = [f] + [m for m in cp.methods.values()
                   if m.name in _cof(_mo(program, cp), {'process'})[0]]
    for m in todo_:
        _guards(m.node, [], found)
    for path in found:
        for tst in path:
            other = sorted({a.attr for a in ast.walk(tst) if isinstance(
                a, ast.Attribute) and isinstance(a.value, ast.Name)
                and a.value.id == 'self' and a.attr not in known_attrs})
            if other and not sleep_only:
                rep.inconclusive(
                    'C08.deadline', site, tst,
                    f'the wake scan runs only when `{norm(tst)}` holds, a '
                    f'test that reads self.{other[0]}: whether that quantity '
                    'is kept a lower bound of every deadline in the heap (at '
                    'each push, after each scan) is not modelled',
                    line=tst.lineno)
    # a wake loop whose own test compares the timer with such a quantity
    cached_wake = False
    for m in todo_:
        for wl in [n for n in ast.walk(m.node) if isinstance(n, ast.While)]:
            if 'self._timer' not in norm(wl.test):
                continue
            other = sorted({a.attr for a in ast.walk(wl.test) if isinstance(
                a, ast.Attribute) and isinstance(a.value, ast.Name)
                and a.value.id == 'self' and a.attr not in known_attrs})
            if other:
                cached_wake = True
            if other and not sleep_only:
                rep.inconclusive(
                    'C08.deadline', site, wl.test,
                    f'the wake loop runs while `{norm(wl.test)}` holds, a '
                    f'test that reads self.{other[0]}: whether that quantity '
                    'equals the earliest deadline of the heap at every read '
                    '(after each push, pop and rebuild) is not modelled',
                    line=wl.test.lineno)
    # ---- the head of the wait heap is its minimum only while the list is
    # heap-ordered: between a rebuild of the list (assignment of a filtered
    # copy) and heapify() nothing reads element [0], directly or through a
    # helper of the processor
    def _reads_head(stmt, depth=1):
        for x in ast.walk(stmt):
            if isinstance(x, ast.Subscript) and norm(x.value) == WQ \
                    and isinstance(x.slice, ast.Constant) \
                    and x.slice.value == 0 and isinstance(x.ctx, ast.Load):
                return True
            if depth and isinstance(x, ast.Call) and isinstance(
                    x.func, ast.Attribute) and norm(x.func.value) == 'self' \
                    and x.func.attr in cp.methods and any(
                        _reads_head(s2, depth - 1)
                        for s2 in cp.methods[x.func.attr].node.body):
                return True
        return False
    for m in cp.methods.values():
        for blk in [n for n in ast.walk(m.node)
                    if isinstance(getattr(n, 'body', None), list)]:
            for fld in ('body', 'orelse', 'finalbody'):
                body = getattr(blk, fld, None)
                if not isinstance(body, list):
                    continue
                dirty = None
                for st in body:
                    if not isinstance(st, ast.stmt):
                        break
                    if isinstance(st, ast.Expr) and isinstance(
                            st.value, ast.Call) and (dotted(st.value.func)
                                                     or '').endswith(
                            'heapify') and st.value.args and norm(
                                st.value.args[0]) == WQ:
                        dirty = None
                        continue
                    if dirty is not None and _reads_head(st) \
                            and not sleep_only:
                        rep.bad('C08.deadline', m.where, st,
                                'the head of the wait list is read as the '
                                'earliest deadline between a rebuild of the '
                                'list and heapify(): element [0] of the '
                                'filtered copy is not its minimum when the '
                                'removed entry was the head - a coroutine '
                                'that is due earlier wakes late',
                                line=st.lineno)
                        dirty = None
                    if isinstance(st, ast.Assign) and any(
                            norm(t) in (WQ, f'{WQ}[:]') for t in st.targets) \
                            and isinstance(st.value, (ast.ListComp, ast.Call)):
                        dirty = st
    # ---- writes of the timer, whole class ----------------------------------
    n_w = 0
    from .util import methods_of, called_only_from
    frame_only, _ = called_only_from(methods_of(program, cp), {'process'})

    def _is_frame_delta(m, value):
        """`value` is the frame's dt: the parameter of process() itself, or
        the parameter of a private helper (run only as part of process) that
        every call site binds to an unmodified frame delta."""
        if m is f:
            return norm(value) == dtp
        if m.name not in frame_only or not isinstance(value, ast.Name) \
                or value.id not in m.params():
            return False
        pos = m.params().index(value.id) - 1
        sites = []
        for caller in cp.methods.values():
            for c in ast.walk(caller.node):
                if isinstance(c, ast.Call) and norm(c.func) == \
                        f'self.{m.name}':
                    arg = c.args[pos] if pos < len(c.args) else next(
                        (k.value for k in c.keywords if k.arg == value.id),
                        None)
                    sites.append(arg is not None
                                 and _is_frame_delta(caller, arg))
        return bool(sites) and all(sites)
    for m in cp.methods.values():
        for n in ast.walk(m.node):
            tgt = None
            if isinstance(n, ast.AugAssign) and norm(n.target) == T:
                n_w += 1
                ok = isinstance(n.op, ast.Add) and _is_frame_delta(
                    m, n.value)
                rep.check(ok, 'C08.writes', m.where, n,
                          'the timer advances by the unmodified dt',
                          'the timer is changed by something other than '
                          '"+= dt" (the frame\'s own delta): waiters wake '
                          'early or late', line=n.lineno)
            elif isinstance(n, (ast.Assign, ast.AnnAssign)):
                tg = n.targets if isinstance(n, ast.Assign) else [n.target]
                if any(norm(t) == T for t in tg):
                    n_w += 1
                    ok = isinstance(n.value, ast.Constant) and \
                        n.value.value == 0
                    rep.check(ok, 'C08.writes', m.where, n,
                              'the timer is reset to 0',
                              'the timer is assigned something other than 0',
                              line=n.lineno)
    rep.floor('C08.writes', 'writes of _timer', n_w, 3)
    # (a default filled in under `if dt is None:` leaves every given dt alone)
    defaulting = {id(s_) for i_ in ast.walk(f.node) if isinstance(i_, ast.If)
                  and norm(i_.test) == f'{dtp} is None' and not i_.orelse
                  for s_ in i_.body}
    rebound = any(isinstance(n, (ast.Assign, ast.AugAssign)) and any(
        norm(t) == dtp for t in (n.targets if isinstance(n, ast.Assign)
                                 else [n.target])) and id(n) not in defaulting
        for n in ast.walk(f.node))
    rep.check(not rebound, 'C08.writes', site, f'{dtp} parameter',
              'dt is not modified inside process()',
              'process() rebinds its dt parameter', line=f.node.lineno)
    # ---- paths of process ----------------------------------------------------
    c09._mark_loop_tests(f)
    w = Walker(program, _D(program))
    exits = w.run(f, cp)
    rep.count('paths', len(exits))
    bad = {}
    cnt = {'adv': 0, 'reset': 0, 'push': 0, 'wake': 0, 'iter': 0}
    loops = [n for n in ast.walk(f.node) if isinstance(n, ast.While)]
    active_loop = None
    for lp in loops:
        if AQ in norm(lp.test):
            active_loop = lp

    def flag(rule, node, why):
        bad.setdefault(rule, (node, why))

    def first_leaf(t):
        while isinstance(t, (ast.BoolOp, ast.UnaryOp)):
            t = t.values[0] if isinstance(t, ast.BoolOp) else t.operand
        return t

    for ex in exits:
        tr = ex.state.trace
        # a frame that returns without reaching the active loop is only
        # legitimate when nothing is registered (dt = 0 frames - the first
        # frame of SimpleLoop - and frames without waiters still step)
        if ex.kind in ('return', 'fall') and not any(
                e.kind == 'cond' and e.sym.text == f'{AQ}[0] is None'
                for e in tr):
            empty = any(e.kind == 'cond' and (
                (e.sym.text in (G_, f'len({G_})', f'len({G_}) > 0',
                                f'len({AQ}) > 1') and e.extra is False)
                or (e.sym.text in (f'len({G_}) == 0', f'len({AQ}) <= 1',
                                   f'len({AQ}) == 1') and e.extra is True))
                for e in tr)
            if not empty:
                flag('step', ex.node if ex.node is not None else f.node,
                     'process() returns without stepping the active '
                     'coroutines on a path that has not established that '
                     'none is registered (e.g. when dt is 0): running '
                     'coroutines are not advanced in that frame')
        advs = 0
        open_pop = None
        wake_seen = False
        empty_known = False
        rot_before = False
        in_active = False
        it_next = it_move = 0
        t_stores = 0
        def _stale(e):
            vs = [v for c_, v in (e.sym.stamp if e.sym is not None else ())
                  if c_ == T]
            return bool(vs) and min(vs) < t_stores
        for i, e in enumerate(tr):
            if e.kind == 'store' and e.target is not None \
                    and e.target.text == T:
                t_stores += 1
                aug = (e.extra or {}).get('aug')
                if aug is not None:
                    advs += 1
                    cnt['adv'] += 1
                    if wake_seen:
                        flag('writes', e.node, 'the timer advances after the '
                             'wake comparison of the same frame')
                    if advs > 1:
                        flag('writes', e.node, 'the timer advances twice in '
                             'one frame: waiters wake early')
                else:
                    cnt['reset'] += 1
                    if not empty_known:
                        flag('writes', e.node,
                             'the timer is reset on a path on which the wait '
                             'heap is not known to be empty: outstanding '
                             'deadlines were computed on the old time base '
                             'and now wake late')
            if e.kind == 'cond' and e.extra is False and open_pop is not None \
                    and (e.sym.text in (WQ, f'len({WQ})', f'len({WQ}) > 0')
                         or (f'.{OFN}' in e.sym.text and T in e.sym.text
                             and WQ in e.sym.text)):
                open_pop = None     # the scan ended on a head that is not due
            if e.kind == 'cond' and e.extra is True and open_pop is not None \
                    and e.sym.text == f'len({WQ}) == 0':
                open_pop = None
            if e.kind == 'cond':
                t = e.sym.text
                n = e.sym.node
                if t in (f'len({WQ}) == 0',) or t == f'len({WQ}) > 0' \
                        or t in (WQ, f'len({WQ})'):
                    truth = e.extra
                    if t == f'len({WQ}) == 0':
                        empty_known = truth
                    else:
                        empty_known = not truth
                if f'.{OFN}' in t and T in t and WQ in t:
                    cnt['wake'] += 1
                    if not wake_seen and advs != 1:
                        flag('writes', e.node,
                             f'the wake comparison is evaluated after {advs} '
                             'advances of the timer in this frame (expected '
                             'exactly one): waiters wake a frame late or '
                             'early')
                    wake_seen = True
                    if _stale(e):
                        flag('deadline', e.node, 'the wake comparison uses a '
                             'copy of the timer taken before its latest '
                             'update in this frame')
                    ok = False
                    if isinstance(n, ast.Compare) and len(n.ops) == 1:
                        l, r, op = norm(n.left), norm(n.comparators[0]), \
                            n.ops[0]
                        head = f'{WQ}[0].{OFN}'
                        if (l == T and r == head and isinstance(op, ast.GtE)) \
                                or (l == head and r == T and isinstance(
                                    op, ast.LtE)):
                            ok = True
                        else:
                            # the same test with the terms moved across the
                            # comparison: lhs - rhs as a linear form over
                            # (timer, head, 1); float subtraction of two
                            # different numbers is never 0 (gradual
                            # underflow), so `h - t <= 0` is `t >= h`
                            lin = _linear(n.left, T, head, +1)
                            lin2 = _linear(n.comparators[0], T, head, -1)
                            if lin is not None and lin2 is not None:
                                ct, ch, c0 = (a_ + b_ for a_, b_ in
                                              zip(lin, lin2))
                                if (ct, ch, c0) == (1, -1, 0) and isinstance(
                                        op, ast.GtE):
                                    ok = True
                                if (ct, ch, c0) == (-1, 1, 0) and isinstance(
                                        op, ast.LtE):
                                    ok = True
                    if not ok:
                        flag('deadline', e.node,
                             f'the wake test is "{t}", not "self._timer >= '
                             '<heap head>.wait_time": a coroutine whose wait '
                             'has exactly elapsed wakes a frame late, or a '
                             'later deadline is woken first')
                if t == f'{AQ}[0] is None' and isinstance(
                        e.node, ast.Compare) and getattr(
                            e.node, '_is_loop_test', False):
                    if in_active:
                        cnt['iter'] += 1
                        if it_next > 1:
                            flag('step', e.node, 'a coroutine is '
                                 'advanced more than once in one iteration')
                        if it_move != 1:
                            flag('step', e.node,
                                 f'an iteration of the active loop performs '
                                 f'{it_move} of (rotate, popleft): the '
                                 'frame never ends, or a coroutine is skipped')
                    else:
                        if not rot_before:
                            flag('step', e.node, 'the sentinel is '
                                 'not rotated to the back before the loop')
                    in_active = bool(e.extra is False) if t == \
                        f'{AQ}[0] is None' else bool(e.extra)
                    it_next = it_move = 0
            if e.kind == 'call':
                cn = e.sym.node
                if not isinstance(cn, ast.Call):
                    continue
                d = dotted(cn.func) or ''
                if d == 'heapq.heappop' and cn.args and norm(
                        cn.args[0]) == WQ:
                    open_pop = e
                if d in (f'{AQ}.rotate',) and open_pop is not None \
                        and not cached_wake:
                    flag('deadline', open_pop.node,
                         'after this removal from the wait heap the wake '
                         'phase ends without looking at the new head: when '
                         'the removed coroutine is dropped (its kill was '
                         'pending) the coroutines due behind it in the same '
                         'frame stay asleep until the next process()')
                    open_pop = None
                if d == 'heapq.heappush' and cn.args and norm(
                        cn.args[0]) == WQ:
                    cnt['push'] += 1
                    empty_known = False
                    rec = cn.args[1] if len(cn.args) > 1 else None
                    ok = False
                    if isinstance(rec, ast.Call) and dotted(rec.func) == \
                            '_WaitingGenerator':
                        wt = None
                        names = [n for n, _ in wfields]
                        pos = names.index(OFN) if OFN in names else 1
                        if len(rec.args) > pos:
                            wt = rec.args[pos]
                        for k in rec.keywords:
                            if k.arg == OFN:
                                wt = k.value
                        if isinstance(wt, ast.BinOp) and isinstance(
                                wt.op, ast.Add):
                            parts = {norm(wt.left), norm(wt.right)}
                            if T in parts and any(p.startswith(('next(', 'next·'))
                                                  for p in parts):
                                ok = True
                    if ok and _stale(e):
                        ok = None
                        flag('deadline', e.node,
                             'the deadline is computed from a copy of the '
                             'timer taken BEFORE the timer was last written '
                             'in this frame (e.g. before the reset to 0 when '
                             'the last waiter woke): the new wait is measured '
                             'on the old time base and the coroutine wakes '
                             'late by that amount')
                    if ok is False:
                        flag('deadline', e.node,
                             'the deadline pushed onto the heap is not '
                             '<yielded value> + self._timer: a wait that '
                             'begins while the shared timer is non-zero wakes '
                             'early (or never)')
                if d == 'next':
                    it_next += 1
                if d == f'{AQ}.rotate':
                    if not in_active:
                        rot_before = True
                    it_move += 1
                    if not (len(cn.args) == 1 and norm(cn.args[0]) == '-1'):
                        flag('step', e.node, 'the deque is not rotated by -1')
                if d == f'{AQ}.popleft':
                    it_move += 1
                if d in (f'{AQ}.appendleft', f'{AQ}.insert',
                         f'{AQ}.extendleft'):
                    flag('step', e.node, 'a coroutine is inserted at the '
                         'left of the active deque: runnable coroutines lose '
                         'their relative order')
    # the frame's loops end through their tests only: a `break` that is not
    # the sentinel / wake test leaves runnable coroutines unstepped (or due
    # ones asleep) for this frame
    def _loop_breaks(fn_node):
        out = []

        def rec(stmts, guard):
            for s_ in stmts:
                if isinstance(s_, ast.Break):
                    out.append((s_, guard))
                elif isinstance(s_, ast.If):
                    rec(s_.body, norm(s_.test))
                    rec(s_.orelse, 'not ' + norm(s_.test))
                elif isinstance(s_, (ast.For, ast.FunctionDef)):
                    continue
                elif isinstance(s_, ast.While):
                    rec(s_.body, None)
                else:
                    for fld in ('body', 'orelse', 'finalbody'):
                        sub_ = getattr(s_, fld, None)
                        if isinstance(sub_, list) and sub_ and isinstance(
                                sub_[0], ast.stmt):
                            rec(sub_, guard)
                    for h_ in getattr(s_, 'handlers', []) or []:
                        rec(h_.body, guard)
        for wl_ in [x for x in ast.walk(fn_node) if isinstance(x, ast.While)]:
            rec(wl_.body, None)
        return out
    from dlint.normalise import closure_nodes
    for node_ in closure_nodes(program, cp, f):
        for brk, guard in _loop_breaks(node_):
            if guard is None or not (f'{AQ}[0] is None' in guard
                                     or WQ in guard):
                flag('step', brk, 'a loop of the frame is left by `break` '
                     'under a condition other than its own test: the '
                     'coroutines still before the sentinel are not advanced '
                     'in this frame (or due waiters stay asleep)')
    for k, minimum in (('adv', 1), ('reset', 1), ('push', 1), ('wake', 1),
                       ('iter', 1)):
        rep.floor('C08.paths', f'{k} events on the paths of process()',
                  cnt[k], minimum)
    for rule, okmsg in (('writes', 'one advance before the wake comparison, '
                                   'resets only when the heap is empty'),
                        ('deadline', 'deadline = yielded + timer; wake test '
                                     'timer >= head.wait_time'),
                        ('step', 'one next() and one rotate/popleft per '
                                 'iteration; sentinel discipline')):
        if rule == 'step' and _sentinel_free(program):
            # frames delimited by counting instead of by the None sentinel:
            # a different scheme, which the sentinel discipline cannot judge
            rep.inconclusive('C08.step', site, 'process(): active loop',
                             'the active deque is created empty (no None '
                             'sentinel marks the end of a frame): the frame '
                             'is delimited some other way, which the '
                             'sentinel rules do not model')
        elif rule in bad:
            node, why = bad[rule]
            rep.bad(f'C08.{rule}', site, node, why,
                    line=getattr(node, 'lineno', None))
        else:
            rep.ok(f'C08.{rule}', site, 'process(): all paths', okmsg,
                   line=f.node.lineno)
    # ---- heap mutated only through heapq ---------------------------------------
    n_h = 0
    for m in cp.methods.values():
        src = m.node
        stmts = list(ast.walk(src))
        for n in stmts:
            if isinstance(n, ast.Call):
                d = dotted(n.func) or ''
                if d.startswith('heapq.') and n.args and norm(
                        n.args[0]) == WQ:
                    n_h += 1
                    ok = d in ('heapq.heappush', 'heapq.heappop',
                               'heapq.heapify')
                    rep.check(ok, 'C08.deadline', m.where, n,
                              'heap operation', f'{d} on the wait heap',
                              line=n.lineno)
                elif d.startswith(WQ + '.') and d.split('.')[-1] in (
                        'pop', 'append', 'remove', 'insert', 'sort', 'clear',
                        'extend', 'reverse'):
                    n_h += 1
                    rep.bad('C08.deadline', m.where, n,
                            f'the wait heap is mutated with .{d.split(".")[-1]}'
                            '() instead of heapq: the heap order is broken and '
                            'its head is no longer the earliest deadline (a '
                            'later deadline wakes first)', line=n.lineno)
            elif isinstance(n, ast.Assign) and any(
                    norm(t).startswith(WQ) for t in n.targets):
                n_h += 1
                if m.name == '__init__':
                    rep.check(isinstance(n.value, ast.List)
                              and not n.value.elts, 'C08.deadline', m.where, n,
                              'empty heap', 'non-empty initial heap',
                              line=n.lineno)
                else:
                    hp = any(isinstance(x, ast.Call) and dotted(x.func)
                             == 'heapq.heapify' and x.args and norm(
                                 x.args[0]) == WQ and x.lineno > n.lineno
                             for x in ast.walk(m.node))
                    rep.check(hp, 'C08.deadline', m.where, n,
                              'filtered rebuild followed by heapify',
                              'the heap list is rebuilt without heapify',
                              line=n.lineno)
    rep.floor('C08.deadline', 'mutations of the wait heap', n_h, 3)
    # ---- record ordering --------------------------------------------------------
    order = any(isinstance(d, ast.Call) and dotted(d.func) == 'dataclass'
                and any(k.arg == 'order' and isinstance(k.value, ast.Constant)
                        and k.value.value is True for k in d.keywords)
                for d in wg.decorators)
    gens = [n for n, c in wfields if not c]
    ok = order and OF is not None and len(gens) >= 1 and 'generator' in gens
    rep.check(ok, 'C08.deadline', f'{wg.module.relpath}:_WaitingGenerator',
              'dataclass(order=True): compared fields = '
              + ', '.join(n for n, c in wfields if c),
              'wait records are ordered by their deadline field only',
              'wait records are not ordered by the deadline alone: equal '
              'deadlines compare the generators (TypeError in heappush) or '
              'records are unordered', line=wg.node.lineno)
    # ---- sleep test (path based) -------------------------------------------------
    # For each abstract yielded value, which outcomes (pushed to the heap /
    # kept runnable) are reachable on paths whose conditions on the yielded
    # value are consistent with it?
    outcomes = {v: set() for v in ('none', 'neg', 'zero', 'pos')}
    unknown = None
    skipped = None
    for ex in exits:
        tr = ex.state.trace
        nexts = [i for i, e in enumerate(tr) if e.kind == 'call'
                 and isinstance(e.sym.node, ast.Call)
                 and dotted(e.sym.node.func) == 'next']
        for k, i in enumerate(nexts):
            end = nexts[k + 1] if k + 1 < len(nexts) else len(tr)
            seg = tr[i + 1:end]
            ysym = None
            # the symbol standing for the yielded value
            for e in tr[i:end]:
                if e.kind == 'local' and e.sym is not None and \
                        e.sym.text.startswith('next\u00b7'):
                    ysym = e.sym.text
                    break
            if ysym is None:
                continue
            conds = [e for e in seg if e.kind == 'cond' and ysym
                     in e.sym.text]
            pushed = any(e.kind == 'call' and isinstance(
                e.sym.node, ast.Call) and dotted(e.sym.node.func)
                == 'heapq.heappush' for e in seg)
            moved = any(e.kind == 'call' and isinstance(
                e.sym.node, ast.Call) and dotted(e.sym.node.func) in (
                    f'{AQ}.rotate', f'{AQ}.popleft') for e in seg)
            if not (pushed or moved):
                continue
            for v in outcomes:
                consistent = True
                for c in conds:
                    try:
                        tree = ast.parse(c.sym.text.replace(ysym, 'w'),
                                         mode='eval').body
                        got = _abs_eval(tree, v)
                    except TypeError:
                        consistent = False
                        if c.extra is not None:
                            outcomes[v].add('TypeError')
                        break
                    except (AnalysisError, SyntaxError) as ex2:
                        # not a test of the sign of the yielded value: left
                        # unconstrained (both outcomes of it are explored, so
                        # the outcome sets only grow); a wrong verdict reached
                        # this way is reported as inconclusive below
                        skipped = str(ex2)
                        continue
                    if got != c.extra:
                        consistent = False
                        break
                if consistent:
                    outcomes[v].add('push' if pushed else 'stay')
    if unknown or not any(outcomes.values()):
        rep.inconclusive('C08.sleep', site, 'sleep test',
                         unknown or 'no path steps a coroutine')
    else:
        wrong = None
        for v, got in outcomes.items():
            want = {'push'} if v == 'pos' else {'stay'}
            if got != want:
                wrong = (v, sorted(got))
        if wrong is not None and skipped:
            rep.inconclusive('C08.sleep', site, 'sleep test', skipped)
            wrong = None
        rep.check(wrong is None, 'C08.sleep', site,
                  'process(): what happens to a yielded value',
                  'a coroutine is sent to the heap exactly when it yields a '
                  'positive number',
                  f'for a yielded value that is {wrong[0] if wrong else "?"} '
                  f'the coroutine is {wrong[1] if wrong else "?"}: yielding '
                  'nothing / zero / a negative number must mean "next frame" '
                  'and a positive number a timed wait',
                  line=f.node.lineno)
    # ---- sentinel -------------------------------------------------------------------
    init = program.method('CoroutineProcessor', '__init__')
    aq = [n for n in ast.walk(init.node) if isinstance(n, ast.Assign)
          and any(norm(t) == AQ for t in n.targets)]
    ok = len(aq) == 1 and norm(aq[0].value) in ('deque((None,))',
                                                'deque([None])',
                                                'collections.deque((None,))')
    if _sentinel_free(program):
        return
    rep.check(ok, 'C08.step', init.where, aq[0] if aq else '__init__',
              'the active deque starts with exactly one sentinel',
              'the active deque is not initialised with exactly one None '
              'sentinel', line=init.node.lineno)
    if sleep_only:
        return
    # ---- queued exactly once (C09 typestate) ------------------------------------------
    c09.run_methods(program, rep, 'C08', only={'preserve'})
    c09.run_process(program, rep, 'C08')
    c09.check_alias(program, rep, 'C08')
