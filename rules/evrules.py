"""Shared analyses of desper/events.py for C03, C04 and C10."""
import ast

from dlint.model import AnalysisError, dotted, norm, strip_docstring
from dlint.walk import Domain, Walker, fold_truth, loopvar_name
from rules.lifecycle import chain, unwrap_iter

EVENTS, HANDLERS, QUEUE, FLAG = ('self._events', 'self._handlers',
                                 'self._event_queue', 'self._dispatch_enabled')


class EvDomain(Domain):
    loop_bound = 2

    def __init__(self, program, exc=False, inline=()):
        super().__init__(program)
        self.follow_exceptions = exc
        self.inline = set(inline)

    def resolve_call(self, st, call, walker):
        r = walker.default_resolve(st, call)
        if r is not None and r[0].name in self.inline:
            return r
        # private helpers extracted from the dispatcher's methods
        return walker.resolve_helper(st, call, skip={'_remove_weak_handler'})

    def resolve_setter(self, st, target, walker):
        return None

    def for_counts(self, st, node, itersym):
        return [0, 1, 2]

    def on_event(self, st, ev):
        r = super().on_event(st, ev)
        if ev.kind == 'call' and ev.func is None and is_delivery(ev):
            # a callback may toggle the flag of the dispatcher
            for _, s in r:
                s.bump(FLAG)
        return r

    def may_raise(self, st, ev):
        """Only deliveries (calls that run user callbacks) raise."""
        if ev.kind != 'call' or ev.func is not None:
            return False
        return is_delivery(ev) is not None


def beta_reduce(program, cls, node, depth=3):
    """Replace calls of private single-`return` helpers (self._h(..),
    Class._h(..), module-level _h(..)) inside an expression by the helper's
    returned expression with the parameters substituted."""
    import copy
    from dlint.model import strip_docstring

    def body_expr(f):
        b = [x for x in strip_docstring(f.node.body)
             if not isinstance(x, ast.Assert)]
        if len(b) == 1 and isinstance(b[0], ast.Return) and b[0].value \
                is not None:
            return b[0].value
        # straight-line: single-assignment locals, then one return
        if b and isinstance(b[-1], ast.Return) and b[-1].value is not None \
                and all(isinstance(s, ast.Assign) and len(s.targets) == 1
                        and isinstance(s.targets[0], ast.Name)
                        for s in b[:-1]):
            names = [s.targets[0].id for s in b[:-1]]
            if len(set(names)) == len(names) and not (
                    set(names) & {a.arg for a in f.node.args.args}):
                env = {}

                class L(ast.NodeTransformer):
                    def visit_Name(self, x):
                        return copy.deepcopy(env[x.id]) if x.id in env and \
                            isinstance(x.ctx, ast.Load) else x
                for s in b[:-1]:
                    env[s.targets[0].id] = L().visit(copy.deepcopy(s.value))
                return L().visit(copy.deepcopy(b[-1].value))
        return None

    class T(ast.NodeTransformer):
        def visit_Call(self, n):
            n = self.generic_visit(n)
            f = None
            skip_self = False
            if isinstance(n.func, ast.Attribute) and isinstance(
                    n.func.value, ast.Name) and n.func.attr.startswith('_') \
                    and not n.func.attr.startswith('__'):
                owner = cls if n.func.value.id == 'self' else None
                if owner is None:
                    try:
                        owner = program.cls(n.func.value.id)
                    except AnalysisError:
                        owner = None
                if owner is not None:
                    f = program.resolve_method(owner, n.func.attr)
                    if f is not None:
                        static = any(dotted(d) == 'staticmethod'
                                     for d in f.node.decorator_list)
                        skip_self = not static
            elif isinstance(n.func, ast.Name) and n.func.id.startswith('_'):
                r = program.lookup(cls.module, n.func.id)
                if r and r[0] == 'func':
                    f = r[1]
            if f is None or n.keywords:
                return n
            e = body_expr(f)
            if e is None:
                return n
            params = [a.arg for a in f.node.args.args]
            if skip_self:
                params = params[1:]
            if len(params) != len(n.args):
                return n
            m = dict(zip(params, n.args))

            class S(ast.NodeTransformer):
                def visit_Name(self, x):
                    return copy.deepcopy(m[x.id]) if x.id in m else x
            return S().visit(copy.deepcopy(e))
    class Simplify(ast.NodeTransformer):
        """(lambda a, *r: body)(x, y, z) -> body[a:=x, *r:=(y, z)];
        getattr(o, 'name') -> o.name."""
        def visit_Call(self, n):
            n = self.generic_visit(n)
            if isinstance(n.func, ast.Lambda) and not n.keywords and not any(
                    isinstance(a, ast.Starred) for a in n.args):
                la = n.func.args
                if not (la.kwonlyargs or la.kwarg or la.defaults
                        or la.posonlyargs):
                    names = [a.arg for a in la.args]
                    if len(n.args) >= len(names) and (
                            la.vararg or len(n.args) == len(names)):
                        m = dict(zip(names, n.args))
                        rest = list(n.args[len(names):])
                        va = la.vararg.arg if la.vararg else None

                        class S(ast.NodeTransformer):
                            def visit_Name(self, x):
                                if x.id in m:
                                    return copy.deepcopy(m[x.id])
                                if x.id == va:
                                    return ast.Tuple(copy.deepcopy(rest),
                                                     ast.Load())
                                return x

                            def visit_Call(self, c):
                                c = self.generic_visit(c)
                                flat = []
                                for a in c.args:
                                    if isinstance(a, ast.Starred) and \
                                            isinstance(a.value, ast.Tuple):
                                        flat += a.value.elts
                                    else:
                                        flat.append(a)
                                c.args = flat
                                return c
                        return S().visit(copy.deepcopy(n.func.body))
            if dotted(n.func) == 'getattr' and len(n.args) == 2 \
                    and not n.keywords and isinstance(
                        n.args[1], ast.Constant) and isinstance(
                            n.args[1].value, str) \
                    and n.args[1].value.isidentifier():
                return ast.Attribute(n.args[0], n.args[1].value, ast.Load())
            return n
    out = copy.deepcopy(node)
    for _ in range(depth):
        out = T().visit(out)
        out = Simplify().visit(out)
    return ast.fix_missing_locations(out)


def is_delivery(ev):
    """('dispatch', node) for self.dispatch(..) ; ('method', node) for a call
    whose callee is an element of a listener tuple, i.e. F(R(), ...)."""
    cn = ev.sym.node
    if not isinstance(cn, ast.Call):
        return None
    if dotted(cn.func) == 'self.dispatch':
        return 'dispatch'
    if isinstance(cn.func, ast.Subscript) and isinstance(
            cn.func.value, ast.Name) and '·' in cn.func.value.id \
            and (cn.args or cn.keywords):
        return 'method'
    return None


NONREENTRANT = ('Lock', 'Semaphore', 'BoundedSemaphore', 'allocate_lock')


def lock_kind(program, text):
    """Constructor name of the lock object `self.<x>` / `<Class>.<x>` / module
    level `<x>` of the dispatcher family ('Lock', 'RLock', ...), else None."""
    disp = dispatcher_class(program)
    attr = text.split('.')[-1]
    vals = []
    for c in [disp] + program.subclasses(disp):
        for n in ast.walk(c.node):
            if isinstance(n, (ast.Assign, ast.AnnAssign)) and n.value is not None:
                ts = n.targets if isinstance(n, ast.Assign) else [n.target]
                for t in ts:
                    if (isinstance(t, ast.Attribute) and t.attr == attr) or (
                            isinstance(t, ast.Name) and t.id == attr):
                        vals.append(n.value)
    for n in disp.module.tree.body:
        if isinstance(n, ast.Assign) and any(
                isinstance(t, ast.Name) and t.id == attr for t in n.targets):
            vals.append(n.value)
    kinds = {(dotted(v.func) or '').split('.')[-1] for v in vals
             if isinstance(v, ast.Call)}
    return kinds.pop() if len(kinds) == 1 and len(vals) == 1 else None


class HeldLocks:
    """Tracks, along one trace, the non-reentrant locks of the dispatcher that
    are held ('with' regions and acquire()/release() pairs)."""

    def __init__(self, program):
        self.program = program
        self.stack = []

    def feed(self, e):
        if e.kind == 'with':
            self.stack.append([s.text for s in (e.args or [])
                               if lock_kind(self.program, s.text)
                               in NONREENTRANT])
        elif e.kind == 'endwith' and self.stack:
            self.stack.pop()
        elif e.kind == 'call' and isinstance(e.sym.node, ast.Call) \
                and isinstance(e.sym.node.func, ast.Attribute):
            fn = e.sym.node.func
            if fn.attr == 'acquire' and lock_kind(
                    self.program, norm(fn.value)) in NONREENTRANT:
                self.stack.append([norm(fn.value)])
            elif fn.attr == 'release':
                for fr in reversed(self.stack):
                    if norm(fn.value) in fr:
                        fr.remove(norm(fn.value))
                        break

    def held(self):
        return [t for fr in self.stack for t in fr]


def dispatcher_class(program):
    return program.cls('EventDispatcher')


def listener_loops(program):
    """(func, For node, canonical iterable) for every loop over (a copy of, or
    something derived from) self._events[..]; aliases are resolved by walking
    the method."""
    disp = dispatcher_class(program)
    out = []
    seen = set()
    for c in [disp] + program.subclasses(disp):
        for f in c.methods.values():
            if not any(isinstance(n, ast.Attribute) and n.attr == '_events'
                       for n in ast.walk(f.node)):
                continue
            # (the loop may live in a private helper the method calls)
            if not any(isinstance(n, (ast.For, ast.Call))
                       for n in ast.walk(f.node)):
                continue
            exits, w = walk_method(program, f, c)
            for ex in exits:
                for e in ex.state.trace:
                    if e.kind != 'for' or id(e.node) in seen:
                        continue
                    itn = e.sym.node
                    if isinstance(itn, ast.Name):
                        # a local list/set built from the table
                        nm_ = itn.id
                        for p in ex.state.trace:
                            if p is e:
                                break
                            if p.kind == 'local' and isinstance(
                                    p.target, ast.Name) and p.target.id \
                                    == nm_:
                                itn = p.sym.node
                    if EVENTS in norm(itn):
                        seen.add(id(e.node))
                        out.append((f, e.node, itn))
    return out


def walk_method(program, f, cls=None, exc=False, inline=()):
    dom = EvDomain(program, exc=exc, inline=inline)
    w = Walker(program, dom)
    return w.run(f, cls or f.cls), w


def delivery_sites(program, rep, prop, want):
    """Check every loop over listeners. `want` selects the rules reported:
    'deliver', 'snapshot' (C03), 'deref' (C10)."""
    loops = listener_loops(program)
    rep.floor(f'{prop}.deliver' if 'deliver' in want else f'{prop}.deref',
              'loops over the listeners of an event', len(loops), 1)
    done = set()
    for f, loop, iternode in loops:
        site = f.where
        if (f.qualname, loop.lineno) in done:
            continue
        done.add((f.qualname, loop.lineno))
        # snapshot
        plain_copy = False
        base, view = unwrap_iter(iternode)
        b, keys = chain(base)
        is_tbl = (b == EVENTS and len(keys) == 1) or (
            isinstance(base, ast.Call) and isinstance(base.func, ast.Attribute)
            and base.func.attr == 'get' and dotted(base.func.value) == EVENTS)
        is_live = is_tbl and base is iternode
        plain_copy = is_tbl and not is_live and view == 'keys'
        cow = False
        if is_live and EVENTS.split('.')[-1] in getattr(program, 'cow', ()):
            # copy-on-write: the published listener sets are never changed
            # in place (every update of a set in the dispatcher was written
            # as a replacement), so iterating one is iterating a snapshot
            from dlint.walk import MUTATORS
            inplace = [c for m_ in dispatcher_class(program).methods.values()
                       for c in ast.walk(m_.node)
                       if isinstance(c, ast.Call) and isinstance(
                           c.func, ast.Attribute) and c.func.attr in MUTATORS
                       and c.func.attr not in ('setdefault', 'clear', 'pop')
                       and EVENTS in norm(c.func.value)
                       and norm(c.func.value) != EVENTS
                       and not getattr(c, '_from_cow', False)]
            cow = not inplace
        if cow:
            is_live = False
            plain_copy = True
        if 'deliver' in want and isinstance(loop, ast.For):
            # the delivery is a statement of its own (or the FIRST thing an
            # expression evaluates): as the right operand of and / or, or in
            # an arm of a conditional expression, it runs only when what was
            # computed before lets it - e.g. `handled = handled or cb(...)`
            # stops calling the remaining listeners once one returned True
            par = {}
            for p_ in ast.walk(loop):
                for ch in ast.iter_child_nodes(p_):
                    par[id(ch)] = p_
            for c in ast.walk(loop):
                if not (isinstance(c, ast.Call) and (any(isinstance(
                        a, ast.Starred) for a in c.args) or any(
                            k.arg is None for k in c.keywords))):
                    continue
                cur, cond_ctx = c, None
                while id(cur) in par and par[id(cur)] is not loop:
                    up = par[id(cur)]
                    if isinstance(up, ast.BoolOp) and up.values[0] is not cur \
                            and not any(x is cur for x in ast.walk(
                                up.values[0])):
                        cond_ctx = up
                    if isinstance(up, ast.IfExp) and up.test is not cur \
                            and not any(x is cur for x in ast.walk(up.test)):
                        cond_ctx = up
                    if isinstance(up, ast.stmt):
                        break
                    cur = up
                if cond_ctx is not None:
                    rep.bad(f'{prop}.deliver', site, cond_ctx,
                            f'the callback call {norm(c)[:50]} is evaluated '
                            f'only when the operands before it in '
                            f'`{norm(cond_ctx)[:70]}` let it (short-circuit '
                            'evaluation): once that happens the remaining '
                            'listeners of the snapshot are not called',
                            line=cond_ctx.lineno)
        if 'snapshot' in want:
            if is_live:
                rep.bad(f'{prop}.snapshot', site, loop.iter,
                        'the listener set is iterated live while callbacks may '
                        'add or remove handlers: RuntimeError "Set changed '
                        'size during iteration"', line=loop.lineno)
            elif plain_copy:
                rep.ok(f'{prop}.snapshot', site, loop.iter,
                       'the loop iterates a copy of the listener set',
                       line=loop.lineno)
            else:
                rep.ok(f'{prop}.snapshot', site, loop.iter,
                       'the loop iterates an object derived from (not the '
                       'live) listener set', line=loop.lineno)
        if 'deref' in want and not plain_copy and not is_live:
            rep.bad(f'{prop}.deref', site, loop.iter,
                    'the snapshot holds strong references to the handlers '
                    '(it dereferences the weak references up front): a '
                    'handler whose owner is deleted by an earlier callback of '
                    'the same dispatch is kept alive and still called',
                    line=loop.lineno)
        exits, w = walk_method(program, f)
        rep.count('paths', len(exits))
        bad = {}
        okn = {'deliver': 0, 'deref': 0}
        # every listener is visited: no early exit from the loop
        def _early(stmts):
            for s_ in stmts:
                if isinstance(s_, (ast.Break, ast.Return)):
                    return s_
                if isinstance(s_, (ast.For, ast.While, ast.FunctionDef)):
                    r_ = next((x for x in ast.walk(s_)
                               if isinstance(x, ast.Return)), None)
                    if r_ is not None and not isinstance(s_, ast.FunctionDef):
                        return r_
                    continue
                for fld in ('body', 'orelse', 'finalbody'):
                    sub_ = getattr(s_, fld, None)
                    if isinstance(sub_, list) and sub_ and isinstance(
                            sub_[0], ast.stmt):
                        r_ = _early(sub_)
                        if r_ is not None:
                            return r_
                for h_ in getattr(s_, 'handlers', []) or []:
                    r_ = _early(h_.body)
                    if r_ is not None:
                        return r_
            return None
        ee = _early(loop.body)
        if ee is not None and 'deliver' in want:
            bad.setdefault('deliver', (
                ee, 'the listener loop can stop early (break / return): the '
                'listeners after a dead or skipped one are not called'))
        for ex in exits:
            tr = ex.state.trace
            iters = []
            cur = None
            for e in tr:
                if e.kind == 'for-item' and e.node is loop:
                    cur = (e.target.text, [])
                    iters.append(cur)
                    continue
                if e.kind == 'for-end' and e.node is loop:
                    cur = None
                    continue
                if cur is not None:
                    cur[1].append(e)
            for item, evs in iters:
                none_false = none_true = False
                ndel = 0
                for e in evs:
                    if e.kind == 'cond':
                        n = e.sym.node
                        if isinstance(n, ast.Compare) and isinstance(
                                n.ops[0], ast.Is) and norm(n.left) == \
                                f'{item}[0]()' and isinstance(
                                    n.comparators[0], ast.Constant) and \
                                n.comparators[0].value is None:
                            if e.extra is False:
                                none_false = True
                            else:
                                none_true = True
                    if e.kind == 'call' and is_delivery(e) == 'method':
                        ndel += 1
                        cn = e.sym.node
                        okfn = norm(cn.func) == f'{item}[1]'
                        recv = norm(cn.args[0]) if cn.args else None
                        okrecv = recv in (f'{item}[0]()', f'{item}[0]')
                        rest = [norm(a) for a in cn.args[1:]]
                        kws = [(k.arg, norm(k.value)) for k in cn.keywords]
                        fa = f.node.args
                        va = fa.vararg.arg if fa.vararg else None
                        kw = fa.kwarg.arg if fa.kwarg else None
                        # `**kwargs` (or `*args`) may be left out on a path
                        # that found it empty
                        empty = {e2.sym.text for e2 in tr
                                 if e2.kind == 'cond' and e2.extra is False}
                        if va and kw:
                            okargs = (rest == [f'*{va}'] or (
                                rest == [] and va in empty)) and (
                                kws == [(None, kw)] or (
                                    kws == [] and kw in empty))
                        else:
                            okargs = (len(rest) == 1 and rest[0].startswith(
                                '*') and len(kws) == 1 and kws[0][0] is None)
                        if 'deliver' in want:
                            if okfn and okrecv and okargs:
                                okn['deliver'] += 1
                            else:
                                bad.setdefault('deliver', (
                                    e.node, 'the delivery is '
                                    f'{norm(e.node)}: expected the '
                                    "listener's method called with its "
                                    'handler, *args and **kwargs and nothing '
                                    'else'))
                        if 'deref' in want:
                            if none_false:
                                okn['deref'] += 1
                            else:
                                bad.setdefault('deref', (
                                    e.node, 'the weak reference is '
                                    'dereferenced straight into the call: '
                                    'when an earlier callback of the same '
                                    'dispatch removed the owner of this '
                                    'listener the method is invoked with '
                                    'self=None'))
                if 'deliver' in want and ndel > 1:
                    bad.setdefault('deliver', (
                        loop.iter, f'{ndel} delivery calls in one iteration '
                        'of the listener loop: every live listener must be '
                        'called exactly once'))
        for rule in ('deliver', 'deref'):
            if rule not in want:
                continue
            if rule in bad:
                node, why = bad[rule]
                rep.bad(f'{prop}.{rule}', site, node, why,
                        line=getattr(node, 'lineno', None))
            elif okn[rule]:
                rep.ok(f'{prop}.{rule}', site, loop,
                       f'{okn[rule]} path/iteration instances conform',
                       line=loop.lineno)
            else:
                rep.inconclusive(f'{prop}.{rule}', site, loop.iter,
                                 'no delivery call recognised in the listener '
                                 'loop', line=loop.lineno)
