"""C14 - SimpleLoop feeds exact time deltas and stops cleanly on Quit."""
import ast

from dlint.model import AnalysisError, dotted, norm, strip_docstring
from dlint.walk import Domain, Walker

EXPLANATION = (
    'Static rules over desper/loop.py. dt: the body of the loop in '
    'SimpleLoop.loop is walked path by path (PathEval, one exception edge per '
    'call-out): one call of the time function per iteration; dt is 0 on the '
    '`last_timestamp is None` edge (identity test, not truth value) and '
    '<reading> - self.last_timestamp otherwise; the store last_timestamp = '
    '<reading> precedes the process call (a SwitchWorld out of process must '
    'not skip it); the current world\'s process receives exactly that dt, '
    'once. reset: on every path of SimpleLoop.start the reset of '
    'last_timestamp to None precedes the call that enters the loop. quit: the '
    'only exception handlers in start/loop name Quit and SwitchWorld; the '
    'Quit handler sets running false and writes neither the current world '
    'nor its handle; running is set before the loop; quit_loop dispatches '
    'on_quit to the given / current world before raising Quit, raises on '
    'every path, and an exception escaping the on_quit dispatch is not '
    'replaced by Quit.')
RULE = 'one obligation per (rule, function, statement)'
NOT_DECIDED = ['properties of the clock function itself',
               'loops other than SimpleLoop']
ASSUMPTIONS = ['an exception raised inside process() propagates to the '
               'nearest matching handler']


class _D(Domain):
    loop_bound = 1

    def __init__(self, program, exc=False):
        super().__init__(program)
        self.follow_exceptions = exc

    def resolve_call(self, st, call, walker):
        # private helpers extracted from the analysed code are followed
        return walker.resolve_helper(st, call)

    def resolve_setter(self, st, target, walker):
        return None

    def may_raise(self, st, ev):
        if ev.kind != 'call':
            return False
        d = dotted(ev.sym.node.func) if isinstance(
            ev.sym.node, ast.Call) else None
        return bool(d) and d.split('.')[-1] in ('process', 'dispatch',
                                                'time_function', 'loop')


def check_dt(program, rep):
    sl = program.cls('SimpleLoop')
    f = program.method('SimpleLoop', 'loop', inherited=False)
    site = f.where
    loops = [n for n in strip_docstring(f.node.body)
             if isinstance(n, ast.While)]
    if len(loops) != 1:
        rep.inconclusive('C14.dt', site, f.node.name,
                         'SimpleLoop.loop is not a single while loop')
        return
    outer = loops[0]

    def has_process(n):
        return any(isinstance(c, ast.Call) and isinstance(
            c.func, ast.Attribute) and c.func.attr == 'process'
            for c in ast.walk(n))
    # one frame = one iteration of the innermost `while` that (textually)
    # contains the process call
    lp = outer
    changed = True
    while changed:
        changed = False
        for n in ast.walk(lp):
            if isinstance(n, ast.While) and n is not lp and has_process(n):
                lp = n
                changed = True
                break
    w = Walker(program, _D(program, exc=True))
    if lp is outer:
        exits = w.run_block(f, lp.body, sl)
    else:
        # keep the enclosing try/except of the outer iteration: walk the
        # outer body with the inner loop replaced by one run of its body
        import copy

        class R(ast.NodeTransformer):
            def visit_While(self, n):
                if n is lp_ref[0]:
                    return n.body
                return self.generic_visit(n)
        lp_ref = [lp]
        body = copy.deepcopy(outer.body)
        # find the copied inner loop by position
        for n in [x for st_ in body for x in ast.walk(st_)]:
            if isinstance(n, ast.While) and n.lineno == lp.lineno \
                    and n.col_offset == lp.col_offset:
                lp_ref[0] = n
        body = [R().visit(st_) for st_ in body]
        flat = []
        for b in body:
            flat.extend(b if isinstance(b, list) else [b])
        for b in flat:
            ast.fix_missing_locations(b)
        exits = w.run_block(f, flat, sl)
    rep.count('paths', len(exits))
    bad = {}
    n_proc = 0

    def flag(rule, node, why):
        bad.setdefault(rule, (node, why))

    for ex in exits:
        tr = ex.state.trace
        reads = [e for e in tr if e.kind == 'call'
                 and norm(e.node.func) == 'self.time_function']
        procs = [(i, e) for i, e in enumerate(tr) if e.kind == 'call'
                 and isinstance(e.sym.node, ast.Call)
                 and isinstance(e.sym.node.func, ast.Attribute)
                 and e.sym.node.func.attr == 'process']
        stores = [(i, e) for i, e in enumerate(tr) if e.kind == 'store'
                  and e.target is not None
                  and e.target.text == 'self.last_timestamp']
        conds = [e for e in tr if e.kind == 'cond']
        first = None
        for c in conds:
            if 'last_timestamp' in c.sym.text:
                first = c
                break
        if len(reads) != 1 and procs:
            flag('dt', (reads[1] if len(reads) > 1 else lp).node if reads
                 else lp, f'{len(reads)} readings of the time function in '
                 'one iteration: dt is not the difference of consecutive '
                 'readings')
        if first is None:
            if procs:
                flag('dt', procs[0][1].node, 'no first-frame test on '
                     'last_timestamp before process')
            continue
        if first.sym.text != 'self.last_timestamp is None':
            flag('dt', first.node,
                 f'the first-frame test is "{first.sym.text}", not an '
                 'identity test against None: a previous reading of exactly 0 '
                 'is taken for "first frame" and that interval is lost')
            continue
        reading = 'self.time_function()'
        want = '0' if first.extra else f'{reading} - self.last_timestamp'
        for i, e in procs:
            n_proc += 1
            cn = e.sym.node
            if norm(cn.func.value) != 'self._current_world':
                flag('dt', e.node, 'process is not called on the current '
                     'world')
            got = [norm(a) for a in cn.args]
            if got != [want] or cn.keywords:
                flag('dt', e.node,
                     f'process receives ({", ".join(got)}) where the frame\'s '
                     f'delta is {want}')
            st_before = [j for j, s in stores if j < i
                         and s.sym.text == reading]
            if not st_before:
                flag('dt', e.node,
                     'the reading is not stored in last_timestamp before '
                     'process runs: when process leaves the frame with '
                     'SwitchWorld the interval is counted again in the next '
                     'world (or the next frame gets dt = 0 again)')
        if len(procs) > 1:
            flag('dt', procs[1][1].node, 'process is called more than once '
                 'per iteration')
        for j, s in stores:
            if s.sym.text != reading:
                flag('dt', s.node, 'last_timestamp is assigned something '
                     'other than this iteration\'s reading')
    rep.floor('C14.dt', 'process calls on the paths of one iteration',
              n_proc, 2)
    if 'dt' in bad:
        node, why = bad['dt']
        rep.bad('C14.dt', site, node, why, line=getattr(node, 'lineno', None))
    else:
        rep.ok('C14.dt', site, 'while True: <one iteration>',
               'one reading; dt = 0 on the first frame else reading - '
               'previous; previous := reading before process; '
               'current_world.process(dt) once', line=lp.lineno)
    # the loop itself: while True, only SwitchWorld handled inside
    rep.check(all(isinstance(x.test, ast.Constant) and x.test.value is True
                  for x in (lp, outer)),
              'C14.dt', site, lp.test, 'the loop runs until an exception '
              'ends it', 'SimpleLoop.loop is not `while True`', line=lp.lineno)


def check_reset(program, rep):
    sl = program.cls('SimpleLoop')
    f = program.method('SimpleLoop', 'start', inherited=False)
    w = Walker(program, _D(program))
    exits = w.run(f, sl)
    bad = None
    n = 0
    for ex in exits:
        tr = ex.state.trace
        i_enter = None
        i_reset = None
        for i, e in enumerate(tr):
            if e.kind == 'call' and norm(e.node.func) in (
                    'super().start', 'self.loop', 'Loop.start'):
                i_enter = i if i_enter is None else i_enter
            if e.kind == 'store' and e.target is not None \
                    and e.target.text == 'self.last_timestamp' \
                    and isinstance(e.sym.node, ast.Constant) \
                    and e.sym.node.value is None and i_reset is None:
                i_reset = i
        if i_enter is not None:
            n += 1
            if i_reset is None or i_reset > i_enter:
                bad = tr[i_enter]
    if n == 0:
        rep.inconclusive('C14.reset', f.where, f.node.name,
                         'SimpleLoop.start does not enter the loop')
        return
    rep.check(bad is None, 'C14.reset', f.where,
              bad.node if bad is not None else 'self.last_timestamp = None',
              'last_timestamp is reset before the loop is entered, on every '
              'path', 'last_timestamp is not reset before the loop is '
              'entered: after a start() that ended with an exception the '
              'first dt of the next start() is the time since the failed '
              'frame instead of 0', line=f.node.lineno)


def check_writers(program, rep):
    """Only start() (reset) and loop() (new reading) - and private helpers
    that run only as part of them - store last_timestamp."""
    from .util import methods_of, called_only_from
    lp = program.cls('Loop')
    meths = methods_of(program, lp)
    allowed, _ = called_only_from(meths, {'__init__', 'start', 'loop'})
    n = 0
    for c in [lp] + program.subclasses(lp):
        for m in c.methods.values():
            for s in ast.walk(m.node):
                tg = []
                if isinstance(s, ast.Assign):
                    tg = [t for tt in s.targets for t in (
                        tt.elts if isinstance(tt, ast.Tuple) else [tt])]
                elif isinstance(s, (ast.AugAssign, ast.AnnAssign)):
                    tg = [s.target]
                elif isinstance(s, ast.Call) and dotted(s.func) == 'setattr' \
                        and len(s.args) >= 2 and isinstance(
                            s.args[1], ast.Constant) and s.args[1].value == \
                        'last_timestamp':
                    tg = [ast.Attribute(s.args[0], 'last_timestamp')]
                for t in tg:
                    if isinstance(t, ast.Attribute) and t.attr == \
                            'last_timestamp':
                        n += 1
                        rep.check(m.name.split('.')[0] in allowed,
                                  'C14.writers', m.where, s,
                                  'last_timestamp is stored by start()/loop()',
                                  f'{m.qualname} stores last_timestamp: the '
                                  'interval between the two surrounding '
                                  'clock readings is lost (dt = 0) or counted '
                                  'against a wrong reference - the time fed '
                                  'to process() no longer adds up to the '
                                  'clock', line=s.lineno)
    rep.floor('C14.writers', 'stores of last_timestamp', n, 2)


def check_quit(program, rep):
    lp = program.cls('Loop')
    sl = program.cls('SimpleLoop')
    allowed = {'Quit', 'SwitchWorld'}
    n_h = 0
    quit_handlers = 0
    for c, f in [(c, f) for c in [lp] + program.subclasses(lp)
                 for f in c.methods.values()]:
        for h in [n for n in ast.walk(f.node)
                  if isinstance(n, ast.ExceptHandler)]:
            n_h += 1
            names = []
            if h.type is not None:
                tt = h.type.elts if isinstance(h.type, ast.Tuple) else [h.type]
                names = [(dotted(t) or norm(t)).split('.')[-1] for t in tt]
            ok = bool(names) and set(names) <= allowed
            rep.check(ok, 'C14.quit', f.where,
                      f'except {norm(h.type) if h.type is not None else ""}',
                      'only Quit / SwitchWorld are handled',
                      f'a handler for {names or "everything"} in {f.qualname}: '
                      'other exceptions no longer propagate to the caller of '
                      'start()', line=h.lineno)
            if 'Quit' in names:
                quit_handlers += 1
        for t in [n for n in ast.walk(f.node) if isinstance(n, ast.Try)]:
            if t.finalbody and any(isinstance(x, (ast.Return, ast.Raise))
                                   for s in t.finalbody for x in ast.walk(s)):
                rep.bad('C14.quit', f.where, 'finally: return/raise',
                        'a finally clause that returns or raises swallows '
                        'other exceptions', line=t.lineno)
    for c, f_ in [(c, f_) for c in [lp] + program.subclasses(lp)
                  for f_ in c.methods.values()]:
        for w_ in [n for n in ast.walk(f_.node) if isinstance(n, ast.With)]:
            for it_ in w_.items:
                ce = it_.context_expr
                if isinstance(ce, ast.Call) and (dotted(ce.func) or ''
                                                 ).split('.')[-1] == 'suppress' \
                        and (f_.module.imports.get((dotted(ce.func) or ''
                                                    ).split('.')[0]) in (
                            ('module', 'contextlib'),
                            ('name', 'contextlib', 'suppress'))):
                    rep.bad('C14.quit', f_.where, ce,
                            f'{norm(ce)} is not `try / except`: since Python '
                            '3.12 it also absorbs an ExceptionGroup whose '
                            'members all match (and strips matching members '
                            'from a mixed group) - a processor that raises '
                            'ExceptionGroup("..", [Quit()]) makes start() '
                            'return normally instead of propagating an '
                            'exception that is not Quit', line=ce.lineno)
    for c, f_ in [(c, f_) for c in [lp] + program.subclasses(lp)
                  for f_ in c.methods.values()]:
        for n_ in ast.walk(f_.node):
            if isinstance(n_, ast.Call) and dotted(n_.func) == 'iter' \
                    and len(n_.args) == 2 and 'time_function' in norm(
                        n_.args[0]):
                rep.bad('C14.quit', f_.where, n_,
                        f'the clock is read through {norm(n_)}: the iterator '
                        'protocol takes a StopIteration raised by the time '
                        'function (a scripted clock running out) for the end '
                        'of the loop - loop() returns, start() returns '
                        'normally with running still true - instead of '
                        'letting the exception reach the caller; a reading '
                        'equal to the sentinel ends it too', line=n_.lineno)
    f = lp.methods['start']
    # a context manager of the package around the loop (its __enter__ /
    # __exit__ set `running` and absorb Quit): not modelled - no verdict
    cms = [w_ for w_ in ast.walk(f.node) if isinstance(w_, ast.With)
           for it_ in w_.items if isinstance(it_.context_expr, ast.Call)
           and (program.lookup_class(f.module, dotted(
               it_.context_expr.func) or '') is not None)
           and '__exit__' in program.lookup_class(
               f.module, dotted(it_.context_expr.func)).methods]
    if cms:
        cmc = program.lookup_class(f.module, dotted(
            cms[0].items[0].context_expr.func))
        ex_ = cmc.methods['__exit__']
        et = ex_.params()[1] if len(ex_.params()) > 1 else 'exc_type'
        exact = [c for c in ast.walk(ex_.node) if isinstance(c, ast.Compare)
                 and len(c.ops) == 1 and isinstance(c.ops[0], (ast.Is, ast.Eq))
                 and norm(c.left) == et and (dotted(c.comparators[0]) or ''
                                             ).split('.')[-1] == 'Quit']
        if exact:
            rep.bad('C14.quit', ex_.where, exact[0],
                    'the context manager absorbs the exception only when its '
                    'type IS Quit: a subclass of Quit (which `except Quit` '
                    'catches) propagates out of start() and leaves running '
                    'true', line=exact[0].lineno)
        rep.inconclusive('C14.quit', f.where, cms[0].items[0].context_expr,
                         'start() runs the loop inside a context manager of '
                         'the package; the effect of its __enter__ / __exit__ '
                         '(setting `running`, absorbing Quit) is not '
                         'modelled', line=cms[0].lineno)
        return
    rep.floor('C14.quit', 'exception handlers in start/loop', n_h, 2)
    # paths of start() on which Quit was caught: running ends false, world
    # and handle are left alone (the handler may live in a private helper)
    wq = Walker(program, _D(program, exc=True))
    n_q = 0
    badq = None
    for ex in wq.run(f, lp):
        if ex.kind == 'raise':
            continue
        tr = ex.state.trace
        iq = [i for i, e in enumerate(tr) if e.kind == 'except' and 'Quit' in
              (norm(e.node.type) if e.node.type is not None else '')]
        if not iq:
            continue
        n_q += 1
        after = tr[iq[-1]:]
        run_stores = [norm(e.sym.node) for e in after if e.kind == 'store'
                      and e.target is not None
                      and e.target.text == 'self.running']
        touched = [e for e in after if e.kind == 'store' and e.target
                   is not None and e.target.text.startswith(
                       'self._current_world')]
        if not run_stores or run_stores[-1] != 'False' or touched:
            badq = tr[iq[-1]].node
    if quit_handlers and n_q == 0:
        rep.inconclusive('C14.quit', f.where, 'except Quit',
                         'no path of start() passes through the Quit handler')
    else:
        rep.check(badq is None, 'C14.quit', f.where,
                  'except Quit: ...', 'Quit sets running false and leaves '
                  'the current world and handle alone',
                  'a path on which Quit was caught returns from start() '
                  'without running = False, or changes the current world / '
                  'handle', line=getattr(badq, 'lineno', f.node.lineno))
    w = Walker(program, _D(program))
    exits = w.run(f, lp)
    bad = None
    for ex in exits:
        tr = ex.state.trace
        i_run = [i for i, e in enumerate(tr) if e.kind == 'store'
                 and e.target is not None and e.target.text == 'self.running'
                 and norm(e.sym.node) == 'True']
        i_loop = [i for i, e in enumerate(tr) if e.kind == 'call'
                  and norm(e.node.func) == 'self.loop']
        if i_loop and (not i_run or i_run[0] > i_loop[0]):
            bad = tr[i_loop[0]]
    rep.check(bad is None, 'C14.quit', f.where, 'self.running = True',
              'running is true while the loop executes',
              'running is not set before the loop is entered',
              line=f.node.lineno)
    # quit_loop
    q = program.func('desper.loop', 'quit_loop')
    w = Walker(program, _D(program, exc=True))
    exits = w.run(q, None)
    rep.count('paths', len(exits))
    bad = None
    n_disp = 0
    for ex in exits:
        tr = ex.state.trace
        excedge = any(e.kind == 'exc-edge' for e in tr)
        if excedge:
            if ex.kind == 'raise' and (ex.payload or '').split('.')[-1] \
                    == 'Quit':
                bad = bad or (ex.node, 'an exception raised by an on_quit '
                              'handler is replaced by Quit: start() returns '
                              'normally instead of propagating it')
            elif ex.kind != 'raise':
                bad = bad or (ex.node, 'an exception raised by an on_quit '
                              'handler is swallowed')
            continue
        if ex.kind != 'raise' or (ex.payload or '').split('.')[-1] != 'Quit':
            bad = bad or (ex.node or q.node, 'quit_loop has a path that does '
                          'not raise Quit')
            continue
        conds = {e.sym.text: e.extra for e in tr if e.kind == 'cond'}
        disp = [e for e in tr if e.kind == 'call' and isinstance(
            e.sym.node, ast.Call) and isinstance(e.sym.node.func,
                                                 ast.Attribute)
            and e.sym.node.func.attr == 'dispatch']
        tgt_none = None
        for t, v in conds.items():
            if t.endswith(' is None') and 'current_world' in t:
                tgt_none = v
        P = q.params()[0] if q.params() else 'target'
        given = conds.get(f'{P} is None')
        if disp:
            n_disp += 1
            a = [norm(x) for x in disp[-1].sym.node.args]
            if a != ["'on_quit'"]:
                bad = bad or (disp[-1].node, f'quit_loop dispatches {a}, '
                              'not on_quit')
            recv = norm(disp[-1].sym.node.func.value)
            names = {n.id for n in ast.walk(disp[-1].sym.node.func.value)
                     if isinstance(n, ast.Name)}
            if recv == P:
                pass
            elif P not in names and 'current_world' in recv:
                if given is not True:
                    bad = bad or (disp[-1].node, 'on_quit goes to the current '
                                  f'world on a path that has not established '
                                  f'"{P} is None": a given world is ignored')
            else:
                bad = bad or (disp[-1].node, 'the world that receives on_quit '
                              f'is chosen by the truth value of `{P}` ({recv}'
                              '): a given world that is falsy (a World '
                              'subclass with __len__/__bool__, no entities) '
                              'is replaced by the default loop\'s world')
        elif given is False:
            bad = bad or (ex.node, f'quit_loop raises Quit without delivering '
                          'on_quit although a world was given')
        else:
            # allowed only when no world could be determined: none given
            # and the default loop has none
            if not any(t.endswith('is None') and v is True
                       and 'current_world' in t for t, v in conds.items()):
                bad = bad or (ex.node, 'quit_loop raises Quit without '
                              'delivering on_quit to the target world')
    rep.floor('C14.quit', 'paths of quit_loop dispatching on_quit', n_disp, 1)
    rep.check(bad is None, 'C14.quit', q.where,
              bad[0] if bad and bad[0] is not None else 'quit_loop',
              'on_quit is dispatched to the given / current world, then Quit '
              'is raised, on every path', bad[1] if bad else '',
              line=getattr(bad[0], 'lineno', q.node.lineno) if bad
              else q.node.lineno)


def check_default_binding(program, rep, rule='C14.quit',
                          fnames=('quit_loop',)):
    """The loop whose current world is the default target is the one the
    package attribute `desper.default_loop` names WHEN THE FUNCTION IS CALLED
    (an application installs its own loop by assigning that attribute).  A
    function that reads a module-level `default_loop` of its own module - a
    second name for the object created at import time - keeps talking to the
    old loop after such an assignment."""
    for fname in fnames:
        try:
            f = program.func('desper.loop', fname)
        except AnalysisError:
            continue
        reads = [n for n in ast.walk(f.node) if isinstance(n, ast.Attribute)
                 and n.attr in ('current_world', 'current_world_handle')]
        n_ok = 0
        for r in reads:
            base = r.value
            if isinstance(base, ast.Attribute) and base.attr == 'default_loop' \
                    and isinstance(base.value, ast.Name):
                imp = f.module.imports.get(base.value.id)
                if imp == ('module', 'desper'):
                    n_ok += 1
                    continue
            if isinstance(base, ast.Name) and base.id == 'default_loop':
                own = any(isinstance(s, (ast.Assign, ast.AnnAssign)) and any(
                    isinstance(t, ast.Name) and t.id == 'default_loop'
                    for t in (s.targets if isinstance(s, ast.Assign)
                              else [s.target])) for s in f.module.tree.body)
                imp = f.module.imports.get('default_loop')
                if own or (imp and imp[0] == 'name'):
                    rep.bad(rule, f.where, r,
                            f'{fname}() reads the module-level name '
                            '`default_loop` (bound once, at import) instead '
                            'of the package attribute desper.default_loop at '
                            'call time: after an application installs its '
                            'own default loop the function still looks at '
                            'the old one - no current world is found, '
                            'on_quit / on_switch_out are not delivered',
                            line=r.lineno)
        if n_ok:
            rep.ok(rule, f.where, 'desper.default_loop.current_world',
                   'the default loop is looked up through the package '
                   'attribute at call time', nontrivial=False,
                   line=f.node.lineno)


def run(program, rep, tier):
    check_default_binding(program, rep)
    check_dt(program, rep)
    check_reset(program, rep)
    check_writers(program, rep)
    check_quit(program, rep)
