"""C09 - coroutine lifecycle: state, kill, restart and promise are coherent."""
import ast

from dlint.model import AnalysisError, dotted, norm
from dlint.walk import Domain, Walker, fold_truth

EXPLANATION = (
    'Typestate check of CoroutineProcessor over an abstract focus generator g: '
    'membership in _generators (and whether its record is a wait record), in '
    '_kill_queue, in _promises, and its multiplicity in the active deque and '
    'in the wait heap. Representation invariant Inv: g is queued exactly once '
    '<=> g in _generators <=> g in _promises; g in _kill_queue => g in '
    '_generators; g is in the wait heap <=> its record is a wait record. '
    'preserve: start, kill and state are walked (PathEval, callees inlined) '
    'from each of the five Inv-states, every branch of process() - one '
    'iteration of the wake loop from {waiting, waiting+kill pending}, one '
    'iteration of the active loop from {active, active+kill pending} with '
    'the call-out next() havocking the kill mark - the container operations '
    'are applied to the abstract state, conditions are decided from it, and '
    'Inv must hold at the end; subscripts / deletes / removes of a key that is '
    'not present are bookkeeping failures. spec: state() returns '
    'TERMINATED/ACTIVE/PAUSED per the table, start from a running state and '
    'kill from a non-running state raise ValueError before any mutation, '
    'non-generators raise TypeError before anything else, the promise value '
    'is stored before the promise is dropped. reentry: start/kill/state never '
    'remove from the left of / rotate the active deque, and re-heapify the '
    'wait heap after a non-heapq mutation; records are filtered by identity.')
RULE = ('one obligation per (rule, method, abstract pre-state); non-trivial '
        'when at least one path is feasible from that pre-state')
NOT_DECIDED = ['process() called recursively from a coroutine body',
               'what generator bodies do besides start/kill/state calls']
ASSUMPTIONS = ['inspect.isgenerator is true for the focus object',
               'next(g) may run start/kill/state of the same processor '
               '(modelled as havoc of the kill mark of g)']

G, K, P, AQ, WQ = ('self._generators', 'self._kill_queue', 'self._promises',
                   'self._active_queue', 'self._wait_queue')

STATES = {
    'none':         dict(inG=False, rec=None, inK=False, inP=False, nA=0, nW=0),
    'active':       dict(inG=True, rec='none', inK=False, inP=True, nA=1, nW=0),
    'active+kill':  dict(inG=True, rec='none', inK=True, inP=True, nA=1, nW=0),
    'waiting':      dict(inG=True, rec='wait', inK=False, inP=True, nA=0, nW=1),
    'waiting+kill': dict(inG=True, rec='wait', inK=True, inP=True, nA=0, nW=1),
}


def inv_problems(fo):
    out = []
    queued = fo['nA'] + fo['nW']
    if fo['inG'] != (queued == 1) or queued > 1:
        out.append(f'queued {queued} time(s) (active {fo["nA"]}, waiting '
                   f'{fo["nW"]}) while {"" if fo["inG"] else "not "}in '
                   '_generators')
    if fo['inG'] != fo['inP']:
        out.append(f'{"in" if fo["inG"] else "not in"} _generators but '
                   f'{"in" if fo["inP"] else "not in"} _promises')
    if fo['inK'] and not fo['inG']:
        out.append('still in _kill_queue although no longer known (never '
                   'released; a later start() raises KeyError)')
    if fo['inG'] and (fo['rec'] == 'wait') != (fo['nW'] == 1):
        out.append(f'record says {"waiting" if fo["rec"] == "wait" else "runnable"} '
                   f'but the generator is {"in" if fo["nW"] else "not in"} the '
                   'wait heap (state() lies; kill+start queues it twice)')
    return out


class CoDomain(Domain):
    loop_bound = 1
    inline_depth = 3

    def __init__(self, program, pre=None, focus_text=None, mode='method',
                 isgen=True):
        super().__init__(program)
        self.pre = pre
        self.focus_text = focus_text
        self.mode = mode
        self.isgen = isgen
        self.problems = []

    def init_state(self, st, func, cls):
        st.data.update(focus=None, issues=[], muts=0, checks=[], aliases=[],
                       head=False, havoc=False, raised=None, vals=[])
        if self.mode == 'method':
            st.data['focus'] = dict(self.pre)
            st.data['aliases'] = [self.focus_text]

    def resolve_call(self, st, call, walker):
        r = walker.default_resolve(st, call)
        if r is None:
            # a private module-level helper of the coroutine module
            r = walker.resolve_module_func(st, call)
            if r is not None and r[0].name.startswith('_') and r[0].module \
                    is st.frames[0].func.module:
                return r
            return None
        if r[0].cls is None or r[0].cls.name != 'CoroutineProcessor':
            return None
        return r

    def for_counts(self, st, node, itersym):
        if WQ in itersym.text and st.data.get('focus') is not None:
            # a search through the wait heap: modelled by the iteration
            # that meets the record looked for (see decide)
            return [1]
        return [0, 1]

    # ------------------------------------------------------------------
    def _is_focus(self, st, text):
        return text in st.data['aliases']

    def _issue(self, st, node, why):
        st.data['issues'].append((norm(node), getattr(node, 'lineno', None),
                                  why))

    def decide(self, st, sym, node):
        n = sym.node
        fo = st.data['focus']
        t = sym.text
        if isinstance(n, ast.Call) and dotted(n.func) == 'inspect.isgenerator':
            return self.isgen
        # emptiness of the kill queue, when read now (not a stale copy): it
        # is non-empty if the focus generator is marked
        if fo is not None and fo['inK'] and t in (
                K, f'len({K})', f'len({K}) > 0', f'bool({K})') and (
                    K, st.versions.get(K, 0)) in sym.stamp:
            return True
        if fo is not None and fo['inK'] and t == f'len({K}) == 0' and (
                K, st.versions.get(K, 0)) in sym.stamp:
            return False
        if isinstance(n, ast.Compare) and len(n.ops) == 1:
            l, op, r = n.left, n.ops[0], n.comparators[0]
            lt, rt = norm(l), norm(r)
            if isinstance(l, ast.Attribute) and isinstance(r, ast.Attribute) \
                    and lt.startswith('CoroutineState.') and rt.startswith(
                        'CoroutineState.') and isinstance(op, (ast.Eq,
                                                               ast.Is)):
                return lt == rt
            if fo is not None:
                if isinstance(op, ast.Is) and any('·' in x and WQ in x.replace(
                        '_', '.') or ('·' in x and 'wait_queue' in x)
                        for x in (lt, rt)):
                    # heap element `is` the wait record of the focus: the
                    # record is in the heap exactly when the focus waits
                    other = r if '·' in lt else l
                    rv = self._rec_value(st, other)
                    if rv == 'wait' and fo['nW'] >= 1:
                        return True
                    if rv in ('none', 'missing', 'default'):
                        return False
                if isinstance(op, ast.Is) and isinstance(r, ast.Constant) \
                        and r.value is None and self._is_focus(st, lt) \
                        and 'heappop' in lt:
                    return False        # a popped wait record's generator
                if isinstance(op, ast.In) and self._is_focus(st, lt):
                    if rt == K:
                        return fo['inK']
                    if rt == G:
                        return fo['inG']
                    if rt == P:
                        return fo['inP']
                v = self._rec_value(st, l)
                if v is not None:
                    if isinstance(r, ast.Name) and isinstance(
                            op, (ast.Is, ast.Eq)) and self.program.is_sentinel(
                                st.frame.func.module, r.id):
                        # a private sentinel object: equal only to itself
                        if v == 'default':
                            d = l.args[1] if len(l.args) > 1 else None
                            return isinstance(d, ast.Name) and d.id == r.id
                        return False
                    if isinstance(r, ast.Constant):
                        if isinstance(op, ast.Is) and r.value is None:
                            return v == 'none'
                        if isinstance(op, ast.Eq):
                            if v == 'default':
                                return self._default_eq(l, r)
                            if v == 'none':
                                return r.value is None
                            return False        # wait record == constant
        return fold_truth(n)

    def _rec_value(self, st, n):
        """Abstract value of G[focus] / G.get(focus, d): 'none' | 'wait' |
        'default' (the .get default) | None (not such an expression)."""
        fo = st.data['focus']
        if isinstance(n, ast.Subscript) and dotted(n.value) == G \
                and self._is_focus(st, norm(n.slice)):
            if not fo['inG']:
                return 'missing'
            return fo['rec']
        if isinstance(n, ast.Call) and isinstance(n.func, ast.Attribute) \
                and n.func.attr == 'get' and dotted(n.func.value) == G \
                and n.args and self._is_focus(st, norm(n.args[0])):
            if not fo['inG']:
                return 'default'
            return fo['rec']
        return None

    def _default_eq(self, getcall, const):
        d = getcall.args[1] if len(getcall.args) > 1 else ast.Constant(None)
        return isinstance(d, ast.Constant) and d.value == const.value

    # ------------------------------------------------------------------
    def on_event(self, st, ev):
        st.trace.append(ev)
        k = ev.kind
        if k == 'raise':
            st.data['raised'] = (ev.extra, st.data['muts'])
        if k == 'cond' and self.mode == 'process' and ev.node is not None:
            # a loop test: the iteration (if any) is over -> check Inv
            if isinstance(ev.node, ast.AST) and getattr(
                    ev.node, '_is_loop_test', False):
                self._close_iteration(st, ev, from_test=True)
        if k == 'cond' and ev.extra is True and ev.sym is not None:
            # `<caught StopIteration>.value is None`: the coroutine returned
            # nothing - there is no value to store (an identity test; a
            # truthiness test would also skip 0, '' and other falsy returns)
            import re as _re
            if _re.fullmatch(r'\w+\$\d+\.value is None', ev.sym.text):
                st.data['promise_value_stored'] = True
        if k == 'local' and self.mode == 'process':
            return self._maybe_focus(st, ev)
        if k == 'call' and ev.func is None:
            return self._call(st, ev)
        if k == 'store':
            self._store(st, ev)
        elif k == 'del':
            self._del(st, ev)
        elif k == 'return':
            st.data['vals'].append(ev.sym.text if ev.sym else None)
        return [(None, st)]

    def _close_iteration(self, st, ev, from_test=False):
        fo = st.data['focus']
        if from_test and fo is not None and fo.get('_muts0') == \
                st.data['muts'] and fo.get('_loop') == 'wake loop':
            # `gen = <pop>; while gen is not None: ...; gen = <pop>`: the
            # test right after the binding opens the iteration, it does not
            # end it
            return
        if fo is not None:
            st.data['checks'].append((fo.pop('_from'), fo.pop('_loop'),
                                      dict(fo), inv_problems(fo),
                                      fo.get('_path')))
        st.data['focus'] = None
        st.data['aliases'] = []
        st.data['head'] = False

    def _maybe_focus(self, st, ev):
        """In process(): `gen = heappop(wait).generator` / `gen = active[0]`
        starts an iteration about a new focus generator."""
        t = ev.sym.text
        if t == f'heapq.heappop({WQ}).generator' or (
                t.endswith('.generator') and 'heappop' in t and WQ in t):
            fo_ = st.data['focus']
            if fo_ is not None and t in st.data['aliases'] and fo_.get(
                    '_muts0') == st.data['muts'] and fo_.get('_loop') \
                    == 'wake loop':
                # the value just drawn is handed on (returned by the helper
                # that popped it and bound again by the caller): the same
                # coroutine, not a new draw
                return [(None, st)]
            if st.data['focus'] is not None:
                # a loop written `while True: gen = ...; if ..: break`: the
                # next binding ends the previous iteration
                self._close_iteration(st, ev)
            out = []
            for name in ('waiting', 'waiting+kill'):
                s = st.copy()
                fo = dict(STATES[name])
                fo['nW'] -= 1           # it has just been popped
                fo['_from'] = name
                fo['_loop'] = 'wake loop'
                fo['_muts0'] = s.data['muts']
                s.data['focus'] = fo
                s.data['aliases'] = [t]
                out.append((None, s))
            return out
        if t == f'{AQ}[0]' and st.data['focus'] is None:
            out = []
            for name in ('active', 'active+kill'):
                s = st.copy()
                # bodies stepped earlier in this frame may have marked this
                # generator: anything read from the kill queue before now is
                # stale
                s.bump(K)
                fo = dict(STATES[name])
                fo['_from'] = name
                fo['_loop'] = 'active loop'
                s.data['focus'] = fo
                s.data['aliases'] = [t]
                s.data['head'] = True
                out.append((None, s))
            return out
        if st.data['focus'] is not None and t == f'{AQ}.popleft()' and \
                f'{AQ}.popleft()' in st.data['aliases']:
            pass
        return [(None, st)]

    def _mut(self, st):
        st.data['muts'] += 1

    def _store(self, st, ev):
        fo = st.data['focus']
        tn = ev.target.node
        if fo is None:
            return
        if isinstance(tn, ast.Subscript):
            base = dotted(tn.value)
            key = norm(tn.slice)
            if base in (G, P, K) and self._is_focus(st, key):
                self._mut(st)
                if base == G:
                    fo['inG'] = True
                    v = ev.sym.node
                    if isinstance(v, ast.Constant) and v.value is None:
                        fo['rec'] = 'none'
                    elif '_WaitingGenerator' in ev.sym.text:
                        fo['rec'] = 'wait'
                    else:
                        fo['rec'] = 'wait' if ev.sym.text != 'None' else 'none'
                elif base == P:
                    fo['inP'] = True
            elif base == WQ and isinstance(tn.slice, ast.Slice):
                # filtered rebuild of the heap
                self._mut(st)
                v = ev.sym.node
                self._heap_filter(st, ev, v)
        elif isinstance(tn, ast.Attribute) and tn.attr == 'value':
            # promise value: self._promises[g].value = ...
            inner = tn.value
            stale = [v for c_, v in (getattr(ev.target, 'binds', None) or ())
                     if c_ == P and v != st.versions.get(P, 0)]
            if stale and st.data.get('stopiter') and P in norm(inner):
                self._issue(st, ev.node, 'the returned value is stored in a '
                            'promise object that was read from the table '
                            'before the coroutine was stepped: a body that '
                            'kills and restarts itself during its last step '
                            'has a new promise under the same key - that one '
                            '(the coroutine\'s promise) is dropped without '
                            'the value')
            if isinstance(inner, ast.Subscript) and dotted(inner.value) == P \
                    and self._is_focus(st, norm(inner.slice)):
                if not fo['inP']:
                    self._issue(st, ev.node, 'the promise of the finished '
                                'coroutine is looked up after it was dropped '
                                '(KeyError inside process)')
                st.data['promise_value_stored'] = True
            elif isinstance(inner, ast.Call) and norm(inner.func) == \
                    f'{P}.pop' and inner.args and self._is_focus(
                        st, norm(inner.args[0])):
                st.data['promise_value_stored'] = True
        elif dotted(tn) in (WQ,):
            self._mut(st)
            self._heap_filter(st, ev, ev.sym.node)

    def _heap_filter(self, st, ev, v):
        fo = st.data['focus']
        if isinstance(v, ast.Name):
            # a local holding the filtered list
            sv = st.frame.env.get(v.id)
            if sv is not None and isinstance(getattr(sv, 'node', None),
                                             ast.ListComp):
                v = sv.node
        if isinstance(v, ast.ListComp) and len(v.generators) == 1 and dotted(
                v.generators[0].iter) == WQ and len(
                    v.generators[0].ifs) == 1:
            test = v.generators[0].ifs[0]
            var = norm(v.generators[0].target)
            if isinstance(test, ast.Compare) and len(test.ops) == 1 \
                    and norm(test.left) == var:
                other = test.comparators[0]
                rv = self._rec_value(st, other)
                if isinstance(test.ops[0], ast.IsNot) and rv is not None:
                    if rv == 'wait':
                        fo['nW'] = max(0, fo['nW'] - 1)
                    st.data['heap_dirty'] = True
                    return
                if isinstance(test.ops[0], (ast.NotEq, ast.Eq)):
                    self._issue(st, ev.node,
                                'wait records are filtered by equality: '
                                '_WaitingGenerator compares by wait_time only, '
                                'so every other coroutine due at the same '
                                'instant is thrown out of the heap too (it '
                                'stays PAUSED forever)')
                    if rv == 'wait':
                        fo['nW'] = max(0, fo['nW'] - 1)
                    st.data['heap_dirty'] = True
                    return
        self.problems.append((ev.node, 'rebuild of the wait heap not '
                              'understood'))

    def _del(self, st, ev):
        fo = st.data['focus']
        tn = ev.target.node
        if fo is None or not isinstance(tn, ast.Subscript):
            return
        base = dotted(tn.value)
        key = norm(tn.slice)
        if base == WQ:
            # `for i, rec in enumerate(heap): if rec is <record of g>: del
            # heap[i]; break` - the record found by identity is removed
            self._mut(st)
            hit = None
            for e in reversed(st.trace):
                if e.kind == 'cond' and e.extra is True and isinstance(
                        e.sym.node, ast.Compare) and len(
                            e.sym.node.ops) == 1 and isinstance(
                                e.sym.node.ops[0], ast.Is):
                    sides = [e.sym.node.left, e.sym.node.comparators[0]]
                    rv = [self._rec_value(st, s_) for s_ in sides]
                    if any(v is not None for v in rv):
                        hit = rv[0] if rv[0] is not None else rv[1]
                    break
            if hit is None:
                self.problems.append((ev.node, 'deletion from the wait heap '
                                      'not understood'))
                return
            if hit == 'wait':
                fo['nW'] = max(0, fo['nW'] - 1)
            st.data['heap_dirty'] = True
            return
        if base in (G, P) and self._is_focus(st, key):
            self._mut(st)
            fld = 'inG' if base == G else 'inP'
            if not fo[fld]:
                self._issue(st, ev.node,
                            f'`del {base}[g]` for a generator that is not in '
                            'it: KeyError inside process()/start() - a '
                            'bookkeeping failure')
            fo[fld] = False
            if base == P and not st.data.get('promise_value_stored') \
                    and st.data.get('stopiter'):
                self._issue(st, ev.node, 'the promise is dropped before the '
                            'returned value was stored in it')

    def _call(self, st, ev):
        cn = ev.sym.node
        fo = st.data['focus']
        if not isinstance(cn, ast.Call):
            return [(None, st)]
        f = cn.func
        d = dotted(f)
        args = [norm(a) for a in cn.args]
        # call-out into the generator body
        if d == 'next' and fo is not None and args and self._is_focus(
                st, args[0]):
            if fo['inK']:
                self._issue(st, ev.node, 'a coroutine whose kill is pending '
                            'is stepped: its code runs after kill() (the '
                            'kill check was skipped on this path, e.g. '
                            'decided on a value read before the mark was '
                            'set)')
            out = []
            # the body may call kill() on itself (a pending mark appears)
            for kill in ((False, True) if not fo['inK'] else (True,)):
                s = st.copy()
                s.data['focus']['inK'] = kill
                s.data['havoc'] = True
                # ... or kill and start itself again (the documented pause /
                # resume idiom): start() files a NEW promise under the same
                # key, a promise object read before the step is stale
                s.bump(P)
                out.append((None, s))
                s2 = s.copy()
                s2.data['stopiter'] = True
                s2.trace.append(ev)
                out.append((('raise', 'StopIteration'), s2))
            return out
        if fo is None:
            return [(None, st)]
        if d in ('heapq.heappush',) and len(cn.args) == 2 \
                and norm(cn.args[0]) == WQ:
            rec = cn.args[1]
            if '_WaitingGenerator' in norm(rec) and any(
                    self._is_focus(st, norm(a)) for x in ast.walk(rec)
                    if isinstance(x, ast.Call) for a in x.args):
                self._mut(st)
                fo['nW'] += 1
        elif d == 'heapq.heapify' and args and args[0] == WQ:
            st.data['heap_dirty'] = False
        elif isinstance(f, ast.Attribute):
            base = dotted(f.value)
            m = f.attr
            if base == AQ:
                if m in ('append', 'appendleft') and args and self._is_focus(
                        st, args[0]):
                    self._mut(st)
                    fo['nA'] += 1
                    if m == 'appendleft':
                        self._issue(st, ev.node, 'a started/woken coroutine '
                                    'is put at the left end of the active '
                                    'deque')
                elif m == 'popleft':
                    self._mut(st)
                    if self.mode != 'process':
                        self._issue(st, ev.node, 'start/kill/state remove from '
                                    'the left end of the active deque: a '
                                    'coroutine calling it from its body '
                                    'shifts the head the running loop is '
                                    'about to pop')
                    elif st.data['head']:
                        fo['nA'] -= 1
                        st.data['head'] = False
                        st.data['aliases'].append(f'{AQ}.popleft()')
                    else:
                        self._issue(st, ev.node, 'the head of the active '
                                    'deque is dropped although it is not the '
                                    'generator being handled')
                elif m == 'rotate':
                    if self.mode != 'process':
                        self._issue(st, ev.node, 'start/kill/state rotate the '
                                    'active deque')
                    st.data['head'] = False
                elif m in ('remove', 'pop', 'clear'):
                    self.problems.append((ev.node, f'active deque .{m}()'))
            elif base == K and args and self._is_focus(st, args[0]):
                if m == 'add':
                    self._mut(st)
                    fo['inK'] = True
                elif m == 'discard':
                    self._mut(st)
                    fo['inK'] = False
                elif m == 'remove':
                    self._mut(st)
                    if not fo['inK']:
                        self._issue(st, ev.node, 'remove() of a generator '
                                    'that is not in the kill queue: KeyError')
                    fo['inK'] = False
            elif base in (G, P) and m == 'pop' and args and self._is_focus(
                    st, args[0]):
                self._mut(st)
                fld = 'inG' if base == G else 'inP'
                if not fo[fld] and len(args) < 2:
                    self._issue(st, ev.node, f'{base}.pop(g) for a generator '
                                'that is not in it: KeyError')
                fo[fld] = False
            elif base in (WQ,) and m in ('append', 'remove', 'pop', 'insert',
                                         'sort', 'clear'):
                self._mut(st)
                self._issue(st, ev.node, f'the wait heap is mutated with '
                            f'.{m}() instead of heapq: its head is no longer '
                            'the earliest deadline')
        return [(None, st)]


def _mark_loop_tests(func, _seen=None):
    """Mark the loop tests of process() and of the private helpers it runs
    (the two phases of the frame may live in methods of their own)."""
    _seen = _seen if _seen is not None else set()
    if func.node in _seen:
        return
    _seen.add(func.node)
    for n in ast.walk(func.node):
        if isinstance(n, ast.While):
            for leaf in _leaves(n.test):
                leaf._is_loop_test = True
        if isinstance(n, ast.Call) and isinstance(n.func, ast.Attribute) \
                and isinstance(n.func.value, ast.Name) \
                and n.func.value.id == 'self' and func.cls is not None:
            g = func.cls.methods.get(n.func.attr)
            if g is not None and g.name.startswith('_') \
                    and not g.name.startswith('__'):
                _mark_loop_tests(g, _seen)


def _leaves(t):
    if isinstance(t, ast.BoolOp):
        yield _first_leaf(t)
    else:
        yield _first_leaf(t)


def _first_leaf(t):
    while True:
        if isinstance(t, ast.BoolOp):
            t = t.values[0]
        elif isinstance(t, ast.UnaryOp) and isinstance(t.op, ast.Not):
            t = t.operand
        else:
            return t


SPEC = {
    # method -> pre-state -> (expected outcome, expected post state or None)
    'start': {'none': ('ok', 'active'), 'active': ('ValueError', None),
              'waiting': ('ValueError', None),
              'active+kill': ('ok', 'active'), 'waiting+kill': ('ok', 'active')},
    'kill': {'none': ('ValueError', None), 'active': ('ok', 'active+kill'),
             'waiting': ('ok', 'waiting+kill'),
             'active+kill': ('ValueError', None),
             'waiting+kill': ('ValueError', None)},
    'state': {'none': ('CoroutineState.TERMINATED', 'none'),
              'active': ('CoroutineState.ACTIVE', 'active'),
              'waiting': ('CoroutineState.PAUSED', 'waiting'),
              'active+kill': ('CoroutineState.TERMINATED', 'active+kill'),
              'waiting+kill': ('CoroutineState.TERMINATED', 'waiting+kill')},
}


def _same(fo, name):
    ref = STATES[name]
    return all(fo[k] == ref[k] for k in ref)


def run_methods(program, rep, prefix='C09', only=None):
    cp = program.cls('CoroutineProcessor')
    npaths = 0
    for mname in ('start', 'kill', 'state'):
        f = program.method('CoroutineProcessor', mname)
        site = f.where
        gp = f.params()[1]
        for pre, (want, post) in SPEC[mname].items():
            dom = CoDomain(program, STATES[pre], gp, 'method')
            w = Walker(program, dom)
            exits = w.run(f, cp)
            npaths += len(exits)
            label = f'{mname}(g) from state "{pre}"'
            problems = []
            for node, why in dom.problems:
                rep.inconclusive(f'{prefix}.preserve', site, node, why,
                                 line=getattr(node, 'lineno', None))
            if not exits:
                rep.inconclusive(f'{prefix}.preserve', site, label,
                                 'no feasible path')
                continue
            for ex in exits:
                st = ex.state
                fo = st.data['focus']
                for text, line, why in st.data['issues']:
                    problems.append(('preserve', f'{why} [{text}]'))
                if st.data.get('heap_dirty'):
                    problems.append(('reentry', 'the wait heap is rebuilt '
                                     'without heapify before returning: its '
                                     'head is no longer the earliest '
                                     'deadline'))
                if ex.kind == 'raise':
                    tn = (ex.payload or '').split('.')[-1]
                    muts_before = st.data['raised'][1] if st.data[
                        'raised'] else st.data['muts']
                    if want != tn:
                        problems.append(('spec', f'raises {tn}; expected '
                                         f'{want}'))
                    if muts_before or not _same(fo, pre):
                        problems.append(('spec', f'raises {tn} after having '
                                         'changed the bookkeeping: the '
                                         'rejected call is not a no-op'))
                    continue
                inv = inv_problems(fo)
                for p in inv:
                    problems.append(('preserve', p))
                if want in ('ValueError',):
                    problems.append(('spec', f'returns normally; expected '
                                     f'{want}'))
                    continue
                if mname == 'state':
                    got = ex.payload.text if ex.payload is not None else None
                    if got != want:
                        problems.append(('spec', f'reports {got}; expected '
                                         f'{want}'))
                if post is not None and not inv and not _same(fo, post):
                    problems.append(('spec', 'ends in state '
                                     + _describe(fo) + f'; expected "{post}"'))
            by_rule = {}
            for r, p in problems:
                by_rule.setdefault(r, []).append(p)
            for r in ('preserve', 'spec', 'reentry'):
                if only is not None and r not in only:
                    continue
                if r in by_rule:
                    rep.bad(f'{prefix}.{r}', site, label, by_rule[r][0],
                            detail={'all': sorted(set(by_rule[r]))[:6]},
                            line=f.node.lineno)
                elif r != 'reentry':
                    rep.ok(f'{prefix}.{r}', site, label,
                           f'{len(exits)} path(s): invariant and '
                           'specification table hold', line=f.node.lineno)
        if only is not None and 'spec' not in only:
            continue
        # TypeError for non generators, before anything else
        dom = CoDomain(program, STATES['none'], gp, 'method', isgen=False)
        w = Walker(program, dom)
        exits = w.run(f, cp)
        bad = [ex for ex in exits if ex.kind != 'raise' or (
            ex.payload or '').split('.')[-1] != 'TypeError' or ex.state.data[
                'muts']]
        rep.check(not bad and bool(exits), f'{prefix}.spec', site,
                  f'{mname}(x) for a non-generator x',
                  'TypeError is raised before any bookkeeping',
                  'a non-generator argument is not rejected with TypeError '
                  'before anything else happens', line=f.node.lineno)
    rep.count('paths', npaths)


def _describe(fo):
    for k, v in STATES.items():
        if _same(fo, k):
            return f'"{k}"'
    return str({k: fo[k] for k in STATES['none']})


def run_process(program, rep, prefix='C09'):
    cp = program.cls('CoroutineProcessor')
    f = program.method('CoroutineProcessor', 'process')
    site = f.where
    _mark_loop_tests(f)
    dom = CoDomain(program, None, None, 'process')
    dom.loop_bound = PROCESS_LOOP_BOUND
    w = Walker(program, dom)
    exits = w.run(f, cp)
    rep.count('paths', len(exits))
    results = {}
    for node, why in dom.problems:
        rep.inconclusive(f'{prefix}.preserve', site, node, why,
                         line=getattr(node, 'lineno', None))
    for ex in exits:
        st = ex.state
        checks = list(st.data['checks'])
        fo = st.data['focus']
        if fo is not None:
            checks.append((fo.get('_from'), fo.get('_loop'), dict(fo),
                           inv_problems(fo), None))
        for frm, loop, fo2, inv, _ in checks:
            key = (loop, frm)
            r = results.setdefault(key, {'ok': 0, 'bad': []})
            if inv:
                r['bad'].extend(inv)
            else:
                r['ok'] += 1
        for text, line, why in st.data['issues']:
            results.setdefault(('statement', text), {'ok': 0, 'bad': []})[
                'bad'].append(why)
        if ex.kind == 'raise' and (ex.payload or '') == 'StopIteration':
            results.setdefault(('active loop', 'StopIteration'),
                               {'ok': 0, 'bad': []})['bad'].append(
                'StopIteration of a finished coroutine escapes process()')
    # a coroutine dropped from the tables is not kept alive by another
    # attribute of the processor when the frame ends
    held = None
    n_exit = 0
    for ex in exits:
        if ex.kind == 'raise':
            continue
        n_exit += 1
        tr = ex.state.trace
        last = {}
        for i, e in enumerate(tr):
            if e.kind == 'store' and e.target is not None and isinstance(
                    e.target.node, ast.Attribute) and e.target.text.startswith(
                        'self.') and e.target.text not in (G, K, P, AQ, WQ):
                last[e.target.text] = (i, e)
        for attr, (i, e) in last.items():
            if not any(q in e.sym.text for q in (AQ, WQ)):
                continue
            vn = e.sym.node
            if isinstance(vn, ast.Attribute) and vn.attr == 'generator':
                vn = vn.value
            if not (isinstance(vn, (ast.Subscript, ast.Call)) and any(
                    (dotted(x) or '') in (AQ, WQ) for x in ast.walk(vn))) \
                    or isinstance(vn, ast.Attribute):
                continue        # a number read off a record, not the record
            dropped = [x for x in tr[i:] if x.kind == 'del' and x.target
                       is not None and x.target.text.startswith(G + '[')]
            if dropped and held is None:
                held = (attr, e, dropped[0])
    if held is not None:
        rep.bad(f'{prefix}.release', site, held[1].node,
                f'{held[0]} still refers to the coroutine ({held[1].sym.text})'
                ' on a path of process() that drops it from the tables '
                f'afterwards ({norm(held[2].node)}) and returns: the finished '
                'generator is kept alive by the processor after the frame in '
                'which it ended', line=getattr(held[1].node, 'lineno', None))
    else:
        rep.ok(f'{prefix}.release', site, 'process(): attributes at exit',
               f'on all {n_exit} normal exits no attribute outside the tables '
               'refers to a coroutine dropped during the frame',
               line=f.node.lineno)
    want_keys = [('wake loop', 'waiting'), ('wake loop', 'waiting+kill'),
                 ('active loop', 'active'), ('active loop', 'active+kill')]
    for key in want_keys:
        if key not in results:
            rep.inconclusive(f'{prefix}.preserve', site,
                             f'process(): {key[0]} from "{key[1]}"',
                             'no iteration of this loop was recognised '
                             '(focus binding `gen = heappop(..).generator` / '
                             '`gen = _active_queue[0]` not found)')
    for key, r in sorted(results.items()):
        label = f'process(): {key[0]} from "{key[1]}"' if key[0] != \
            'statement' else key[1]
        if r['bad']:
            rep.bad(f'{prefix}.preserve', site, label, r['bad'][0],
                    detail={'all': sorted(set(r['bad']))[:6]},
                    line=f.node.lineno)
        else:
            rep.ok(f'{prefix}.preserve', site, label,
                   f'invariant holds at the end of the iteration on all '
                   f'{r["ok"]} path(s)', line=f.node.lineno)


PROCESS_LOOP_BOUND = 1


def _enclosing_loops(func):
    out = {}
    def rec(n, loops):
        for ch in ast.iter_child_nodes(n):
            out[id(ch)] = loops
            rec(ch, loops + [ch] if isinstance(ch, (ast.For, ast.While))
                else loops)
    rec(func, [])
    return out


def check_alias(program, rep, prefix='C09'):
    """A coroutine body may call start()/kill() while process() is running.
    If one method REBINDS a table of the processor (self.X = ...) and another
    keeps a local alias of that table across a step of user code, the alias
    goes stale: later updates of the frame land in an abandoned container."""
    cp = program.cls('CoroutineProcessor')
    init = cp.methods.get('__init__')
    tables = set()
    for s in ast.walk(init.node):
        if isinstance(s, ast.Assign) and isinstance(
                s.value, (ast.List, ast.Dict, ast.Set, ast.Call, ast.ListComp,
                          ast.DictComp, ast.SetComp)):
            for t in s.targets:
                if isinstance(t, ast.Attribute) and isinstance(
                        t.value, ast.Name) and t.value.id == 'self':
                    tables.add(t.attr)
    rebinders = {}
    aliases = {}
    for m in cp.methods.values():
        if m.kind != 'method' or m.name == '__init__':
            continue
        loops = _enclosing_loops(m.node)
        callouts = [n for n in ast.walk(m.node) if isinstance(n, ast.Call)
                    and ((isinstance(n.func, ast.Name) and n.func.id == 'next')
                         or (isinstance(n.func, ast.Attribute)
                             and n.func.attr in ('send', '__next__')))]
        for s in ast.walk(m.node):
            if not isinstance(s, ast.Assign):
                continue
            tg = [t for tt in s.targets for t in (
                tt.elts if isinstance(tt, ast.Tuple) else [tt])]
            for t in tg:
                if isinstance(t, ast.Attribute) and isinstance(
                        t.value, ast.Name) and t.value.id == 'self' \
                        and t.attr in tables:
                    rebinders.setdefault(t.attr, []).append((m, s))
            if len(s.targets) == 1 and isinstance(s.targets[0], ast.Name) \
                    and isinstance(s.value, ast.Attribute) and isinstance(
                        s.value.value, ast.Name) and s.value.value.id == \
                    'self' and s.value.attr in tables and callouts:
                nm = s.targets[0].id
                if sum(1 for x in ast.walk(m.node) if isinstance(
                        x, ast.Assign) and any(isinstance(t, ast.Name)
                                               and t.id == nm
                                               for t in x.targets)) != 1:
                    continue
                for u in ast.walk(m.node):
                    if isinstance(u, ast.Name) and u.id == nm and isinstance(
                            u.ctx, ast.Load):
                        for co in callouts:
                            common = [l for l in loops.get(id(u), [])
                                      if l in loops.get(id(co), [])]
                            if u.lineno > co.lineno or common:
                                aliases.setdefault(s.value.attr, []).append(
                                    (m, s, u))
                                break
    n = 0
    for x in sorted(tables):
        n += 1
        rb, al = rebinders.get(x, []), aliases.get(x, [])
        if rb and al:
            (m1, s1), (m2, s2, u) = rb[0], al[0]
            rep.bad(f'{prefix}.alias', m2.where, s2,
                    f'{m2.qualname} keeps the local alias `{norm(s2)}` across '
                    f'a step of user code (used again at line {u.lineno}) '
                    f'while {m1.qualname} rebinds the table '
                    f'(`{norm(s1)[:60]}`, line {s1.lineno}): a start()/kill() '
                    'issued from inside a coroutine body swaps the container '
                    'and the rest of the frame updates the abandoned one - '
                    'coroutines parked there are never woken nor released',
                    line=s2.lineno)
        else:
            rep.ok(f'{prefix}.alias', cp.methods['process'].where,
                   f'self.{x}', 'not both rebound by a method and aliased '
                   'across a coroutine step', nontrivial=False)
    rep.floor(f'{prefix}.alias', 'tables of the processor', n, 4)


def check_promise_returned(program, rep):
    """The promise start() hands out is the one filed for the generator (it
    is the object process() fills with the coroutine's return value)."""
    cp = program.cls('CoroutineProcessor')
    f = program.method('CoroutineProcessor', 'start')
    g = f.params()[1]

    class _PD(Domain):
        def resolve_call(self, st, call, walker):
            r = walker.resolve_helper(st, call)
            return r

        def for_counts(self, st, node, itersym):
            return [0, 1]
    exits = Walker(program, _PD(program)).run(f, cp)
    n = 0
    bad = None
    for ex in exits:
        if ex.kind != 'return' or ex.payload is None:
            continue
        n += 1
        v = ex.payload.text
        filed = [e for e in ex.state.trace if e.kind == 'store'
                 and e.target is not None
                 and e.target.text == f'{P}[{g}]']
        if v == f'{P}[{g}]':
            continue
        if not filed or filed[-1].sym.text != v:
            bad = bad or ex.node
    if n == 0:
        rep.inconclusive('C09.promise', f.where, f.node.name,
                         'start() has no returning path')
        return
    rep.check(bad is None, 'C09.promise', f.where,
              bad if bad is not None else f'{P}[{g}] = promise',
              f'on all {n} returning paths the returned promise is the one '
              'filed for the generator',
              'start() returns a promise that is not filed in _promises for '
              'the generator on this path (e.g. when it revokes a pending '
              'kill): the promise never receives the value the coroutine '
              'returns', line=getattr(bad, 'lineno', f.node.lineno))


def check_strong_and_resume(program, rep):
    mod = program.cls('CoroutineProcessor').module
    site = mod.relpath
    def _is_weak(n):
        d = dotted(n.func)
        r = program.lookup(mod, d) if d else None
        return bool(r and r[0] == 'external' and str(r[1]).split('.')[0]
                    == 'weakref')
    weak = [n for n in ast.walk(mod.tree) if isinstance(n, ast.Call)
            and _is_weak(n)]
    rep.check(not weak, 'C09.strong', site, weak[0] if weak else 'weakref.*',
              'promises and tables hold their generators strongly',
              'a weak reference is taken in the coroutine module: a promise '
              '(or the processor) no longer keeps the generator alive - '
              'after the coroutine finished or was killed, state / kill on '
              'the promise fail instead of answering TERMINATED / ValueError',
              line=weak[0].lineno if weak else None)
    closers = []
    for c in (program.cls('CoroutineProcessor'),
              program.cls('CoroutinePromise')):
        for m in c.methods.values():
            for n in ast.walk(m.node):
                if isinstance(n, ast.Call) and isinstance(
                        n.func, ast.Attribute) and n.func.attr in (
                            'close', 'throw') and not (
                                isinstance(n.func.value, ast.Name)
                                and n.func.value.id == 'self'):
                    closers.append((m, n))
    rep.check(not closers, 'C09.resume',
              closers[0][0].where if closers else site,
              closers[0][1] if closers else 'generator.close()',
              'generators are only advanced (next), never closed or thrown '
              'into',
              'a generator is closed / thrown into by the processor: a killed '
              'coroutine that is started again can no longer carry on from '
              'where it stopped (its body is over, finally blocks already '
              'ran)', line=closers[0][1].lineno if closers else None)


def run(program, rep, tier):
    global PROCESS_LOOP_BOUND
    # thorough: two consecutive iterations of each loop of process()
    PROCESS_LOOP_BOUND = 2 if tier == 'thorough' else 1
    rep.extra['process_loop_bound'] = PROCESS_LOOP_BOUND
    run_methods(program, rep)
    run_process(program, rep)
    check_alias(program, rep)
    check_promise_returned(program, rep)
    check_strong_and_resume(program, rep)
    # PAUSED exactly for positive waits: the sleep test of process() (C08)
    import copy
    from rules import c08
    tmp = copy.copy(rep)
    tmp.obs, tmp.errors, tmp.analysed, tmp.extra = [], [], {}, {}
    c08.run(program, tmp, 'quick', sleep_only=True)
    for o in tmp.obs:
        if o.rule in ('C08.deadline', 'C08.writes'):
            # PAUSED *until that wait elapses*: the deadline is computed from,
            # and compared with, the timer as last written (C08 rules)
            o.rule = 'C09.paused-' + o.rule.split('.')[1]
            if o.verdict == 'violated':
                o.why = ('a coroutine stays PAUSED after its wait has '
                         f'elapsed, or resumes before [{o.why}]')
            rep.obs.append(o)
            if o.verdict == 'inconclusive':
                rep.errors.append(f'{o.rule} at {o.site}: {o.why}')
        if o.rule == 'C08.step':
            # the frame's walk over the active deque (one rotation of the
            # sentinel, then one step and one move per coroutine) is what
            # releases a finished / killed coroutine on its next turn - also
            # the one left at the head by an exception that escaped a step
            o.rule = 'C09.turn'
            if o.verdict == 'violated':
                o.why = ('a finished or killed coroutine is not released on '
                         f'its next turn [{o.why}]')
            rep.obs.append(o)
            if o.verdict == 'inconclusive':
                rep.errors.append(f'{o.rule} at {o.site}: {o.why}')
        if o.rule == 'C08.sleep':
            o.rule = 'C09.spec'
            rep.obs.append(o)
            if o.verdict == 'inconclusive':
                rep.errors.append(f'{o.rule} at {o.site}: {o.why}')
