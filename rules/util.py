"""Small helpers shared by the rule modules."""
import ast


def self_calls(m):
    """Names of the methods `m` calls on self."""
    return {n.func.attr for n in ast.walk(m.node) if isinstance(n, ast.Call)
            and isinstance(n.func, ast.Attribute) and isinstance(
                n.func.value, ast.Name) and n.func.value.id == 'self'}


def methods_of(program, *classes):
    """name -> every definition of that method in the classes and their
    in-repo subclasses."""
    out = {}
    for c in classes:
        for k in [c] + program.subclasses(c):
            for m in k.methods.values():
                if m.kind == 'method' and m not in out.get(m.name, []):
                    out.setdefault(m.name, []).append(m)
    return out


def called_only_from(meths, roots):
    """`roots` plus the private helpers whose every caller (among `meths`) is
    already in the set: code that runs only as part of the root methods."""
    callers_of = {}
    for ms in meths.values():
        for m in (ms if isinstance(ms, list) else [ms]):
            for callee in self_calls(m):
                callers_of.setdefault(callee, set()).add(m.name)
    allowed = set(roots)
    changed = True
    while changed:
        changed = False
        for name in meths:
            if name in allowed or not name.startswith('_') \
                    or (name.startswith('__') and name.endswith('__')):
                continue
            cs = callers_of.get(name, set()) - {name}
            if cs and cs <= allowed:
                allowed.add(name)
                changed = True
    return allowed, callers_of


MEMO_DECORATORS = ('lru_cache', 'cache', 'cached_property')


def memoised(program):
    """(function, decorator node) for every function of the package wrapped
    in a functools memoiser."""
    from dlint.model import dotted
    out = []
    for fn in program.all_functions():
        for d in fn.node.decorator_list:
            name = dotted(d.func if isinstance(d, ast.Call) else d) or ''
            if name.split('.')[-1] in MEMO_DECORATORS:
                out.append((fn, d))
    return out


def self_writes(m):
    """{attr: node} for the attributes of self this method stores into,
    deletes from, rebinds or mutates through a mutator method."""
    from dlint.walk import MUTATORS
    out = {}

    def base_attr(n):
        while isinstance(n, ast.Subscript):
            n = n.value
        if isinstance(n, ast.Attribute) and isinstance(
                n.value, ast.Name) and n.value.id == 'self':
            return n.attr
        return None
    for s in ast.walk(m.node):
        tg = []
        if isinstance(s, ast.Assign):
            tg = [t for tt in s.targets for t in (
                tt.elts if isinstance(tt, ast.Tuple) else [tt])]
        elif isinstance(s, (ast.AugAssign, ast.AnnAssign)):
            tg = [s.target]
        elif isinstance(s, ast.Delete):
            tg = s.targets
        elif isinstance(s, ast.Call) and isinstance(s.func, ast.Attribute) \
                and s.func.attr in MUTATORS:
            tg = [s.func.value]
        elif isinstance(s, ast.Call) and s.args and (
                (isinstance(s.func, ast.Attribute) and s.func.attr
                 in MODULE_MUTATORS) or (isinstance(s.func, ast.Name)
                                         and s.func.id in MODULE_MUTATORS)):
            # bisect.insort(self.x, ..), heapq.heappush(self.x, ..): the
            # library function changes its first argument in place
            tg = [s.args[0]]
        for t in tg:
            a = base_attr(t)
            if a is not None:
                out.setdefault(a, s)
    return out


MODULE_MUTATORS = ('insort', 'insort_left', 'insort_right', 'heappush',
                   'heappop', 'heapify', 'heapreplace', 'heappushpop',
                   'shuffle')


def _derived_from(funcs, attr, tables, meths):
    """Does some value stored into self.<attr> (by these functions) depend on
    one of the tables - directly, through locals, or through a call on self?
    (An attribute that only ever receives the caller's arguments, constants or
    its own previous value is bookkeeping, not a remembered answer.)"""
    def sattr(n):
        while isinstance(n, ast.Subscript):
            n = n.value
        if isinstance(n, ast.Attribute) and isinstance(
                n.value, ast.Name) and n.value.id == 'self':
            return n.attr
        return None
    for g in funcs:
        tainted = set()

        def dirty(e):
            for x in ast.walk(e):
                if isinstance(x, ast.Attribute) and isinstance(
                        x.value, ast.Name) and x.value.id == 'self':
                    if x.attr in tables:
                        return True
                    if x.attr != attr and x.attr in meths:
                        return True     # a call on self: may read anything
                if isinstance(x, ast.Name) and x.id in tainted:
                    return True
            return False
        for _ in range(3):
            for n in ast.walk(g.node):
                if isinstance(n, ast.Assign) and dirty(n.value):
                    for t in n.targets:
                        for y in ast.walk(t):
                            if isinstance(y, ast.Name):
                                tainted.add(y.id)
                if isinstance(n, (ast.For, ast.comprehension)) and dirty(
                        n.iter):
                    for y in ast.walk(n.target):
                        if isinstance(y, ast.Name):
                            tainted.add(y.id)
                if isinstance(n, ast.NamedExpr) and dirty(n.value):
                    tainted.add(n.target.id)
        for n in ast.walk(g.node):
            vals = []
            if isinstance(n, ast.Assign) and any(
                    sattr(t) == attr for tt in n.targets for t in (
                        tt.elts if isinstance(tt, ast.Tuple) else [tt])):
                vals = [n.value] + [t.slice for t in n.targets
                                    if isinstance(t, ast.Subscript)]
            elif isinstance(n, (ast.AugAssign, ast.AnnAssign)) and sattr(
                    n.target) == attr and n.value is not None:
                vals = [n.value]
            elif isinstance(n, ast.Call) and isinstance(
                    n.func, ast.Attribute) and sattr(n.func.value) == attr:
                vals = list(n.args) + [k.value for k in n.keywords]
            if any(dirty(v) for v in vals):
                return True
    return False


def check_memo_invalidation(program, rep, rule, cls, queries, tables, what,
                            closure_keyed=False):
    """A query method may remember answers in an attribute of the object only
    if every method that changes the tables the query reads forgets them
    again.  Writes and reads are followed through the private helpers a
    method calls on self.  With `closure_keyed` the memo is keyed by a type
    whose answer depends on its subclasses: dropping the single key of the
    changed type is not enough (the supertypes' answers change too) - the
    invalidation must be total or walk `__mro__`."""
    meths = methods_of(program, cls)
    # property getters among the queries (`processors`, `entities`) are
    # queries too
    for k in [cls] + program.subclasses(cls):
        for m in k.methods.values():
            if m.kind == 'getter' and m.name in queries \
                    and m not in meths.get(m.name, []):
                meths.setdefault(m.name, []).append(m)

    def closure(m, seen=None):
        seen = seen if seen is not None else []
        if m in seen:
            return seen
        seen.append(m)
        for callee in self_calls(m):
            if callee.startswith('_') and not (callee.startswith('__')
                                               and callee.endswith('__')):
                for g in meths.get(callee, []):
                    closure(g, seen)
        return seen

    def writes(m):
        out = {}
        for g in closure(m):
            for a, n in self_writes(g).items():
                out.setdefault(a, (n, g))
        return out

    def reads(m):
        out = set()
        for g in closure(m):
            for x in ast.walk(g.node):
                if isinstance(x, ast.Attribute) and isinstance(
                        x.value, ast.Name) and x.value.id == 'self':
                    out.add(x.attr)
        return out

    qset, _ = called_only_from(meths, set(queries) & set(meths))
    n = 0
    for name in sorted(set(queries) & set(meths)):
        for m in meths.get(name, []):
            n += 1
            wr = writes(m)
            rd = reads(m) & set(tables)
            mutators = {}
            for mname, ms in meths.items():
                if mname in qset or mname == '__init__':
                    continue
                for mm in ms:
                    w2 = writes(mm)
                    if any(t in w2 for t in rd):
                        mutators[mname] = (mm, w2)
            bad = None
            for attr, (node, where_) in wr.items():
                if attr in tables:
                    bad = (node, f'the query {m.qualname} modifies the table '
                           f'self.{attr}')
                    break
                # a memo is written AND consulted by the query (an attribute
                # that is only written - a queue of deferred work - is not)
                write_ids = {id(x) for x in ast.walk(node)}
                consulted = any(
                    isinstance(x, ast.Attribute) and x.attr == attr
                    and isinstance(x.value, ast.Name) and x.value.id == 'self'
                    and id(x) not in write_ids
                    for g in closure(m) for x in ast.walk(g.node))
                if not consulted:
                    continue
                if not _derived_from(closure(m), attr, rd, meths):
                    continue    # what is stored does not come from the tables
                missing = sorted(k for k, (mm, w2) in mutators.items()
                                 if attr not in w2)
                if missing:
                    bad = (node, f'{m.qualname} remembers answers in '
                           f'self.{attr}, but {", ".join(missing)} change(s) '
                           f'the tables without forgetting them: {what}')
                    break
                # the memo is forgotten AFTER the tables changed: a statement
                # that still writes the tables later in the same block (with
                # callbacks in between, a re-entrant query refills the memo
                # from half-updated tables)
                early = None
                for k, (mm, w2) in mutators.items():
                    def touches(stmt, what_):
                        for x in ast.walk(stmt):
                            a_ = None
                            if isinstance(x, ast.Attribute) and isinstance(
                                    x.value, ast.Name) and x.value.id == \
                                    'self':
                                a_ = x.attr
                            if a_ is None:
                                continue
                            if a_ in what_:
                                # a write? (store / del / mutator call)
                                pass
                        fake = type('F', (), {'node': stmt})
                        w_ = self_writes(fake)
                        hit = any(t in w_ for t in what_)
                        for c in ast.walk(stmt):
                            if isinstance(c, ast.Call) and isinstance(
                                    c.func, ast.Attribute) and isinstance(
                                        c.func.value, ast.Name) \
                                    and c.func.value.id == 'self':
                                for g in meths.get(c.func.attr, []):
                                    if c.func.attr.startswith('_') and any(
                                            t in writes(g) for t in what_):
                                        hit = True
                        return hit

                    def callout(stmt, depth=2):
                        """The statement may run user code: it invokes a
                        looked-up callback, dispatches an event, or calls a
                        helper of self that does."""
                        for c in ast.walk(stmt):
                            if not isinstance(c, ast.Call):
                                continue
                            if isinstance(c.func, (ast.Call, ast.Subscript)):
                                return True
                            if isinstance(c.func, ast.Attribute) and \
                                    c.func.attr in ('dispatch',):
                                return True
                            if depth and isinstance(
                                    c.func, ast.Attribute) and isinstance(
                                        c.func.value, ast.Name) \
                                    and c.func.value.id == 'self':
                                for g in meths.get(c.func.attr, []):
                                    if any(callout(s_, depth - 1)
                                           for s_ in g.node.body):
                                        return True
                        return False

                    def scan(body):
                        nonlocal early
                        for i_, st_ in enumerate(body):
                            if touches(st_, {attr}) and not isinstance(
                                    st_, (ast.For, ast.While, ast.If,
                                          ast.Try, ast.With)):
                                seen_callout = False
                                for later in body[i_ + 1:]:
                                    if seen_callout and touches(later, rd):
                                        early = early or (st_, mm)
                                    if callout(later):
                                        seen_callout = True
                                        if touches(later, rd):
                                            early = early or (st_, mm)
                            for fld in ('body', 'orelse', 'finalbody'):
                                sub_ = getattr(st_, fld, None)
                                if isinstance(sub_, list) and sub_ and \
                                        isinstance(sub_[0], ast.stmt):
                                    scan(sub_)
                            for h_ in getattr(st_, 'handlers', []) or []:
                                scan(h_.body)
                    scan(mm.node.body)
                if early is not None:
                    bad = (early[0], f'{early[1].qualname} forgets self.{attr} '
                           'BEFORE it has finished changing the tables (the '
                           'same block still writes them afterwards): a '
                           'query made by a callback in between refills the '
                           'memo from the half-updated tables - ' + what)
                    break
                if closure_keyed:
                    partial = None
                    for k, (mm, w2) in mutators.items():
                        for g in closure(mm):
                            loops = [l for l in ast.walk(g.node)
                                     if isinstance(l, ast.For) and any(
                                         isinstance(x, ast.Attribute)
                                         and x.attr == '__mro__'
                                         for x in ast.walk(l.iter))]
                            in_mro = {id(x) for l in loops
                                      for x in ast.walk(l)}
                            for x in ast.walk(g.node):
                                single = False
                                if isinstance(x, ast.Call) and isinstance(
                                        x.func, ast.Attribute) and x.func.attr \
                                        in ('pop', 'discard', 'remove') \
                                        and isinstance(
                                            x.func.value, ast.Attribute) \
                                        and x.func.value.attr == attr \
                                        and x.args:
                                    single = True
                                if isinstance(x, ast.Delete) and any(
                                        isinstance(t, ast.Subscript)
                                        and isinstance(t.value, ast.Attribute)
                                        and t.value.attr == attr
                                        for t in x.targets):
                                    single = True
                                if single and id(x) not in in_mro:
                                    partial = partial or (x, g)
                    if partial is not None:
                        bad = (partial[0], f'{partial[1].qualname} forgets '
                               f'only the entry of the type that changed in '
                               f'self.{attr}: the remembered answers for its '
                               'supertypes (which list it too) stay stale - '
                               + what)
                        break
            rep.check(bad is None, rule, m.where,
                      bad[0] if bad else m.node.name,
                      'the query keeps no state of its own (or every mutator '
                      'of the tables it reads invalidates it)',
                      bad[1] if bad else '',
                      line=getattr(bad[0], 'lineno', None) if bad
                      else m.node.lineno)
    return n
