"""Small helpers shared by the rule modules."""
import ast


def self_calls(m):
    """Names of the methods `m` calls on self."""
    return {n.func.attr for n in ast.walk(m.node) if isinstance(n, ast.Call)
            and isinstance(n.func, ast.Attribute) and isinstance(
                n.func.value, ast.Name) and n.func.value.id == 'self'}


def methods_of(program, *classes):
    """name -> every definition of that method in the classes and their
    in-repo subclasses."""
    out = {}
    for c in classes:
        for k in [c] + program.subclasses(c):
            for m in k.methods.values():
                if m.kind == 'method' and m not in out.get(m.name, []):
                    out.setdefault(m.name, []).append(m)
    return out


def called_only_from(meths, roots):
    """`roots` plus the private helpers whose every caller (among `meths`) is
    already in the set: code that runs only as part of the root methods."""
    callers_of = {}
    for ms in meths.values():
        for m in (ms if isinstance(ms, list) else [ms]):
            for callee in self_calls(m):
                callers_of.setdefault(callee, set()).add(m.name)
    allowed = set(roots)
    changed = True
    while changed:
        changed = False
        for name in meths:
            if name in allowed or not name.startswith('_') \
                    or (name.startswith('__') and name.endswith('__')):
                continue
            cs = callers_of.get(name, set()) - {name}
            if cs and cs <= allowed:
                allowed.add(name)
                changed = True
    return allowed, callers_of


MEMO_DECORATORS = ('lru_cache', 'cache', 'cached_property')


def memoised(program):
    """(function, decorator node) for every function of the package wrapped
    in a functools memoiser."""
    from dlint.model import dotted
    out = []
    for fn in program.all_functions():
        for d in fn.node.decorator_list:
            name = dotted(d.func if isinstance(d, ast.Call) else d) or ''
            if name.split('.')[-1] in MEMO_DECORATORS:
                out.append((fn, d))
    return out


def self_writes(m):
    """{attr: node} for the attributes of self this method stores into,
    deletes from, rebinds or mutates through a mutator method."""
    from dlint.walk import MUTATORS
    out = {}

    def base_attr(n):
        while isinstance(n, ast.Subscript):
            n = n.value
        if isinstance(n, ast.Attribute) and isinstance(
                n.value, ast.Name) and n.value.id == 'self':
            return n.attr
        return None
    for s in ast.walk(m.node):
        tg = []
        if isinstance(s, ast.Assign):
            tg = [t for tt in s.targets for t in (
                tt.elts if isinstance(tt, ast.Tuple) else [tt])]
        elif isinstance(s, (ast.AugAssign, ast.AnnAssign)):
            tg = [s.target]
        elif isinstance(s, ast.Delete):
            tg = s.targets
        elif isinstance(s, ast.Call) and isinstance(s.func, ast.Attribute) \
                and s.func.attr in MUTATORS:
            tg = [s.func.value]
        for t in tg:
            a = base_attr(t)
            if a is not None:
                out.setdefault(a, s)
    return out


def check_memo_invalidation(program, rep, rule, cls, queries, tables, what):
    """A query method may remember answers in an attribute of the object only
    if every method that changes the queried tables forgets them again."""
    meths = methods_of(program, cls)
    qset, _ = called_only_from(meths, set(queries) & set(meths))
    mutators = {}
    for name, ms in meths.items():
        if name in qset or name == '__init__':
            continue
        for m in ms:
            wr = self_writes(m)
            if any(t in wr for t in tables):
                mutators[name] = (m, wr)
    n = 0
    for name in sorted(qset):
        for m in meths.get(name, []):
            n += 1
            wr = self_writes(m)
            bad = None
            for attr, node in wr.items():
                if attr in tables:
                    bad = (node, f'the query {m.qualname} modifies the table '
                           f'self.{attr}')
                    break
                # a memo is written AND consulted by the query (an attribute
                # that is only written - a queue of deferred work - is not)
                write_ids = {id(x) for x in ast.walk(node)}
                consulted = any(
                    isinstance(x, ast.Attribute) and x.attr == attr
                    and isinstance(x.value, ast.Name) and x.value.id == 'self'
                    and id(x) not in write_ids for x in ast.walk(m.node))
                if not consulted:
                    continue
                missing = sorted(k for k, (mm, w2) in mutators.items()
                                 if attr not in w2)
                if missing:
                    bad = (node, f'{m.qualname} remembers answers in '
                           f'self.{attr}, but {", ".join(missing)} change(s) '
                           f'the tables without forgetting them: {what}')
                    break
            rep.check(bad is None, rule, m.where,
                      bad[0] if bad else m.node.name,
                      'the query keeps no state of its own (or every table '
                      'mutator invalidates it)', bad[1] if bad else '',
                      line=getattr(bad[0], 'lineno', None) if bad
                      else m.node.lineno)
    return n
