"""Small helpers shared by the rule modules."""
import ast


def self_calls(m):
    """Names of the methods `m` calls on self."""
    return {n.func.attr for n in ast.walk(m.node) if isinstance(n, ast.Call)
            and isinstance(n.func, ast.Attribute) and isinstance(
                n.func.value, ast.Name) and n.func.value.id == 'self'}


def methods_of(program, *classes):
    """name -> every definition of that method in the classes and their
    in-repo subclasses."""
    out = {}
    for c in classes:
        for k in [c] + program.subclasses(c):
            for m in k.methods.values():
                if m.kind == 'method' and m not in out.get(m.name, []):
                    out.setdefault(m.name, []).append(m)
    return out


def called_only_from(meths, roots):
    """`roots` plus the private helpers whose every caller (among `meths`) is
    already in the set: code that runs only as part of the root methods."""
    callers_of = {}
    for ms in meths.values():
        for m in (ms if isinstance(ms, list) else [ms]):
            for callee in self_calls(m):
                callers_of.setdefault(callee, set()).add(m.name)
    allowed = set(roots)
    changed = True
    while changed:
        changed = False
        for name in meths:
            if name in allowed or not name.startswith('_') \
                    or name.startswith('__'):
                continue
            cs = callers_of.get(name, set()) - {name}
            if cs and cs <= allowed:
                allowed.add(name)
                changed = True
    return allowed, callers_of


MEMO_DECORATORS = ('lru_cache', 'cache', 'cached_property')


def memoised(program):
    """(function, decorator node) for every function of the package wrapped
    in a functools memoiser."""
    from dlint.model import dotted
    out = []
    for fn in program.all_functions():
        for d in fn.node.decorator_list:
            name = dotted(d.func if isinstance(d, ast.Call) else d) or ''
            if name.split('.')[-1] in MEMO_DECORATORS:
                out.append((fn, d))
    return out
