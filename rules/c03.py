"""C03 - an enabled dispatcher delivers each event once to each listener."""
import ast

from dlint.model import AnalysisError, dotted, norm, strip_docstring
from rules import evrules
from rules.evrules import EVENTS, HANDLERS
from rules.lifecycle import chain, unwrap_iter

EXPLANATION = (
    'Static rules over desper/events.py. deliver: every loop over the '
    'listeners of an event (PathEval, iterations 0/1/2) makes exactly one '
    'call per live listener, of the listener\'s method with (handler, *args, '
    '**kwargs) and nothing else. snapshot: that loop iterates a plain copy of '
    'the listener set (callbacks may add/remove handlers). tables: '
    'add_handler files the same (weak ref, class-level method) element under '
    '_events[name] and the same (name, method) pair under _handlers[ref]; '
    '_remove_weak_handler removes exactly the recorded pairs and then the '
    'ref; remove_handler reaches it with a weak reference of the handler; '
    'is_handler tests the same key. idempotent: listener containers are sets '
    'filled with add. unknown: dispatch guards the subscript of _events by '
    'the early return. mapping: the event_handler decorator borrows the '
    'inherited mapping - never mutates it in place - and assigns a fresh '
    'merge with the inherited mapping leftmost.')
RULE = 'one obligation per (rule, function, statement)'
NOT_DECIDED = ['distinct handlers that compare equal (weak references compare '
               'by referent)', 'getattr failures on malformed __events__']
ASSUMPTIONS = ['set.add is idempotent; weakref.ref(h) == weakref.ref(h)']


def _method_expr_canon(node, loopvars):
    """Normalise the 'method' expression, renaming loop variables."""
    t = norm(node)
    for i, v in enumerate(loopvars):
        t = t.replace(v, f'$v{i}')
    return t


def check_tables(program, rep):
    disp = evrules.dispatcher_class(program)
    f = program.method('EventDispatcher', 'add_handler', inherited=False)
    site = f.where
    h = f.params()[1]
    # the weak reference
    refs = [n for n in ast.walk(f.node) if isinstance(n, ast.Assign)
            and isinstance(n.value, ast.Call)
            and dotted(n.value.func) in ('weakref.ref', 'ref')
            and n.value.args and norm(n.value.args[0]) == h]
    if len(refs) != 1 or not isinstance(refs[0].targets[0], ast.Name):
        rep.inconclusive('C03.tables', site, f.node.name,
                         'no single `ref = weakref.ref(handler, ..)`')
        return
    ref = refs[0].targets[0].id
    # insertion into _events
    ins = []
    for n in ast.walk(f.node):
        if isinstance(n, ast.Call) and isinstance(n.func, ast.Attribute) \
                and n.func.attr in ('add', 'append', 'insert', 'appendleft'):
            b, keys = chain(n.func.value)
            if b == EVENTS:
                ins.append(n)
    rep.floor('C03.tables', 'insertions into _events in add_handler',
              len(ins), 1)
    if not ins:
        return
    call = ins[0]
    recv = call.func.value
    made_set = None
    if isinstance(recv, ast.Call) and isinstance(recv.func, ast.Attribute) \
            and recv.func.attr == 'setdefault' and len(recv.args) == 2:
        d = recv.args[1]
        made_set = (isinstance(d, ast.Call) and dotted(d.func) == 'set'
                    and not d.args)
        key_events = norm(recv.args[0])
    else:
        b, keys = chain(recv)
        key_events = norm(keys[0]) if keys else None
        for n in ast.walk(f.node):
            if isinstance(n, ast.Assign):
                bb, kk = chain(n.targets[0])
                if bb == EVENTS and len(kk) == 1:
                    made_set = (isinstance(n.value, ast.Call)
                                and dotted(n.value.func) == 'set'
                                and not n.value.args)
    rep.check(bool(made_set) and call.func.attr == 'add', 'C03.idempotent',
              site, call,
              'listeners of an event are kept in a set filled with add: '
              'registering twice does not duplicate deliveries',
              'the listener container is not a set filled with .add(): '
              'registering a handler twice doubles its deliveries and one '
              'remove_handler leaves a stale entry that still receives events',
              line=call.lineno)
    elem = call.args[0] if call.args else None
    # enclosing loop over handler.__events__.items()
    loops = [n for n in ast.walk(f.node) if isinstance(n, ast.For)
             and any(x is call for x in ast.walk(n))]
    lv = []
    it_ok = False
    if loops:
        lp = loops[0]
        it_ok = norm(lp.iter) == f'{h}.__events__.items()'
        lv = [norm(x) for x in (lp.target.elts if isinstance(
            lp.target, ast.Tuple) else [lp.target])]
    ok_elem = (isinstance(elem, ast.Tuple) and len(elem.elts) == 2
               and norm(elem.elts[0]) == ref)
    meth1 = _method_expr_canon(elem.elts[1], lv) if ok_elem else None
    ok_key = bool(lv) and key_events == lv[0]
    # the _handlers side
    hs = [n for n in ast.walk(f.node) if isinstance(n, ast.Assign)
          and chain(n.targets[0])[0] == HANDLERS]
    meth2 = None
    pair_ok = False
    if len(hs) == 1:
        b, keys = chain(hs[0].targets[0])
        v = hs[0].value
        if isinstance(v, ast.Call) and dotted(v.func) in ('tuple', 'list',
                                                          'frozenset', 'set') \
                and len(v.args) == 1:
            v = v.args[0]
        if isinstance(v, (ast.GeneratorExp, ast.ListComp)) and len(
                v.generators) == 1 and norm(v.generators[0].iter) \
                == f'{h}.__events__.items()' and not v.generators[0].ifs:
            g = v.generators[0]
            lv2 = [norm(x) for x in (g.target.elts if isinstance(
                g.target, ast.Tuple) else [g.target])]
            if isinstance(v.elt, ast.Tuple) and len(v.elt.elts) == 2 \
                    and norm(v.elt.elts[0]) == lv2[0] and len(keys) == 1 \
                    and norm(keys[0]) == ref:
                pair_ok = True
                meth2 = _method_expr_canon(v.elt.elts[1], lv2)
    good = ok_elem and ok_key and it_ok and pair_ok and meth1 == meth2
    rep.check(good, 'C03.tables', site, call,
              'the same (ref, method) element is filed under _events[name] '
              'and as (name, method) under _handlers[ref], for every mapped '
              'event',
              'the two registration tables are not built from the same '
              f'elements (element {norm(elem) if elem is not None else None}; '
              f'method expressions {meth1} vs {meth2}): removal cannot find '
              'what was inserted, or a mapped event is not registered',
              line=call.lineno)
    # class-level method (needed for tables: bound methods never compare
    # identical across getattr calls) is C10's concern as well
    # ---- _remove_weak_handler
    g = program.method('EventDispatcher', '_remove_weak_handler',
                       inherited=False)
    r = g.params()[1]
    loops = [n for n in ast.walk(g.node) if isinstance(n, ast.For)]
    ok = False
    why = 'removal does not iterate the pairs recorded under the reference'
    if len(loops) == 1 and norm(unwrap_iter(loops[0].iter)[0]) == \
            f'{HANDLERS}[{r}]':
        lp = loops[0]
        lv = [norm(x) for x in (lp.target.elts if isinstance(
            lp.target, ast.Tuple) else [lp.target])]
        rem = [n for n in ast.walk(lp) if isinstance(n, ast.Call)
               and isinstance(n.func, ast.Attribute)
               and n.func.attr in ('remove', 'discard')]
        if len(rem) == 1 and len(lv) == 2 and norm(rem[0].func.value) == \
                f'{EVENTS}[{lv[0]}]' and rem[0].args and norm(
                    rem[0].args[0]) == f'({r}, {lv[1]})':
            ok = True
        else:
            why = ('the loop does not remove (ref, method) from '
                   '_events[event_name] for each recorded pair')
    dels = [n for n in ast.walk(g.node) if (isinstance(n, ast.Delete) and any(
        norm(t) == f'{HANDLERS}[{r}]' for t in n.targets)) or (
            isinstance(n, ast.Call) and norm(n.func) == f'{HANDLERS}.pop'
            and n.args and norm(n.args[0]) == r)]
    # the delete must come after the loop (top-level order)
    order_ok = False
    body = strip_docstring(g.node.body)
    idx_loop = [i for i, s in enumerate(body) if any(
        x in loops for x in ast.walk(s))]
    idx_del = [i for i, s in enumerate(body) if any(
        x in dels for x in ast.walk(s))]
    if idx_loop and idx_del and min(idx_del) > max(idx_loop):
        order_ok = True
    rep.check(ok and bool(dels) and order_ok, 'C03.tables', g.where,
              loops[0] if loops else g.node.name,
              'removal deletes exactly the recorded listener entries, then '
              'the reference', why if not ok else
              'the reference is not dropped from _handlers after its entries '
              '(is_handler stays true / a later add_handler duplicates)',
              line=g.node.lineno)
    guard = [n for n in ast.walk(g.node) if isinstance(n, ast.Compare)
             and norm(n.left) == r and norm(n.comparators[0]) == HANDLERS]
    rep.check(bool(guard), 'C03.tables', g.where, f'{r} not in {HANDLERS}',
              'removing an unknown handler is a no-op',
              'removal of a handler that is not registered is not guarded: '
              'remove_handler raises KeyError', line=g.node.lineno)
    # ---- remove_handler / is_handler
    rh = program.method('EventDispatcher', 'remove_handler', inherited=False)
    hp = rh.params()[1]
    calls = [n for n in ast.walk(rh.node) if isinstance(n, ast.Call)
             and norm(n.func) == 'self._remove_weak_handler']
    ok = len(calls) == 1 and calls[0].args and norm(calls[0].args[0]) in (
        f'weakref.ref({hp})',)
    rep.check(ok, 'C03.tables', rh.where, calls[0] if calls else rh.node.name,
              'remove_handler removes the weak reference of the given handler',
              'remove_handler does not hand weakref.ref(handler) to the '
              'removal routine', line=rh.node.lineno)
    ih = program.method('EventDispatcher', 'is_handler', inherited=False)
    hp = ih.params()[1]
    rets = [n for n in ast.walk(ih.node) if isinstance(n, ast.Return)]
    ok = len(rets) == 1 and norm(rets[0].value) == \
        f'weakref.ref({hp}) in {HANDLERS}'
    rep.check(ok, 'C03.tables', ih.where, rets[0] if rets else ih.node.name,
              'is_handler tests the key add_handler files',
              'is_handler does not test weakref.ref(handler) in _handlers',
              line=ih.node.lineno)


def check_unknown(program, rep):
    f = program.method('EventDispatcher', 'dispatch', inherited=False)
    ev = f.params()[1]
    exits, w = evrules.walk_method(program, f)
    bad = None
    n = 0
    for ex in exits:
        known = None
        for e in ex.state.trace:
            if e.kind == 'cond' and e.sym.text == f'{ev} in {EVENTS}':
                known = e.extra
            texts = []
            if e.sym is not None and e.kind in ('for', 'call', 'local',
                                                'cond'):
                texts.append(e.sym.node)
            for tn in texts:
                for sub in ast.walk(tn):
                    if isinstance(sub, ast.Subscript) and dotted(
                            sub.value) == EVENTS and norm(sub.slice) == ev:
                        n += 1
                        if known is not True:
                            bad = e
    if n == 0:
        rep.ok('C03.unknown', f.where, f.node.name,
               'dispatch never subscripts _events with the event name',
               nontrivial=False)
    else:
        rep.check(bad is None, 'C03.unknown', f.where,
                  bad.node if bad is not None else f'{EVENTS}[{ev}]',
                  'every use of _events[event_name] follows the membership '
                  'test (unknown events return silently)',
                  'dispatch indexes _events[event_name] on a path where the '
                  'event may be unknown: KeyError instead of a silent no-op',
                  line=getattr(bad.node, 'lineno', None) if bad else None)


def check_mapping(program, rep):
    f = program.func('desper.events', 'event_handler')
    inner = [n for n in ast.walk(f.node) if isinstance(n, ast.FunctionDef)
             and n is not f.node]
    if len(inner) != 1:
        rep.inconclusive('C03.mapping', f.where, f.node.name,
                         'decorator without a single inner function')
        return
    dec = inner[0]
    cls = dec.args.args[0].arg
    site = f.where
    borrowed = set()
    for n in ast.walk(dec):
        if isinstance(n, ast.Assign) and len(n.targets) == 1 and isinstance(
                n.targets[0], ast.Name):
            v = n.value
            if isinstance(v, ast.Call) and dotted(v.func) == 'getattr' \
                    and len(v.args) >= 2 and norm(v.args[0]) == cls \
                    and isinstance(v.args[1], ast.Constant) \
                    and v.args[1].value == '__events__':
                borrowed.add(n.targets[0].id)
            elif norm(v) == f'{cls}.__events__':
                borrowed.add(n.targets[0].id)
    # in-place mutation of a borrowed mapping
    mut = None
    for n in ast.walk(dec):
        if isinstance(n, ast.AugAssign) and isinstance(n.target, ast.Name) \
                and n.target.id in borrowed:
            mut = n
        if isinstance(n, ast.Call) and isinstance(n.func, ast.Attribute) \
                and isinstance(n.func.value, ast.Name) \
                and n.func.value.id in borrowed and n.func.attr in (
                    'update', 'setdefault', 'pop', 'clear', '__setitem__',
                    'popitem', '__ior__'):
            mut = n
        if isinstance(n, (ast.Assign, ast.Delete)):
            for t in (n.targets if isinstance(n, (ast.Assign, ast.Delete))
                      else []):
                if isinstance(t, ast.Subscript) and isinstance(
                        t.value, ast.Name) and t.value.id in borrowed:
                    mut = n
        if isinstance(n, ast.AugAssign) and norm(n.target) \
                == f'{cls}.__events__':
            mut = n
        if isinstance(n, ast.Call) and norm(n.func).startswith(
                f'{cls}.__events__.') and n.func.attr in (
                    'update', 'setdefault', 'pop', 'clear'):
            mut = n
    rep.check(mut is None, 'C03.mapping', site,
              mut if mut is not None else 'inherited __events__',
              'the inherited mapping is never mutated in place',
              'the mapping obtained from the (base) class is updated in '
              'place: decorating a subclass adds its events to the base '
              "class's __events__ (base instances get foreign callbacks, or "
              'add_handler raises AttributeError)',
              line=getattr(mut, 'lineno', dec.lineno))
    assigns = [n for n in ast.walk(dec) if isinstance(n, ast.Assign) and any(
        norm(t) == f'{cls}.__events__' for t in n.targets)]
    sets = [n for n in ast.walk(dec) if isinstance(n, ast.Call)
            and dotted(n.func) == 'setattr' and len(n.args) == 3
            and isinstance(n.args[1], ast.Constant)
            and n.args[1].value == '__events__']
    if len(assigns) + len(sets) != 1:
        rep.inconclusive('C03.mapping', site, dec.name,
                         f'{len(assigns) + len(sets)} assignments of '
                         'cls.__events__')
        return
    v = assigns[0].value if assigns else sets[0].args[2]
    fresh, leftmost = _fresh_merge(v, borrowed)
    rep.check(fresh, 'C03.mapping', site, assigns[0] if assigns else sets[0],
              'cls.__events__ is assigned a fresh mapping',
              'cls.__events__ is assigned the borrowed (inherited) mapping '
              'object itself: base and subclass share one dict',
              line=(assigns or sets)[0].lineno)
    rep.check(leftmost, 'C03.mapping', site, v,
              'the inherited mapping is the leftmost operand of the merge '
              '(own names override inherited ones)',
              'the merge does not put the inherited mapping first: inherited '
              'entries override the class\'s own, or inherited events are '
              'lost', line=(assigns or sets)[0].lineno)


def _fresh_merge(v, borrowed):
    """(is a fresh object, inherited mapping is leftmost operand)."""
    if isinstance(v, ast.Name):
        return (v.id not in borrowed), False
    if isinstance(v, ast.BinOp) and isinstance(v.op, ast.BitOr):
        ops = []

        def flat(n):
            if isinstance(n, ast.BinOp) and isinstance(n.op, ast.BitOr):
                flat(n.left)
                flat(n.right)
            else:
                ops.append(n)
        flat(v)
        first = ops[0]
        return True, isinstance(first, ast.Name) and first.id in borrowed
    if isinstance(v, ast.Dict):
        if v.keys and v.keys[0] is None and isinstance(
                v.values[0], ast.Name) and v.values[0].id in borrowed:
            return True, True
        return True, False
    if isinstance(v, ast.Call) and dotted(v.func) in ('dict', 'ChainMap'):
        if dotted(v.func) == 'dict' and v.args and isinstance(
                v.args[0], ast.Name) and v.args[0].id in borrowed:
            return True, True
        return True, False
    return True, False


def run(program, rep, tier):
    evrules.delivery_sites(program, rep, 'C03', {'deliver', 'snapshot',
                                                 'deref'})
    check_tables(program, rep)
    check_unknown(program, rep)
    check_mapping(program, rep)
