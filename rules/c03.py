"""C03 - an enabled dispatcher delivers each event once to each listener."""
import ast

from dlint.model import AnalysisError, dotted, norm, strip_docstring
from rules import evrules
from rules.evrules import EVENTS, HANDLERS
from rules.lifecycle import chain, unwrap_iter, unget

EXPLANATION = (
    'Static rules over desper/events.py. deliver: every loop over the '
    'listeners of an event (PathEval, iterations 0/1/2) makes exactly one '
    'call per live listener, of the listener\'s method with (handler, *args, '
    '**kwargs) and nothing else. snapshot: that loop iterates a plain copy of '
    'the listener set (callbacks may add/remove handlers). tables: '
    'add_handler files the same (weak ref, class-level method) element under '
    '_events[name] and the same (name, method) pair under _handlers[ref]; '
    '_remove_weak_handler removes exactly the recorded pairs and then the '
    'ref; remove_handler reaches it with a weak reference of the handler; '
    'is_handler tests the same key. idempotent: listener containers are sets '
    'filled with add. unknown: dispatch guards the subscript of _events by '
    'the early return. mapping: the event_handler decorator borrows the '
    'inherited mapping - never mutates it in place - and assigns a fresh '
    'merge with the inherited mapping leftmost.')
RULE = 'one obligation per (rule, function, statement)'
NOT_DECIDED = ['distinct handlers that compare equal (weak references compare '
               'by referent)', 'getattr failures on malformed __events__']
ASSUMPTIONS = ['set.add is idempotent; weakref.ref(h) == weakref.ref(h)']


def _rename(text, mapping):
    """Rename identifiers (whole-word) in an expression text."""
    try:
        tree = ast.parse(text, mode='eval').body
    except SyntaxError:
        return text

    class R(ast.NodeTransformer):
        def visit_Name(self, n):
            return ast.Name(mapping.get(n.id, n.id), n.ctx)
    return norm(R().visit(tree))


class _TabDomain(evrules.EvDomain):
    """Records, at stores into _handlers, the element model of local lists."""

    def for_counts(self, st, node, itersym):
        return [1]

    def on_event(self, st, ev):
        if ev.kind == 'store' and ev.target is not None and HANDLERS in \
                ev.target.text:
            models = {}
            for n in ast.walk(ev.sym.node):
                if isinstance(n, ast.Name):
                    sv = st.frame.env.get(n.id)
                    if sv is not None and sv.tag == 'mutable' and sv.info:
                        models[n.id] = [e.text for e in sv.info[0]]
            ev.extra = dict(ev.extra or {})
            ev.extra['models'] = models
        return super().on_event(st, ev)


def check_tables(program, rep):
    disp = evrules.dispatcher_class(program)
    f = program.method('EventDispatcher', 'add_handler', inherited=False)
    site = f.where
    h = f.params()[1]
    from dlint.walk import Walker
    w = Walker(program, _TabDomain(program))
    exits = [e for e in w.run(f, disp) if e.kind != 'raise']
    rep.count('paths', len(exits))
    items_iter = f'{h}.__events__.items()'
    n_ins = 0
    bad_idem = bad_tab = None
    add_facts = []      # (store event, ref text, {(K, M)}, {(A, B)})
    for ex in exits:
        tr = ex.state.trace
        inserts = []
        hstores = []
        for e in tr:
            if e.kind == 'call' and isinstance(e.sym.node, ast.Call) \
                    and isinstance(e.sym.node.func, ast.Attribute) \
                    and e.sym.node.func.attr in ('add', 'append', 'insert',
                                                 'appendleft') \
                    and EVENTS in norm(e.sym.node.func.value):
                inserts.append(e)
            if e.kind == 'store' and e.target is not None and \
                    e.target.text.startswith(HANDLERS + '['):
                hstores.append(e)
        loops = [e for e in tr if e.kind == 'for-item'
                 and e.sym.text == items_iter]
        if not inserts:
            continue
        n_ins += len(inserts)
        pairs_events = []
        ref_text = None
        for e in inserts:
            cn = e.sym.node
            recv = cn.func.value
            made_set = False
            key = None
            if isinstance(recv, ast.Call) and isinstance(
                    recv.func, ast.Attribute) and recv.func.attr == \
                    'setdefault' and len(recv.args) == 2:
                d = recv.args[1]
                made_set = isinstance(d, ast.Call) and dotted(
                    d.func) == 'set' and not d.args
                key = norm(recv.args[0])
            else:
                b, keys = chain(recv)
                key = norm(keys[0]) if keys else None
                made_set = any(
                    x.kind == 'store' and x.target is not None
                    and x.target.text == f'{EVENTS}[{key}]' and norm(
                        x.sym.node) == 'set()' for x in tr) or any(
                    x.kind == 'call' and norm(x.sym.node).startswith(
                        f'{EVENTS}.setdefault({key}, set())') for x in tr)
            if not made_set or cn.func.attr != 'add':
                bad_idem = e
            el = cn.args[0] if cn.args else None
            if isinstance(el, ast.Tuple) and len(el.elts) == 2:
                ref_text = norm(el.elts[0])
                pairs_events.append((key, norm(el.elts[1])))
            elif isinstance(el, ast.Call) and program.lookup_class(
                    f.module, dotted(el.func) or '') is not None:
                rc_ = program.lookup_class(f.module, dotted(el.func))
                bad_tab = (e, f'the element filed under _events is a '
                           f'{rc_.name} object, which compares by identity '
                           '(no field-wise __eq__ / __hash__): the set does '
                           'not recognise a second registration of the same '
                           'handler - its deliveries double, and one '
                           'remove_handler leaves entries that still receive '
                           'events' if '__eq__' not in rc_.methods else
                           'the element filed under _events is not a '
                           '(reference, method) pair')
            else:
                bad_tab = (e, 'the element filed under _events is not a '
                           '(reference, method) pair')
        if not loops or len(pairs_events) != len(loops):
            bad_tab = bad_tab or (inserts[0], 'the listener entries are not '
                                  'filed once per mapped event of the handler')
            continue
        item = loops[0].target.text
        ren = {item: 'ITEM_'}
        ev_pairs = {(_rename(k, ren) if k else k, _rename(m, ren))
                    for k, m in pairs_events}
        if len(hstores) != 1:
            bad_tab = bad_tab or (inserts[0], f'{len(hstores)} stores into '
                                  '_handlers on a path of add_handler')
            continue
        hs = hstores[0]
        hkey = hs.target.text[len(HANDLERS) + 1:-1]
        v = evrules.beta_reduce(program, disp, hs.sym.node)
        if isinstance(v, ast.Call) and dotted(v.func) in (
                'tuple', 'list', 'frozenset', 'set') and len(v.args) == 1:
            v = v.args[0]
        if isinstance(v, ast.Name):
            # a local holding the list of pairs built by a comprehension
            for e_ in reversed(tr):
                if e_.kind == 'local' and isinstance(
                        e_.target, ast.Name) and e_.target.id == v.id \
                        and isinstance(e_.sym.node, (ast.ListComp,
                                                     ast.GeneratorExp)):
                    v = e_.sym.node
                    break
        h_pairs = None
        if isinstance(v, (ast.GeneratorExp, ast.ListComp)) and len(
                v.generators) == 1 and norm(v.generators[0].iter) \
                == items_iter and not v.generators[0].ifs \
                and isinstance(v.elt, ast.Tuple) and len(v.elt.elts) == 2:
            tg = v.generators[0].target
            names = [norm(x) for x in (tg.elts if isinstance(tg, ast.Tuple)
                                       else [tg])]
            r2 = {}
            if len(names) == 2:
                r2 = {names[0]: 'ITEM_[0]', names[1]: 'ITEM_[1]'}
            # rename through a textual substitution of the unpacked names
            def rn(t):
                tree = ast.parse(t, mode='eval').body

                class R(ast.NodeTransformer):
                    def visit_Name(self, n):
                        if n.id in r2:
                            return ast.parse(r2[n.id], mode='eval').body
                        return n
                return norm(R().visit(tree))
            h_pairs = {(rn(norm(v.elt.elts[0])), rn(norm(v.elt.elts[1])))}
        elif isinstance(v, ast.Name) and v.id in (hs.extra or {}).get(
                'models', {}):
            h_pairs = set()
            for t in hs.extra['models'][v.id]:
                tn = ast.parse(t, mode='eval').body
                if isinstance(tn, ast.Tuple) and len(tn.elts) == 2:
                    h_pairs.add((_rename(norm(tn.elts[0]), ren),
                                 _rename(norm(tn.elts[1]), ren)))
        if h_pairs is None:
            bad_tab = bad_tab or (hs, 'the value stored under _handlers[ref] '
                                  'is not built from the (event, method) '
                                  "pairs of the handler's mapping")
            continue
        if hkey != ref_text or len(h_pairs) != len(ev_pairs):
            bad_tab = bad_tab or (
                hs, f'_events receives {sorted(ev_pairs)} under reference '
                f'{ref_text}; _handlers[{hkey}] records {sorted(h_pairs)}: '
                'removal cannot find what was inserted, or a mapped event is '
                'not registered')
        else:
            add_facts.append((hs, ref_text, ev_pairs, h_pairs))
    rep.floor('C03.tables', 'insertions into _events on the paths of '
              'add_handler', n_ins, 1)
    rep.check(bad_idem is None, 'C03.idempotent', site,
              bad_idem.node if bad_idem is not None else '.add(...)',
              'listeners of an event are kept in a set filled with add: '
              'registering twice does not duplicate deliveries',
              'the listener container is not a set filled with .add(): '
              'registering a handler twice doubles its deliveries and one '
              'remove_handler leaves a stale entry that still receives events',
              line=getattr(getattr(bad_idem, 'node', None), 'lineno',
                           f.node.lineno))
    rep.check(bad_tab is None, 'C03.tables', site,
              bad_tab[0].node if bad_tab else 'add_handler: both tables',
              'the same (ref, method) element is filed under _events[name] '
              'and as (name, method) under _handlers[ref], for every mapped '
              'event', bad_tab[1] if bad_tab else '',
              line=getattr(getattr(bad_tab[0], 'node', None), 'lineno',
                           f.node.lineno) if bad_tab else f.node.lineno)
    # ---- _remove_weak_handler (path based, aliases resolved)
    g = program.method('EventDispatcher', '_remove_weak_handler',
                       inherited=False)
    r = g.params()[1]
    w = Walker(program, _TabDomain(program))
    exits = [e for e in w.run(g, disp) if e.kind != 'raise']
    bad = None
    bad_id = None
    # attributes of the dispatcher subscripted with id(<something>)
    id_keyed = sorted({x.value.attr for m_ in disp.methods.values()
                       for x in ast.walk(m_.node)
                       if isinstance(x, ast.Subscript) and isinstance(
                           x.value, ast.Attribute) and isinstance(
                               x.value.value, ast.Name)
                       and x.value.value.id == 'self' and isinstance(
                           x.slice, ast.Call) and dotted(x.slice.func) == 'id'}
                      | {x.func.value.attr for m_ in disp.methods.values()
                         for x in ast.walk(m_.node)
                         if isinstance(x, ast.Call) and isinstance(
                             x.func, ast.Attribute) and x.func.attr in (
                                 'get', 'setdefault', 'pop') and isinstance(
                                     x.func.value, ast.Attribute)
                         and isinstance(x.func.value.value, ast.Name)
                         and x.func.value.value.id == 'self' and x.args
                         and isinstance(x.args[0], ast.Call)
                         and dotted(x.args[0].func) == 'id'})
    n_main = n_guard = 0
    rec = f'{HANDLERS}[{r}]'
    for ex in exits:
        tr = ex.state.trace
        known = None
        for e in tr:
            if e.kind == 'cond':
                t = unget(e.sym.text)
                if t == f'{r} in {HANDLERS}':
                    known = e.extra
                elif t == f'{rec} is None':
                    known = not e.extra
        muts = [e for e in tr if e.kind == 'del' or (
            e.kind == 'call' and isinstance(e.sym.node, ast.Call)
            and isinstance(e.sym.node.func, ast.Attribute)
            and e.sym.node.func.attr in ('remove', 'discard', 'pop', 'clear'))]
        def _aux(e_):
            # a change of an auxiliary attribute of the dispatcher (a memo of
            # references, a counter) is not a change of the listener tables
            n_ = e_.sym.node if e_.sym is not None else e_.node
            n_ = n_.func.value if isinstance(n_, ast.Call) and isinstance(
                n_.func, ast.Attribute) else n_
            while isinstance(n_, (ast.Subscript, ast.Call)):
                n_ = n_.value if isinstance(n_, ast.Subscript) else n_.func
            t_ = dotted(n_) or ''
            return t_.startswith('self.') and t_.split('.')[1] not in (
                EVENTS.split('.')[1], HANDLERS.split('.')[1])
        for a_ in id_keyed:
            if not any((e.kind == 'del' or e.kind == 'call') and _aux(e)
                       and f'self.{a_}' in norm(
                           e.sym.node if e.sym is not None else e.node)
                       and e in muts for e in tr):
                bad_id = bad_id or (g, f'self.{a_} is keyed by id(handler) '
                                    'but the weak-reference callback has a '
                                    'path that leaves the entry of a dead '
                                    'handler in it: a later handler allocated '
                                    'at the same address is taken for the '
                                    'dead one (registered, never called)')
        muts = [e for e in muts if not _aux(e)]
        if known is False:
            n_guard += 1
            if muts:
                bad = bad or (muts[0], 'tables are changed although the '
                              'reference is not registered')
            continue
        if known is None:
            bad = bad or (g, 'removal of a handler that is not registered is '
                          'not guarded: remove_handler raises KeyError')
            continue
        n_main += 1
        items = [e for e in tr if e.kind == 'for-item'
                 and unget(e.sym.text) == rec]
        fors = [i for i, e in enumerate(tr) if e.kind == 'for-end'
                and unget(e.sym.text) == rec]
        for it in items:
            t = it.target.text
            rm = [e.sym.node for e in tr if e.kind == 'call' and isinstance(
                e.sym.node, ast.Call) and isinstance(
                    e.sym.node.func, ast.Attribute)
                and e.sym.node.func.attr in ('remove', 'discard')
                and len(e.sym.node.args) == 1 and isinstance(
                    e.sym.node.func.value, ast.Subscript)
                and dotted(e.sym.node.func.value.value) == EVENTS
                and t in norm(e.sym.node)]
            if len(rm) != 1:
                bad = bad or (it, 'the loop does not remove one element from '
                              '_events[event_name] for each recorded pair')
                continue
            # what is removed, as a function of the record t and the
            # reference r - composed with what add_handler records (A, B) it
            # must give back the key and the element add_handler filed
            kx, elx = norm(rm[0].func.value.slice), norm(rm[0].args[0])
            for hs_, ref_text_, ev_pairs_, h_pairs_ in add_facts:
                import re as _re
                got = set()
                for a_, b_ in h_pairs_:
                    def comp(txt):
                        txt = txt.replace(f'{t}[0]', a_).replace(
                            f'{t}[1]', f'({b_})' if ',' in b_ and not
                            b_.startswith('(') else b_)
                        txt = _re.sub(rf'(?<![\w.]){_re.escape(r)}(?![\w])',
                                      ref_text_.replace('\\', '\\\\'), txt)
                        try:
                            return norm(ast.parse(txt, mode='eval').body)
                        except SyntaxError:
                            return txt
                    got.add((comp(kx), comp(elx)))
                want = {(k_, norm(ast.parse(f'({ref_text_}, {m_})',
                                            mode='eval').body))
                        for k_, m_ in ev_pairs_}
                if got != want:
                    bad = bad or (
                        it, f'add_handler files {sorted(want)} and records '
                        f'{sorted(h_pairs_)} under the reference; removal '
                        f'takes {elx} out of _events[{kx}] for each record, '
                        f'i.e. {sorted(got)}: removal cannot find what was '
                        'inserted (KeyError, or a stale entry that still '
                        'receives events)')
        dels = [i for i, e in enumerate(tr) if (
            e.kind == 'del' and unget(e.target.text) == rec) or (
                e.kind == 'call' and norm(e.sym.node).startswith(
                    f'{HANDLERS}.pop({r}'))]
        if not fors:
            bad = bad or (g, 'removal does not iterate the pairs recorded '
                          'under the reference')
        elif not dels or dels[0] < fors[0]:
            bad = bad or (g, 'the reference is not dropped from _handlers '
                          'after its entries (is_handler stays true / a '
                          'later add_handler duplicates)')
    rep.check(bad is None and n_main > 0 and n_guard > 0, 'C03.tables',
              g.where, getattr(bad[0], 'node', None) if bad and hasattr(
                  bad[0], 'node') else '_remove_weak_handler',
              'removal deletes exactly the recorded listener entries, then '
              'the reference; unknown references are ignored',
              bad[1] if bad else 'no guarded / main path recognised',
              line=g.node.lineno)
    if id_keyed:
        rep.check(bad_id is None, 'C03.tables', g.where,
                  '_remove_weak_handler', 'tables keyed by id(handler) ('
                  + ', '.join(id_keyed) + ') lose the entry of a handler on '
                  'every path of the weak-reference callback',
                  bad_id[1] if bad_id else '', line=g.node.lineno)
    # ---- remove_handler / is_handler
    rh = program.method('EventDispatcher', 'remove_handler', inherited=False)
    hp = rh.params()[1]
    calls = [n for n in ast.walk(rh.node) if isinstance(n, ast.Call)
             and norm(n.func) == 'self._remove_weak_handler']
    def ref_of(expr, hp_):
        """expr denotes the key add_handler files for handler hp_: a fresh
        weakref.ref(hp_), or - through a private helper of the dispatcher -
        that or the reference remembered under id(hp_) in a table whose
        entries die with their handler (the id-keyed rule above)."""
        if norm(expr) == f'weakref.ref({hp_})':
            return True
        if not (isinstance(expr, ast.Call) and isinstance(
                expr.func, ast.Attribute) and norm(expr.func.value) == 'self'
                and len(expr.args) == 1 and not expr.keywords
                and norm(expr.args[0]) == hp_):
            return False
        h_ = disp.methods.get(expr.func.attr)
        if h_ is None or not expr.func.attr.startswith('_') or len(
                h_.params()) != 2:
            return False
        q_ = h_.params()[1]
        okv = (f'weakref.ref({q_})',) + tuple(
            t for a_ in id_keyed for t in (f'self.{a_}.get(id({q_}))',
                                           f'self.{a_}.get(id({q_}), None)'))
        rets_ = [n for n in ast.walk(h_.node) if isinstance(n, ast.Return)]
        if not rets_:
            return False
        for r_ in rets_:
            if r_.value is None:
                return False
            if norm(r_.value) in okv[:1]:
                continue
            if not isinstance(r_.value, ast.Name):
                return False
            asg = [n for n in ast.walk(h_.node) if isinstance(n, ast.Assign)
                   and any(norm(t) == r_.value.id for t in n.targets)]
            if not asg or any(norm(a.value) not in okv for a in asg):
                return False
        return True
    ok = len(calls) == 1 and calls[0].args and ref_of(calls[0].args[0], hp)
    rep.check(ok, 'C03.tables', rh.where, calls[0] if calls else rh.node.name,
              'remove_handler removes the weak reference of the given handler',
              'remove_handler does not hand weakref.ref(handler) to the '
              'removal routine', line=rh.node.lineno)
    ih = program.method('EventDispatcher', 'is_handler', inherited=False)
    hp = ih.params()[1]
    rets = [n for n in ast.walk(ih.node) if isinstance(n, ast.Return)]
    ok = len(rets) == 1 and isinstance(rets[0].value, ast.Compare) and len(
        rets[0].value.ops) == 1 and isinstance(
            rets[0].value.ops[0], ast.In) and norm(
                rets[0].value.comparators[0]) == HANDLERS and ref_of(
                    rets[0].value.left, hp)
    rep.check(ok, 'C03.tables', ih.where, rets[0] if rets else ih.node.name,
              'is_handler tests the key add_handler files',
              'is_handler does not test weakref.ref(handler) in _handlers',
              line=ih.node.lineno)


def check_fresh_sets(program, rep, rule='C03.tables'):
    """Every event name owns its own listener container: no construct in the
    dispatcher files ONE mutable object under several keys."""
    disp = evrules.dispatcher_class(program)
    n = 0
    for m in disp.methods.values():
        for c in ast.walk(m.node):
            shared = None
            if isinstance(c, ast.Call) and isinstance(
                    c.func, ast.Attribute) and c.func.attr == 'fromkeys' \
                    and len(c.args) == 2 and not (
                        isinstance(c.args[1], ast.Constant)
                        or (isinstance(c.args[1], ast.Call) and dotted(
                            c.args[1].func) in ('frozenset', 'tuple'))
                        or isinstance(c.args[1], ast.Tuple)):
                shared = c.args[1]
            if isinstance(c, ast.DictComp) and isinstance(c.value, ast.Name) \
                    and not any(isinstance(x, ast.Name) and x.id == c.value.id
                                for g in c.generators
                                for x in ast.walk(g.target)):
                shared = c.value
            if shared is not None:
                n += 1
                rep.bad(rule, m.where, c,
                        f'one mutable object ({norm(shared)}) is filed under '
                        'every key: all event names share a single listener '
                        'container, so a handler registered for one event is '
                        'called for the others too', line=c.lineno)
    if n == 0:
        rep.ok(rule, f'{disp.module.relpath}:EventDispatcher',
               'listener containers', 'no construct files one mutable '
               'container under several event names', nontrivial=False)


def check_unknown(program, rep):
    f = program.method('EventDispatcher', 'dispatch', inherited=False)
    ev = f.params()[1]
    exits, w = evrules.walk_method(program, f)
    bad = None
    n = 0
    for ex in exits:
        known = None
        for e in ex.state.trace:
            if e.kind == 'cond' and e.sym.text == f'{ev} in {EVENTS}':
                known = e.extra
            if e.kind == 'call' and e.sym is not None and \
                    evrules.is_delivery(e) and known is True:
                # a callback may remove handlers / clear the dispatcher: what
                # was known about the keys of _events is gone
                known = 'stale'
                continue
            texts = []
            if e.sym is not None and e.kind in ('for', 'call', 'local',
                                                'cond'):
                texts.append(e.sym.node)
            # a local bound to the listener set earlier (while the key was
            # known) names that set object: using it later evaluates no
            # subscript - only statements that spell the table index it
            try:
                raw = norm(e.node.iter if e.kind == 'for' and hasattr(
                    e.node, 'iter') else e.node)
            except Exception:
                raw = None
            if raw is not None and '_events' not in raw and known == 'stale':
                continue
            for tn in texts:
                for sub in ast.walk(tn):
                    if isinstance(sub, ast.Subscript) and dotted(
                            sub.value) == EVENTS and norm(sub.slice) == ev:
                        n += 1
                        if known is not True:
                            bad = e
    if n == 0:
        rep.ok('C03.unknown', f.where, f.node.name,
               'dispatch never subscripts _events with the event name',
               nontrivial=False)
    else:
        rep.check(bad is None, 'C03.unknown', f.where,
                  bad.node if bad is not None else f'{EVENTS}[{ev}]',
                  'every use of _events[event_name] follows the membership '
                  'test (unknown events return silently)',
                  'dispatch indexes _events[event_name] on a path where the '
                  'event may be unknown (never tested, or tested before a '
                  'callback ran - callbacks may remove handlers or clear the '
                  'dispatcher): KeyError instead of a silent no-op',
                  line=getattr(bad.node, 'lineno', None) if bad else None)


class _MapVal:
    """A mapping built from the three sources of the decorator: `layers`
    lists them by precedence (first wins); `fresh` says the object is private
    to this application of the decorator."""
    def __init__(self, layers, fresh, what=''):
        self.layers, self.fresh, self.what = list(layers), fresh, what

    def copy(self):
        return _MapVal(self.layers, True)


class _NoModel(Exception):
    pass


def eval_mapping(f, dec, cls):
    """Abstract evaluation of the decorator: which of (mappings, names,
    inherited) ends up in cls.__events__, with which precedence, and whether
    an object shared with other classes is mutated.  Raises _NoModel on
    anything outside the dict-merging fragment."""
    a = f.node.args
    names_p = a.vararg.arg if a.vararg else None
    maps_p = a.kwarg.arg if a.kwarg else None
    problems = []
    result = []

    def ev(n, env, inner):
        if isinstance(n, ast.Name):
            if n.id in env:
                return env[n.id]
            if n.id == maps_p:
                return _MapVal(['mappings'], False, 'the keyword arguments of '
                               'the decorator call')
            raise _NoModel(norm(n))
        if isinstance(n, ast.Dict):
            if not n.keys:
                return _MapVal([], True)
            if all(k is None for k in n.keys):
                out = []
                for v in reversed(n.values):
                    out += ev(v, env, inner).layers
                return _MapVal(out, True)
            raise _NoModel(norm(n))
        if isinstance(n, ast.BinOp) and isinstance(n.op, ast.BitOr):
            l, r = ev(n.left, env, inner), ev(n.right, env, inner)
            return _MapVal(r.layers + l.layers, True)
        if isinstance(n, ast.Call):
            d = dotted(n.func) or ''
            if d == 'getattr' and len(n.args) == 3 and norm(n.args[0]) == cls \
                    and isinstance(n.args[1], ast.Constant) \
                    and n.args[1].value == '__events__':
                dflt = ev(n.args[2], env, inner)
                if dflt.layers:
                    raise _NoModel(norm(n))
                return _MapVal(['inherited'], False, 'the mapping of the '
                               '(base) class')
            if d == 'zip' and len(n.args) == 2 and all(
                    norm(x) == names_p for x in n.args):
                return _MapVal(['names'], True, 'pairs')
            if d == 'dict':
                out = []
                for k in reversed(n.keywords):
                    if k.arg is not None:
                        raise _NoModel(norm(n))
                    out += ev(k.value, env, inner).layers
                if len(n.args) > 1:
                    raise _NoModel(norm(n))
                if n.args:
                    out += ev(n.args[0], env, inner).layers
                return _MapVal(out, True)
            if isinstance(n.func, ast.Attribute) and n.func.attr == 'copy' \
                    and not n.args:
                return ev(n.func.value, env, inner).copy()
            if isinstance(n.func, ast.Attribute) and n.func.attr == 'items' \
                    and not n.args:
                return ev(n.func.value, env, inner)
            if d.split('.')[-1] == 'ChainMap':
                out = []
                for x in n.args:
                    out += ev(x, env, inner).layers
                return _MapVal(out, True)
        if isinstance(n, ast.DictComp) and len(n.generators) == 1 \
                and not n.generators[0].ifs:
            g = n.generators[0]
            tg = [norm(x) for x in g.target.elts] if isinstance(
                g.target, ast.Tuple) else [norm(g.target)]
            if norm(g.iter) == names_p and tg == [norm(n.key)] \
                    == [norm(n.value)]:
                return _MapVal(['names'], True)
            src = ev(g.iter, env, inner)
            if len(tg) == 2 and [norm(n.key), norm(n.value)] == tg:
                return src.copy()
        if norm(n) == f'{cls}.__events__':
            return _MapVal(['inherited'], False, 'the mapping of the (base) '
                           'class')
        raise _NoModel(norm(n))

    def mutate(tgt, node, what):
        if not tgt.fresh:
            problems.append((node, f'{what} changes {tgt.what or "a shared mapping"} '
                             'in place: every other class that shares the '
                             'object (the base class and its other '
                             'subclasses, or every class decorated by the '
                             'same decorator object) gets these events too - '
                             'instances receive foreign callbacks, or '
                             'add_handler raises AttributeError'))

    def run(stmts, env, inner):
        for s in stmts:
            if isinstance(s, ast.Expr) and isinstance(s.value, ast.Constant):
                continue
            if isinstance(s, ast.Pass):
                continue
            if isinstance(s, ast.FunctionDef):
                if s is dec:
                    continue
                raise _NoModel(s.name)
            if isinstance(s, ast.Return):
                if inner and s.value is not None and norm(s.value) != cls:
                    raise _NoModel(norm(s))
                continue
            if isinstance(s, ast.If):
                # a guard `if <nothing to add>: return cls`
                if inner and len(s.body) == 1 and isinstance(
                        s.body[0], ast.Return) and not s.orelse \
                        and norm(s.body[0].value) == cls:
                    t = s.test
                    parts = t.values if isinstance(t, ast.BoolOp) and \
                        isinstance(t.op, ast.And) else [t]
                    empt = []
                    for p_ in parts:
                        if not (isinstance(p_, ast.UnaryOp) and isinstance(
                                p_.op, ast.Not)):
                            raise _NoModel(norm(t))
                        o = p_.operand
                        if norm(o) == names_p:
                            empt.append('names')
                        else:
                            empt += ev(o, env, inner).layers
                    if not {'names', 'mappings'} <= set(empt):
                        problems.append((t, 'the decorator returns the class '
                                         'untouched although event names or '
                                         'mappings were given'))
                    continue
                raise _NoModel(norm(s.test))
            if isinstance(s, (ast.Assign, ast.AnnAssign)):
                tg = s.targets[0] if isinstance(s, ast.Assign) else s.target
                if isinstance(s, ast.Assign) and len(s.targets) != 1:
                    raise _NoModel('multiple targets')
                if norm(tg) == f'{cls}.__events__':
                    result.append((s, ev(s.value, env, inner)))
                    continue
                if isinstance(tg, ast.Name):
                    env[tg.id] = ev(s.value, env, inner)
                    continue
                if isinstance(tg, ast.Subscript) and isinstance(
                        tg.value, ast.Name) and tg.value.id in env:
                    raise _NoModel(norm(s))
                raise _NoModel(norm(tg))
            if isinstance(s, ast.AugAssign) and isinstance(s.op, ast.BitOr) \
                    and isinstance(s.target, ast.Name) \
                    and s.target.id in env:
                t_ = env[s.target.id]
                mutate(t_, s, f'{norm(s.target)} |= ...')
                t_.layers = ev(s.value, env, inner).layers + t_.layers
                continue
            if isinstance(s, ast.Expr) and isinstance(s.value, ast.Call) \
                    and isinstance(s.value.func, ast.Attribute) \
                    and s.value.func.attr == 'update' \
                    and isinstance(s.value.func.value, ast.Name) \
                    and s.value.func.value.id in env \
                    and len(s.value.args) == 1 and not s.value.keywords:
                t_ = env[s.value.func.value.id]
                mutate(t_, s.value, norm(s.value.func) + '(...)')
                t_.layers = ev(s.value.args[0], env, inner).layers + t_.layers
                continue
            if isinstance(s, ast.Expr) and isinstance(s.value, ast.Call) \
                    and dotted(s.value.func) == 'setattr' \
                    and len(s.value.args) == 3 \
                    and norm(s.value.args[0]) == cls and isinstance(
                        s.value.args[1], ast.Constant) \
                    and s.value.args[1].value == '__events__':
                result.append((s, ev(s.value.args[2], env, inner)))
                continue
            if isinstance(s, ast.For) and not s.orelse and isinstance(
                    s.target, ast.Tuple) and len(s.target.elts) == 2 \
                    and len(s.body) == 1:
                k_, v_ = [norm(x) for x in s.target.elts]
                src = ev(s.iter, env, inner)
                b = s.body[0]
                if isinstance(b, ast.Expr) and isinstance(b.value, ast.Call) \
                        and isinstance(b.value.func, ast.Attribute) \
                        and b.value.func.attr == 'setdefault' \
                        and isinstance(b.value.func.value, ast.Name) \
                        and b.value.func.value.id in env \
                        and [norm(x) for x in b.value.args] == [k_, v_]:
                    t_ = env[b.value.func.value.id]
                    mutate(t_, b.value, norm(b.value.func) + '(...)')
                    t_.layers = t_.layers + src.layers
                    continue
                if isinstance(b, ast.Assign) and len(b.targets) == 1 \
                        and isinstance(b.targets[0], ast.Subscript) \
                        and isinstance(b.targets[0].value, ast.Name) \
                        and b.targets[0].value.id in env \
                        and norm(b.targets[0].slice) == k_ \
                        and norm(b.value) == v_:
                    t_ = env[b.targets[0].value.id]
                    mutate(t_, b, norm(b.targets[0]) + ' = ...')
                    t_.layers = src.layers + t_.layers
                    continue
            raise _NoModel(f'statement at line {s.lineno}')

    env = {}
    run([s for s in f.node.body if not isinstance(s, ast.Return)], env, False)
    # what the outer function built is shared by every application
    for v in env.values():
        v.fresh = False
        v.what = v.what if not v.fresh and v.what and 'class' in v.what \
            else 'a mapping built once per decorator object'
    run(dec.body, env, True)
    return result, problems


def check_mapping(program, rep):
    f = program.func('desper.events', 'event_handler')
    inner = [n for n in ast.walk(f.node) if isinstance(n, ast.FunctionDef)
             and n is not f.node]
    if len(inner) != 1:
        rep.inconclusive('C03.mapping', f.where, f.node.name,
                         'decorator without a single inner function')
        return
    dec = inner[0]
    cls = dec.args.args[0].arg
    site = f.where
    try:
        result, problems = eval_mapping(f, dec, cls)
    except _NoModel:
        result = None
    if result is not None and len(result) == 1:
        st_, val = result[0]
        for node, why in problems[:1]:
            rep.bad('C03.mapping', site, node, why,
                    line=getattr(node, 'lineno', dec.lineno))
        if not problems:
            rep.ok('C03.mapping', site, 'inherited __events__',
                   'no mapping shared with another class is changed in place',
                   line=dec.lineno)
        rep.check(val.fresh, 'C03.mapping', site, st_,
                  'cls.__events__ is assigned a fresh mapping',
                  f'cls.__events__ is assigned {val.what or "a shared mapping"} '
                  'itself: several classes share one dict', line=st_.lineno)
        seen = []
        for l_ in val.layers:
            if l_ not in seen:
                seen.append(l_)
        rep.check(seen == ['mappings', 'names', 'inherited'], 'C03.mapping',
                  site, st_,
                  'explicit mappings override plain names, which override '
                  'the inherited entries; all three are kept',
                  f'cls.__events__ is composed with precedence {seen} '
                  "(first wins), not ['mappings', 'names', 'inherited']: "
                  'inherited entries override the class\'s own, or some of '
                  'the events are lost', line=st_.lineno)
        return
    borrowed = set()
    for n in ast.walk(dec):
        if isinstance(n, ast.Assign) and len(n.targets) == 1 and isinstance(
                n.targets[0], ast.Name):
            v = n.value
            if isinstance(v, ast.Call) and dotted(v.func) == 'getattr' \
                    and len(v.args) >= 2 and norm(v.args[0]) == cls \
                    and isinstance(v.args[1], ast.Constant) \
                    and v.args[1].value == '__events__':
                borrowed.add(n.targets[0].id)
            elif norm(v) == f'{cls}.__events__':
                borrowed.add(n.targets[0].id)
    # in-place mutation of a borrowed mapping
    mut = None
    for n in ast.walk(dec):
        if isinstance(n, ast.AugAssign) and isinstance(n.target, ast.Name) \
                and n.target.id in borrowed:
            mut = n
        if isinstance(n, ast.Call) and isinstance(n.func, ast.Attribute) \
                and isinstance(n.func.value, ast.Name) \
                and n.func.value.id in borrowed and n.func.attr in (
                    'update', 'setdefault', 'pop', 'clear', '__setitem__',
                    'popitem', '__ior__'):
            mut = n
        if isinstance(n, (ast.Assign, ast.Delete)):
            for t in (n.targets if isinstance(n, (ast.Assign, ast.Delete))
                      else []):
                if isinstance(t, ast.Subscript) and isinstance(
                        t.value, ast.Name) and t.value.id in borrowed:
                    mut = n
        if isinstance(n, ast.AugAssign) and norm(n.target) \
                == f'{cls}.__events__':
            mut = n
        if isinstance(n, ast.Call) and norm(n.func).startswith(
                f'{cls}.__events__.') and n.func.attr in (
                    'update', 'setdefault', 'pop', 'clear'):
            mut = n
    rep.check(mut is None, 'C03.mapping', site,
              mut if mut is not None else 'inherited __events__',
              'the inherited mapping is never mutated in place',
              'the mapping obtained from the (base) class is updated in '
              'place: decorating a subclass adds its events to the base '
              "class's __events__ (base instances get foreign callbacks, or "
              'add_handler raises AttributeError)',
              line=getattr(mut, 'lineno', dec.lineno))
    assigns = [n for n in ast.walk(dec) if isinstance(n, ast.Assign) and any(
        norm(t) == f'{cls}.__events__' for t in n.targets)]
    sets = [n for n in ast.walk(dec) if isinstance(n, ast.Call)
            and dotted(n.func) == 'setattr' and len(n.args) == 3
            and isinstance(n.args[1], ast.Constant)
            and n.args[1].value == '__events__']
    if len(assigns) + len(sets) != 1:
        rep.inconclusive('C03.mapping', site, dec.name,
                         f'{len(assigns) + len(sets)} assignments of '
                         'cls.__events__')
        return
    v = assigns[0].value if assigns else sets[0].args[2]
    # the composition may live in a private helper
    class _M:
        module = f.module
    v = evrules.beta_reduce(program, _M, v)
    fresh, leftmost = _fresh_merge(v, borrowed, cls)
    if isinstance(v, ast.Name) and v.id not in borrowed:
        # `events = dict(<inherited>)` (a copy), then updated in place with the
        # class's own names: the inherited entries come first, own ones win
        defs = [n.value for n in ast.walk(dec) if isinstance(n, ast.Assign)
                and len(n.targets) == 1 and isinstance(
                    n.targets[0], ast.Name) and n.targets[0].id == v.id]
        if len(defs) == 1:
            d0 = defs[0]
            src = None
            if isinstance(d0, ast.Call) and dotted(d0.func) == 'dict' \
                    and len(d0.args) == 1 and not d0.keywords:
                src = d0.args[0]
            elif isinstance(d0, ast.Call) and isinstance(
                    d0.func, ast.Attribute) and d0.func.attr == 'copy' \
                    and not d0.args:
                src = d0.func.value
            elif isinstance(d0, ast.Dict) and d0.keys and d0.keys[0] is None:
                src = d0.values[0]
            if src is not None and not _fresh_merge(src, borrowed, cls)[0]:
                fresh, leftmost = True, True
    rep.check(fresh, 'C03.mapping', site, assigns[0] if assigns else sets[0],
              'cls.__events__ is assigned a fresh mapping',
              'cls.__events__ is assigned the borrowed (inherited) mapping '
              'object itself: base and subclass share one dict',
              line=(assigns or sets)[0].lineno)
    rep.check(leftmost, 'C03.mapping', site, v,
              'the inherited mapping is the leftmost operand of the merge '
              '(own names override inherited ones)',
              'the merge does not put the inherited mapping first: inherited '
              'entries override the class\'s own, or inherited events are '
              'lost', line=(assigns or sets)[0].lineno)


def _fresh_merge(v, borrowed, cls='cls'):
    """(is a fresh object, inherited mapping is leftmost operand)."""
    def is_b(n):
        if isinstance(n, ast.Name):
            return n.id in borrowed
        if isinstance(n, ast.Call) and dotted(n.func) == 'getattr' and len(
                n.args) >= 2 and norm(n.args[0]) == cls and isinstance(
                    n.args[1], ast.Constant) and n.args[1].value == \
                '__events__':
            return True
        return norm(n) == f'{cls}.__events__'
    if isinstance(v, ast.Name) or is_b(v):
        return (not is_b(v)), False
    if isinstance(v, ast.BinOp) and isinstance(v.op, ast.BitOr):
        ops = []

        def flat(n):
            if isinstance(n, ast.BinOp) and isinstance(n.op, ast.BitOr):
                flat(n.left)
                flat(n.right)
            else:
                ops.append(n)
        flat(v)
        first = ops[0]
        return True, is_b(first)
    if isinstance(v, ast.Dict):
        if v.keys and v.keys[0] is None and is_b(v.values[0]):
            return True, True
        return True, False
    if isinstance(v, ast.Call) and dotted(v.func) in ('dict', 'ChainMap'):
        if dotted(v.func) == 'dict' and v.args and is_b(v.args[0]):
            return True, True
        return True, False
    return True, False


def check_memo(program, rep):
    from .util import check_memo_invalidation
    disp = evrules.dispatcher_class(program)
    n = check_memo_invalidation(
        program, rep, 'C03.tables', disp, ('dispatch', 'is_handler'),
        (EVENTS.split('.')[-1], HANDLERS.split('.')[-1]),
        'a handler removed (or a dispatcher cleared) meanwhile is still '
        'called from the remembered snapshot, a new one is not')
    rep.floor('C03.tables', 'query methods of the dispatcher', n, 2)


def check_identity(program, rep):
    """Each registered handler is one listener.  A plain `weakref.ref` hashes
    and compares like its (live) referent: two DISTINCT handlers that are
    equal - instances of a value-equality class, e.g. a frozen dataclass
    decorated with @event_handler - give equal references, so the second
    registration finds key and set elements already present and disappears:
    that handler is never called, is_handler() answers for both, and removing
    one removes "both".  An identity-comparing reference (a subclass of
    weakref.ref defining __eq__ / __hash__) or an id() key is what the
    statement needs."""
    disp = evrules.dispatcher_class(program)
    f = program.method('EventDispatcher', 'add_handler', inherited=False)
    # the identity reference itself: its equality may ask whether the referent
    # is GONE (`is None`), never whether it is truthy - a live handler that is
    # an empty container would compare like a dead one: is_handler() denies
    # it, remove_handler() finds nothing, a second add_handler() duplicates
    for cname_, modname_ in (getattr(program, 'identity_refs', None)
                             or {}).items():
        cd_ = [n for n in program.modules[modname_].tree.body
               if isinstance(n, ast.ClassDef) and n.name == cname_][0]
        for m_ in [n for n in cd_.body if isinstance(n, ast.FunctionDef)
                   and n.name in ('__eq__', '__ne__', '__hash__')]:
            derefs = {t.id for a_ in ast.walk(m_) if isinstance(a_, ast.Assign)
                      and isinstance(a_.value, ast.Call) and isinstance(
                          a_.value.func, ast.Name) and not a_.value.args
                      for t in a_.targets if isinstance(t, ast.Name)}
            for x in ast.walk(m_):
                tests = []
                if isinstance(x, (ast.If, ast.IfExp, ast.While)):
                    tests.append(x.test)
                if isinstance(x, ast.BoolOp):
                    tests += x.values
                if isinstance(x, ast.UnaryOp) and isinstance(x.op, ast.Not):
                    tests.append(x.operand)
                for t_ in tests:
                    if isinstance(t_, ast.UnaryOp) and isinstance(
                            t_.op, ast.Not):
                        t_ = t_.operand
                    if (isinstance(t_, ast.Name) and t_.id in derefs) or (
                            isinstance(t_, ast.Call) and isinstance(
                                t_.func, ast.Name) and t_.func.id in (
                                    'self', 'other') and not t_.args):
                        rep.bad('C03.identity',
                                f'{program.modules[modname_].relpath}:'
                                f'{cname_}.{m_.name}', x,
                                f'{cname_}.{m_.name} decides by the TRUTH '
                                'VALUE of the referent: a registered handler '
                                'that is alive but falsy (an empty container '
                                'component, __bool__ False) compares like a '
                                'dead one - is_handler() denies it, '
                                'remove_handler() leaves it registered, a '
                                'second add_handler() doubles its deliveries',
                                line=x.lineno)
                        return
    if getattr(program, 'identity_refs', None) and any(
            'identity-comparing reference class' in l and f.where in l
            for l in program.normalised):
        rep.ok('C03.identity', f.where, 'weakref.ref subclass',
               'handlers are filed under a reference class that compares and '
               f'hashes by identity ({", ".join(program.identity_refs)})',
               line=f.node.lineno)
        return
    refs = [n for n in ast.walk(f.node) if isinstance(n, ast.Call)
            and (dotted(n.func) or '').split('.')[-1] in ('ref', 'WeakMethod')
            and (dotted(n.func) or '').startswith(('weakref.', 'ref'))]
    keyed = [n for n in refs if dotted(n.func) in ('weakref.ref', 'ref')]
    if not refs:
        own = [n for n in ast.walk(f.node) if isinstance(n, ast.Call)
               and program.lookup_class(f.module, dotted(n.func) or '')
               is not None and any('ref' in b for b in program.lookup_class(
                   f.module, dotted(n.func)).ext_bases)]
        if own and '__eq__' in program.lookup_class(
                f.module, dotted(own[0].func)).methods:
            rep.ok('C03.identity', f.where, own[0],
                   'listeners are keyed by a reference class that defines '
                   'its own equality', line=own[0].lineno)
        else:
            rep.inconclusive('C03.identity', f.where, f.node.name,
                             'the key under which a handler is registered '
                             'was not recognised')
        return
    rep.check(not keyed, 'C03.identity', f.where,
              keyed[0] if keyed else refs[0],
              'handlers are told apart by identity',
              'handlers are filed under a plain weakref.ref, which hashes and '
              'compares like its referent: a second handler EQUAL to a '
              'registered one (value-equality class) is never called, and '
              'removing either removes both',
              line=(keyed or refs)[0].lineno)


def run(program, rep, tier):
    check_identity(program, rep)
    check_fresh_sets(program, rep)
    check_memo(program, rep)
    evrules.delivery_sites(program, rep, 'C03', {'deliver', 'snapshot',
                                                 'deref'})
    check_tables(program, rep)
    check_unknown(program, rep)
    check_mapping(program, rep)
