"""C01 - World queries always agree on who owns which component."""
import ast
import itertools

from dlint.model import AnalysisError, dotted, norm, strip_docstring
from dlint.walk import Domain, Walker, fold_truth, loopvar_name
from rules.lifecycle import chain, unwrap_iter, instantiate, Summary, unget

EXPLANATION = (
    'Coupled-structure check of the two tables of World by abstract '
    'interpretation over symbolic keys. Representation invariant: '
    'T in _entities[e]  <=>  e in _components[T] (transpose) and no empty row '
    'in _entities. Every World method that writes a table is walked path by '
    'path (PathEval; loops 0/1/2; callees that write tables are verified once '
    'for symbolic parameters and used through their summaries); every table '
    'operation updates membership facts about the symbolic (entity, type) '
    'pairs it names, starting from "the pair is in both tables or in neither"; '
    'at every normal exit each pair must again be in both or in neither '
    '(rules pair/atomic), whole-row and whole-index-entry creations / '
    'deletions must be justified by an absence / emptiness test or by a '
    'completed de-indexing loop, an entity row emptied by an item delete must '
    'be dropped (rows), the reader methods must compute the stated functions '
    'of the tables (read: truth tables over the atoms inE / inDEAD, return '
    'expressions), automatic ids reach their first use as a key only through '
    'the false edge of "<id> in self._entities" (fresh-id), and only World '
    'touches the tables (owners, scope rule). The induction over histories '
    'from these step obligations is the written argument of DESIGN.md '
    'appendix C.')
RULE = ('one obligation per (rule, function, statement or symbolic pair); '
        'non-trivial when the function writes or reads a table')
NOT_DECIDED = [
    'exactly-once under multiple inheritance (C06)',
    'identifiers with inconsistent __eq__/__hash__',
    're-entrant mutation by on_remove callbacks running inside a row teardown',
]
ASSUMPTIONS = ['dict/set operations touch only the key they name (frame)',
               'component values are never the object None']

E, C, DEAD = 'self._entities', 'self._components', 'self._dead_entities'


class Var:
    """Unknown initial membership of a pair (same in both tables)."""
    _n = itertools.count()

    def __init__(self, name, initial=False):
        self.name = name
        self.initial = initial

    def __repr__(self):
        return f'?{self.name}'


class PairDomain(Domain):
    loop_bound = 2
    inline_depth = 4
    PRIMITIVES = {'add_handler', 'remove_handler', 'dispatch', 'is_handler',
                  '_remove_weak_handler'}

    def __init__(self, program, summaries, analyse):
        super().__init__(program)
        self.summaries = summaries
        self.analyse = analyse
        self.problems = []

    def init_state(self, st, func, cls):
        st.data.update(inE={}, inC={}, bind={}, issues=[], rowloops={},
                       deindexed={}, rows_gone=set(), emptied=[], created=[],
                       ops=0, itercount={}, rowknown={}, idxknown={},
                       summary_calls=[], conds=[], rowdrops=[], cdrops=[])

    # ---- facts -----------------------------------------------------------
    def _val(self, st, table, e, T):
        d = st.data[table]
        k = (e, T)
        if k not in d:
            other = st.data['inC' if table == 'inE' else 'inE']
            if e in st.data['rows_gone'] and k not in other:
                # the row was dropped (justified by emptiness / a completed
                # de-indexing loop): the entity owns nothing, in both tables
                d[k] = False
                other[k] = False
            elif e in st.data['rows_gone'] and table == 'inE':
                d[k] = False
            else:
                other = st.data['inC' if table == 'inE' else 'inE']
                if k in other and isinstance(other[k], Var):
                    d[k] = other[k]
                else:
                    v = Var(f'{T} of {e}', initial=True)
                    d[k] = v
                    if k not in other:
                        other[k] = v
        v = d[k]
        while isinstance(v, Var) and v.name in st.data['bind']:
            v = st.data['bind'][v.name]
        return v

    def _set(self, st, table, e, T, val):
        self._val(st, table, e, T)      # make sure the pair is initialised
        st.data[table][(e, T)] = val
        st.data['ops'] += 1

    def _assume(self, st, table, e, T, truth):
        """Condition says membership == truth. False if contradictory."""
        v = self._val(st, table, e, T)
        if isinstance(v, Var):
            st.data['bind'][v.name] = truth
            return True
        return v == truth

    def _issue(self, st, rule, node, why, fn):
        st.data['issues'].append((rule, fn, norm(node),
                                  getattr(node, 'lineno', None), why))

    # ---- walker hooks ------------------------------------------------------
    def resolve_call(self, st, call, walker):
        r = walker.default_resolve(st, call)
        if r is None:
            return walker.resolve_helper(st, call)
        f = r[0]
        if f.name in self.PRIMITIVES:
            return None
        if f.cls is not None and f.cls.name != 'EventDispatcher':
            summ = self.analyse(f, r[1])
            if summ is not None and summ.has_sites:
                if not getattr(summ, 'inline_only', False):
                    return None
                summ.inlined = True
        return r

    def for_counts(self, st, node, itersym):
        prev = st.data['itercount'].get(itersym.text)
        if prev is not None:
            return [prev]
        return [0, 1, 2]

    def bind_loop_var(self, st, node, i, itersym, sym):
        base, view = unwrap_iter(itersym.node)
        b, keys = chain(base)
        if b == E and len(keys) == 1:
            e = norm(keys[0])
            item = sym.text
            T = f'{item}[0]' if view == 'items' else (
                None if view == 'values' else item)
            if T is not None:
                # the loop variable names a type that is in the row
                self._assume(st, 'inE', e, T, True)

    def leave_loop(self, st, node, itersym, complete, count):
        if not complete:
            return
        st.data['itercount'][itersym.text] = count
        base, view = unwrap_iter(itersym.node)
        b, keys = chain(base)
        if b == E and len(keys) == 1 and view in ('items', 'keys'):
            e = norm(keys[0])
            ok = True
            for i in range(count):
                item = loopvar_name(itersym.text, i)
                T = f'{item}[0]' if view == 'items' else item
                if self._val(st, 'inC', e, T) is not False:
                    ok = False
            st.data['deindexed'][e] = (ok, itersym.text, view, count,
                                       st.versions.get(E, 0))

    def decide(self, st, sym, node):
        n = sym.node
        r = self._membership(n)
        if r is not None:
            table, e, T = r
            v = self._val(st, table, e, T)
            if isinstance(v, bool):
                return v
            return None
        if isinstance(n, ast.Compare) and len(n.ops) == 1 and isinstance(
                n.ops[0], ast.Is) and isinstance(
                    n.comparators[0], ast.Constant) \
                and n.comparators[0].value is None:
            b, keys = chain(n.left)
            if b == E and len(keys) == 2:
                return False
            if isinstance(n.left, ast.Call) and isinstance(
                    n.left.func, ast.Attribute) and n.left.func.attr == 'pop' \
                    and len(n.left.args) == 1:
                b, keys = chain(n.left.func.value)
                if b == E and len(keys) == 1:
                    return False
        return fold_truth(n)

    def _membership(self, n):
        """T in E[e] / T in E.get(e, {}) -> ('inE', e, T);
        e in C[T] / e in C.get(T, ..) -> ('inC', e, T)."""
        if isinstance(n, ast.Compare) and len(n.ops) == 1 and isinstance(
                n.ops[0], ast.In):
            left, right = n.left, n.comparators[0]
            b, keys = chain(right)
            if b in (E, C) and len(keys) == 1:
                k = norm(keys[0])
            else:
                return None
            if b == E:
                return 'inE', k, norm(left)
            return 'inC', norm(left), k
        return None

    def on_event(self, st, ev):
        st.trace.append(ev)
        k = ev.kind
        if k == 'cond':
            st.data['conds'].append((unget(ev.sym.text), ev.extra,
                                     dict(st.versions)))
            r = self._membership(ev.sym.node)
            if r is not None:
                if not self._assume(st, r[0], r[1], r[2], ev.extra):
                    return []       # infeasible path
        elif k == 'call' and ev.func is None:
            self._call(st, ev)
        elif k == 'store':
            self._store(st, ev)
        elif k == 'del':
            self._del(st, ev)
        return [(None, st)]

    def _fn(self, ev):
        return ev.frame_func.qualname if ev.frame_func else '?'

    def _known(self, st, text, truth, field):
        """Was `text` decided `truth` with the current version of field?"""
        cur = st.versions.get(field, 0)
        for t, tr, vers in reversed(st.data['conds']):
            if t == text:
                # decided, and the table was not mutated since it was
                # evaluated (an alias of a row / index entry is the live
                # container, so evaluation time is what matters)
                return tr == truth and vers.get(field, 0) == cur
        return False

    def _store(self, st, ev):
        b, keys = chain(ev.target.node)
        fn = self._fn(ev)
        if b == E:
            if len(keys) == 2:
                vers = [v for f_, v in (set(ev.target.stamp)
                                        | set(ev.target.binds)) if f_ == E]
                tv = min(vers) if vers else st.versions.get(E, 0)
                if any(ver > tv and ee == norm(keys[0])
                       for ver, ee in st.data['rowdrops']):
                    self._issue(st, 'atomic', ev.node,
                                'the component is stored through a reference '
                                f'to the row of entity {norm(keys[0])} that '
                                'was taken before a call which may have '
                                'dropped that row: the store lands in a '
                                'detached dict, the type index keeps the '
                                'entity and get(T) raises KeyError', fn)
                self._set(st, 'inE', norm(keys[0]), norm(keys[1]), True)
                st.data['rows_gone'].discard(norm(keys[0]))
                st.data['emptied'] = [x for x in st.data['emptied']
                                      if x[0] != norm(keys[0])]
                st.data['created'] = [x for x in st.data['created']
                                      if x[0] != norm(keys[0])]
            elif len(keys) == 1:
                e = norm(keys[0])
                v = ev.sym.node
                empty = (isinstance(v, ast.Dict) and not v.keys) or (
                    isinstance(v, ast.Call) and dotted(v.func) == 'dict'
                    and not v.args and not v.keywords)
                if not empty:
                    self.problems.append((fn, ev.node, 'a whole row is stored '
                                          'into _entities'))
                    return
                if not (self._known(st, f'{e} in {E}', False, E)
                        or e in st.data['rows_gone']):
                    self._issue(st, 'pair', ev.node,
                                f'the row of entity {e} is replaced by an '
                                'empty one without a test that it is absent: '
                                'its components vanish from the per-entity '
                                'table while the type index still lists them',
                                fn)
                st.data['created'].append((e, ev.node, fn))
                st.data['rows_gone'].discard(e)
            elif len(keys) == 0 and not fn.endswith('__init__'):
                self._issue(st, 'pair', ev.node, 'the per-entity table is '
                            'rebound outside the constructor', fn)
        elif b == C:
            if len(keys) == 1:
                T = norm(keys[0])
                v = ev.sym.node
                empty = (isinstance(v, ast.Call) and dotted(v.func) == 'set'
                         and not v.args) or (isinstance(v, ast.Set)
                                             and not v.elts)
                if not empty:
                    self.problems.append((fn, ev.node, 'a whole index entry '
                                          'is stored into _components'))
                    return
                if not self._known(st, f'{T} in {C}', False, C):
                    self._issue(st, 'pair', ev.node,
                                f'the index entry of type {T} is replaced by '
                                'an empty set without a test that it is '
                                'absent: get(T) forgets every other owner', fn)
            elif len(keys) == 0 and not fn.endswith('__init__'):
                self._issue(st, 'pair', ev.node, 'the type index is rebound '
                            'outside the constructor', fn)

    def _row_delete(self, st, e, node, fn):
        if self._known(st, f'{E}[{e}]', False, E):
            st.data['rows_gone'].add(e)
            for (ee, T) in list(st.data['inE']):
                if ee == e:
                    st.data['inE'][(ee, T)] = False
            st.data['emptied'] = [x for x in st.data['emptied'] if x[0] != e]
            return
        st.data['rowdrops'].append((st.versions.get(E, 0) + 1, e))
        rec = st.data['deindexed'].get(e)
        if rec is None:
            self._issue(st, 'pair', node,
                        f'the row of entity {e} is deleted without de-indexing '
                        'its component types first (no completed loop over '
                        'the row, no emptiness test): get(T) raises KeyError '
                        'for the stale index entries', fn)
        else:
            ok, itertext, view, count, ver = rec
            if not ok:
                self._issue(st, 'pair', node,
                            f'the loop over the row of entity {e} does not '
                            'remove the entity from the index of every type '
                            'it visits, yet the row is deleted', fn)
            if ver != st.versions.get(E, 0):
                self._issue(st, 'pair', node,
                            f'the row of entity {e} changed between the '
                            'de-indexing loop and its deletion', fn)
        st.data['rows_gone'].add(e)
        for (ee, T) in list(st.data['inE']):
            if ee == e:
                st.data['inE'][(ee, T)] = False
        st.data['emptied'] = [x for x in st.data['emptied'] if x[0] != e]
        st.data['ops'] += 1

    def _del(self, st, ev):
        b, keys = chain(ev.target.node)
        fn = self._fn(ev)
        if b == E:
            if len(keys) == 2:
                e, T = norm(keys[0]), norm(keys[1])
                self._set(st, 'inE', e, T, False)
                st.data['emptied'].append((e, ev.node, fn))
            elif len(keys) == 1:
                self._row_delete(st, norm(keys[0]), ev.node, fn)
        elif b == C and len(keys) == 1:
            T = norm(keys[0])
            if not self._known(st, f'{C}[{T}]', False, C):
                self._issue(st, 'pair', ev.node,
                            f'the index entry of type {T} is deleted without '
                            'a test that it is empty: the other owners of '
                            'that type disappear from get(T)', fn)
            st.data['cdrops'].append(st.versions.get(C, 0) + 1)
            st.data['ops'] += 1

    def _call(self, st, ev):
        cn = ev.sym.node
        if not isinstance(cn, ast.Call) or (ev.extra or {}).get('in_comp'):
            return
        fn = self._fn(ev)
        f = cn.func
        d = dotted(f)
        if isinstance(f, ast.Attribute):
            b, keys = chain(f.value)
            m = f.attr
            args = [norm(a) for a in cn.args]
            if b == C and len(keys) == 1 and args:
                T = norm(keys[0])
                if m == 'add':
                    vers = [v for f_, v in (set(ev.sym.stamp)
                                            | set(ev.sym.binds)) if f_ == C]
                    tv = min(vers) if vers else st.versions.get(C, 0)
                    if any(ver > tv for ver in st.data['cdrops']):
                        self._issue(st, 'atomic', ev.node,
                                    f'the entity is added through a '
                                    f'reference to the owner set of {T} that '
                                    'was taken before a call which may have '
                                    'freed that index entry: it lands in an '
                                    'orphaned set - get(T) no longer lists '
                                    'the component that get_component still '
                                    'finds, and removing it raises KeyError',
                                    fn)
                    self._set(st, 'inC', args[0], T, True)
                    return
                if m in ('discard', 'remove'):
                    self._set(st, 'inC', args[0], T, False)
                    return
            if b == C and len(keys) == 0:
                if m == 'setdefault' and len(args) == 2:
                    return
                if m == 'pop' and args:
                    if not self._known(st, f'{C}[{args[0]}]', False, C):
                        self._issue(st, 'pair', ev.node, 'index entry popped '
                                    'without an emptiness test', fn)
                    return
                if m == 'clear':
                    self._issue(st, 'pair', ev.node, 'the type index is wiped',
                                fn)
                    return
            if b == E and len(keys) == 1 and m == 'pop' and args:
                self._set(st, 'inE', norm(keys[0]), args[0], False)
                st.data['emptied'].append((norm(keys[0]), ev.node, fn))
                return
            if b == E and len(keys) == 0:
                if m == 'pop' and args:
                    self._row_delete(st, args[0], ev.node, fn)
                    return
                if m == 'setdefault' and len(args) == 2:
                    return
                if m == 'clear':
                    self._issue(st, 'pair', ev.node, 'the per-entity table is '
                                'wiped while the type index keeps its entries',
                                fn)
                    return
            if b in (E, C) and m in ('update', 'popitem', 'clear',
                                     'difference_update',
                                     'intersection_update', '__setitem__'):
                self.problems.append((fn, ev.node,
                                      f'table mutated through .{m}()'))
                return
        if d is not None and d.startswith('self.') and d.count('.') == 1:
            summ = self.summaries.get(d.split('.')[1])
            if summ is not None and summ.has_sites and not getattr(
                    summ, 'inline_only', False):
                self._apply_summary(st, summ, cn, fn, ev)

    def _apply_summary(self, st, summ, cn, fn, ev):
        mapping = summ.bind(cn)
        if mapping is None:
            self.problems.append((fn, ev.node, 'call of a table-writing '
                                  'method with arguments the rule cannot '
                                  'bind'))
            return
        live = []
        for ex in summ.exits:
            ok = True
            for text, truth in ex['entry']:
                t2 = instantiate(text, mapping)
                try:
                    node = ast.parse(t2, mode='eval').body
                except SyntaxError:
                    continue
                r = self._membership(node)
                if r is not None:
                    v = self._val(st, r[0], r[1], r[2])
                    if isinstance(v, bool) and v != truth:
                        ok = False
                        break
                else:
                    m = st.memo.get(t2)
                    if m is not None and all(st.versions.get(f, 0) == v
                                             for f, v in m[1]) \
                            and m[0] != truth:
                        ok = False
                        break
            if ok:
                live.append(ex)
        pairs = {}
        gone = None
        if any(ex.get('cslot_gone') for ex in live):
            st.data['cdrops'].append(st.versions.get(C, 0) + 1)
        for ex in live:
            for x in ex['rows_gone']:
                st.data['rowdrops'].append((st.versions.get(E, 0) + 1,
                                            instantiate(x, mapping)))
            g = {instantiate(x, mapping) for x in ex['rows_gone']}
            gone = g if gone is None else gone & g
            for (e, T), (ve, vc) in ex['final'].items():
                k = (instantiate(e, mapping), instantiate(T, mapping))
                pairs.setdefault(k, []).append((ve, vc))
        for k, vals in pairs.items():
            self._val(st, 'inE', *k)
            self._val(st, 'inC', *k)
            fresh = None
            for idx, table in ((0, 'inE'), (1, 'inC')):
                col = [v[idx] for v in vals]
                if len(vals) == len(live) and all(c == 'same' for c in col):
                    continue                    # untouched by the callee
                if len(vals) == len(live) and all(
                        isinstance(c, bool) for c in col) \
                        and len(set(col)) == 1:
                    st.data[table][k] = col[0]
                    continue
                # differs between exits: unknown; the callee was verified
                # to leave the pair consistent, so both tables share it
                if fresh is None:
                    fresh = Var(f'{k[1]} of {k[0]} after {summ.name}')
                st.data[table][k] = fresh
            if fresh is not None:
                # a pair that is unknown after the call is unknown in both
                # tables (and equal, as verified in the callee)
                for idx, table in ((0, 'inE'), (1, 'inC')):
                    col = [v[idx] for v in vals]
                    if not (len(vals) == len(live) and all(
                            isinstance(c, bool) for c in col)
                            and len(set(col)) == 1):
                        st.data[table][k] = fresh
        for g in (gone or ()):
            st.data['rows_gone'].add(g)
            for (ee, T) in list(st.data['inE']):
                if ee == g:
                    st.data['inE'][(ee, T)] = False
                    st.data['inC'][(ee, T)] = False
            st.data['emptied'] = [x for x in st.data['emptied'] if x[0] != g]
        st.bump(E)
        st.bump(C)
        st.data['summary_calls'].append(summ.name)
        st.data['ops'] += 1


def exit_check(dom, st, results, fn_name):
    """Pairs must be in both tables or in neither; emptied rows dropped."""
    d = st.data
    for rule, fn, text, line, why in d['issues']:
        results.setdefault((rule, fn, text, line), {'ok': 0, 'bad': []})[
            'bad'].append({'why': why, 'path': _path(st)})
    keys = set(d['inE']) | set(d['inC'])
    for k in sorted(keys):
        ve = dom._val(st, 'inE', *k)
        vc = dom._val(st, 'inC', *k)
        same = (ve is vc) or (isinstance(ve, bool) and isinstance(vc, bool)
                              and ve == vc)
        r = results.setdefault(('pair', fn_name, f'pair ({k[0]}, {k[1]})',
                                None), {'ok': 0, 'bad': []})
        if same:
            r['ok'] += 1
        else:
            r['bad'].append({
                'why': f'at exit the component table says {_s(ve)} and the '
                       f'type index says {_s(vc)} for entity {k[0]}, type '
                       f'{k[1]}: get(T), get_component and has_component '
                       'disagree from here on',
                'path': _path(st)})
    # rows emptied by an item delete must be dropped (or proved non-empty)
    for e, node, fn in d['emptied']:
        r = results.setdefault(('rows', fn, norm(node), node.lineno),
                               {'ok': 0, 'bad': []})
        if dom._known(st, f'{E}[{e}]', True, E):
            r['ok'] += 1
        else:
            r['bad'].append({
                'why': f'an item is deleted from the row of entity {e} and '
                       'the row is neither dropped when empty nor shown '
                       'non-empty afterwards: `entities` / entity_exists name '
                       'an entity that owns nothing',
                'path': _path(st)})
    for e, node, fn in d['created']:
        r = results.setdefault(('rows', fn, norm(node), node.lineno),
                               {'ok': 0, 'bad': []})
        r['bad'].append({
            'why': f'an empty row is created for entity {e} and no component '
                   'is stored into it on this path', 'path': _path(st)})
    for e, node, fn in []:
        pass


def _s(v):
    return {True: 'present', False: 'absent'}.get(v, f'unchanged ({v})')


def _path(st, limit=12):
    return [f'{"" if tr else "not "}({t})' for t, tr, _ in st.data['conds']][
        -limit:]


def analyse_writers(program, rep, only=None, prefix='C01', label='teardown'):
    world = program.cls('World')
    results = {}
    problems = []
    summaries = {}
    inprogress = set()
    stats = {}
    callers = {}
    per_method = {}

    def analyse(m, c):
        if m.name in summaries:
            return summaries[m.name]
        if m.name in inprogress:
            return None
        inprogress.add(m.name)
        dom = PairDomain(program, summaries, analyse)
        w = Walker(program, dom)
        exits = w.run(m, c)
        summ = Summary(m)
        results_m = {}
        npaths = 0
        for ex in exits:
            if ex.kind == 'raise':
                continue
            st = ex.state
            npaths += 1
            callers.setdefault(m.qualname, set()).update(
                st.data['summary_calls'])
            if st.data['ops']:
                summ.has_sites = True
            entry = []
            for text, truth, vers in st.data['conds']:
                if all(v == 0 for f, v in vers.items() if f in (E, C)):
                    entry.append((text, truth))
            final = {}
            for k in set(st.data['inE']) | set(st.data['inC']):
                ve, vc = dom._val(st, 'inE', *k), dom._val(st, 'inC', *k)
                final[k] = tuple('same' if isinstance(v, Var) and v.initial
                                 else v for v in (ve, vc))
            summ.exits.append({'entry': entry, 'final': final,
                               'rows_gone': set(st.data['rows_gone']),
                               'cslot_gone': bool(st.data['cdrops'])})
            if st.data['ops'] or st.data['issues']:
                exit_check(dom, st, results_m, m.qualname)
        private = m.name.startswith('_') and not m.name.startswith('__')
        summ.inline_only = private and (any(
            v['bad'] for v in results_m.values()) or bool(dom.problems))
        per_method[m.name] = (summ, results_m, list(dom.problems))
        stats[m.qualname] = {'paths': npaths, 'cut': w.cuts,
                             'writes_tables': summ.has_sites}
        inprogress.discard(m.name)
        summaries[m.name] = summ
        return summ

    for c in [world] + program.subclasses(world):
        for m in c.methods.values():
            if m.kind == 'method' and (only is None or m.name in only):
                analyse(m, c)
    # A private helper that performs one half of a paired update (its own
    # analysis reports a discrepancy) is judged in the context of its
    # callers, which inline it instead of using a summary.
    for name, (summ, results_m, problems_m) in per_method.items():
        if summ.inline_only and getattr(summ, 'inlined', False):
            continue
        for k, v in results_m.items():
            r = results.setdefault(k, {'ok': 0, 'bad': []})
            r['ok'] += v['ok']
            r['bad'] += v['bad']
        problems.extend(problems_m)
    site_of = lambda fn: f'{world.module.relpath}:{fn}'
    nwriters = sum(1 for v in stats.values() if v['writes_tables'])
    rep.count('paths', sum(v['paths'] for v in stats.values()))
    rep.extra['per_method'] = stats
    for (rule, fn, text, line), r in sorted(results.items(),
                                            key=lambda kv: (kv[0][1],
                                                            kv[0][3] or 0,
                                                            kv[0][2])):
        rname = 'C01.' + rule if prefix == 'C01' else \
            f'{prefix}.{label}-{rule}'
        if r['bad']:
            b = r['bad'][0]
            rep.bad(rname, site_of(fn), text, b['why'],
                    detail={'path': b['path'], 'failing_paths': len(r['bad']),
                            'conforming_paths': r['ok']}, line=line)
        elif r.get('deferred'):
            rep.ok(rname, site_of(fn), text,
                   'helper performing one half of a paired update; judged '
                   'through its callers ' + ', '.join(sorted(r['deferred'])),
                   line=line, nontrivial=False)
        else:
            rep.ok(rname, site_of(fn), text,
                   f'holds on all {r["ok"]} paths', line=line)
    for fn, node, why in problems:
        rep.inconclusive(f'{prefix}.pair', site_of(fn), node, why,
                         line=getattr(node, 'lineno', None))
    if only is None:
        rep.floor('C01.pair', 'World methods writing the tables', nwriters, 5)


# ---------------------------------------------------------------------------
def check_owners(program, rep):
    """Scope rule: only World touches the tables."""
    world = program.cls('World')
    inside = 0
    for f in program.all_functions():
        for n in ast.walk(f.node):
            if isinstance(n, ast.Attribute) and n.attr in (
                    '_entities', '_components', '_dead_entities'):
                if f.cls is not None and (f.cls is world or world in
                                          program.mro(f.cls)) \
                        and dotted(n) == 'self.' + n.attr:
                    inside += 1
                else:
                    rep.inconclusive(
                        'C01.owners', f.where, n,
                        f'{norm(n)} is accessed outside World: the per-writer '
                        'argument no longer covers every writer',
                        line=n.lineno)
    rep.floor('C01.owners', 'accesses of the tables inside World', inside, 20)
    if inside:
        rep.ok('C01.owners', f'{world.module.relpath}:World',
               '_entities/_components/_dead_entities',
               f'{inside} accesses, all on self inside World')


def _bool_eval(n, env):
    if isinstance(n, ast.BoolOp):
        vals = [_bool_eval(v, env) for v in n.values]
        return all(vals) if isinstance(n.op, ast.And) else any(vals)
    if isinstance(n, ast.UnaryOp) and isinstance(n.op, ast.Not):
        return not _bool_eval(n.operand, env)
    if isinstance(n, ast.Compare) and len(n.ops) == 1:
        key = (norm(n.left), norm(n.comparators[0]))
        if key in env:
            v = env[key]
            if isinstance(n.ops[0], ast.In):
                return v
            if isinstance(n.ops[0], ast.NotIn):
                return not v
    raise AnalysisError(f'cannot evaluate {norm(n)}')


def _filter_kind(program, f, call):
    """'filter' / 'filterfalse' for a call of the builtin or of
    itertools.filterfalse under any import alias, else None."""
    d = dotted(call.func) or ''
    if d == 'filter':
        return 'filter'
    if d in ('filterfalse', 'itertools.filterfalse'):
        return 'filterfalse'
    r = program.lookup(f.module, d) if d else None
    if r and r[0] == 'external' and str(r[1]).endswith(
            'itertools.filterfalse'):
        return 'filterfalse'
    return None


def check_readers(program, rep):
    world = program.cls('World')
    # entity_exists: truth table over (owns components, awaiting deletion),
    # every valuation walked as a path
    f = program.method('World', 'entity_exists')
    p = f.params()[1] if len(f.params()) > 1 else 'entity'

    class _TT(Domain):
        def __init__(self, program, ine, ind):
            super().__init__(program)
            self.v = {f'{p} in {E}': ine, f'{p} in {DEAD}': ind}

        def resolve_call(self, st, call, walker):
            return walker.resolve_helper(st, call)

        def decide(self, st, sym, node):
            t = unget(sym.text)
            if t in self.v:
                return self.v[t]
            return fold_truth(sym.node)
    bad = None
    unknown = None
    for ine in (False, True):
        for ind in (False, True):
            w = Walker(program, _TT(program, ine, ind))
            exits = w.run(f, world)
            vals = set()
            for ex in exits:
                if ex.kind != 'return' or ex.payload is None:
                    unknown = 'a path does not return a value'
                    continue
                n = ex.payload.node
                if isinstance(n, ast.Constant) and isinstance(n.value, bool):
                    vals.add(n.value)
                else:
                    try:
                        vals.add(_bool_eval(n, {(p, E): ine, (p, DEAD): ind}))
                    except AnalysisError as ex2:
                        unknown = str(ex2)
            if len(vals) != 1:
                unknown = unknown or f'{len(vals)} answers for one valuation'
            elif vals != {ine and not ind}:
                bad = (ine, ind, vals.pop())
    if unknown and bad is None:
        rep.inconclusive('C01.read', f.where, f.node.name, unknown,
                         line=f.node.lineno)
    else:
        rep.check(bad is None, 'C01.read', f.where,
                  'entity_exists: 4 valuations',
                  'entity_exists == (in _entities) and not (awaiting '
                  'deletion), by truth table',
                  f'entity_exists returns {bad[2] if bad else None} for '
                  f'(has components={bad[0] if bad else None}, awaiting '
                  f'deletion={bad[1] if bad else None})',
                  line=f.node.lineno)
    # entities
    f = program.method('World', 'entities')
    body = strip_docstring(f.node.body)
    verdict = None      # True ok / False wrong / None shape unknown
    why = 'the shape of `entities` is not understood'
    if len(body) == 1 and isinstance(body[0], ast.Return):
        v = body[0].value
        if isinstance(v, ast.Call) and dotted(v.func) in ('tuple', 'list') \
                and len(v.args) == 1:
            v = v.args[0]
        var = None
        tests = None
        if isinstance(v, (ast.GeneratorExp, ast.ListComp)) and len(
                v.generators) == 1:
            g = v.generators[0]
            base, view = unwrap_iter(g.iter)
            if dotted(base) == E and view == 'keys' and norm(v.elt) == norm(
                    g.target):
                var, tests = norm(g.target), list(g.ifs)
        elif isinstance(v, ast.Call) and _filter_kind(program, f, v) \
                and len(v.args) == 2 and dotted(unwrap_iter(v.args[1])[0]) \
                == E:
            neg = _filter_kind(program, f, v) == 'filter'
            p0 = v.args[0]
            var = '_e'
            if norm(p0) == f'{DEAD}.__contains__':
                t = ast.parse(f'_e in {DEAD}', mode='eval').body
            elif isinstance(p0, ast.Lambda) and len(p0.args.args) == 1:
                var = p0.args.args[0].arg
                t = p0.body
            else:
                t = None
            if t is not None:
                tests = [t if neg else ast.UnaryOp(ast.Not(), t)]
        if tests is not None:
            try:
                good = True
                for ind in (False, True):
                    env = {(var, DEAD): ind, (var, E): True}
                    keep = all(_bool_eval(c, env) for c in tests)
                    if keep != (not ind):
                        good = False
                verdict = good
                if not good:
                    why = ('the filter of `entities` does not keep exactly '
                           'the entities that are not awaiting deletion')
            except AnalysisError as ex:
                why = str(ex)
    if verdict is None:
        rep.inconclusive('C01.read', f.where, body[0] if body
                         else f.node.name, why, line=f.node.lineno)
    else:
        rep.check(verdict, 'C01.read', f.where,
                  body[0] if body else f.node.name,
                  '`entities` lists the keys of _entities that are not '
                  'awaiting deletion', why, line=f.node.lineno)
    # get_components
    f = program.method('World', 'get_components')
    p = f.params()[1]
    rets = [n for n in ast.walk(f.node) if isinstance(n, ast.Return)]
    good = len(rets) == 1 and norm(rets[0].value) in (
        f'tuple({E}.get({p}, {{}}).values())',
        f'tuple({E}[{p}].values())')
    if len(rets) == 1 and norm(rets[0].value) == f'tuple({E}[{p}].values())':
        good = False
    rep.check(good, 'C01.read', f.where, rets[0] if rets else f.node.name,
              'get_components returns the values of the entity row (empty if '
              'absent)', 'get_components does not return exactly the values '
              'of the row of the entity (or fails for an absent entity)',
              line=f.node.lineno)
    # _get : iterates the index of the visited type, yields (e, E[e][sub])
    f = program.method('World', '_get')
    loops = [n for n in ast.walk(f.node) if isinstance(n, ast.For)]
    found = False
    for lp in loops:
        it = lp.iter
        sub = None
        if isinstance(it, ast.Call) and isinstance(it.func, ast.Attribute) \
                and it.func.attr == 'get' and dotted(it.func.value) == C \
                and it.args:
            sub = norm(it.args[0])
        elif isinstance(it, ast.Subscript) and dotted(it.value) == C:
            sub = norm(it.slice)
        else:
            base, view = unwrap_iter(it)
            if isinstance(base, ast.Call) and isinstance(
                    base.func, ast.Attribute) and base.func.attr == 'get' \
                    and dotted(base.func.value) == C and base.args:
                sub = norm(base.args[0])
        if sub is None:
            continue
        found = True
        var = norm(lp.target)
        ys = [n for n in ast.walk(lp) if isinstance(n, ast.Yield)]
        good = len(ys) == 1 and norm(ys[0].value) == \
            f'({var}, {E}[{var}][{sub}])'
        rep.check(good, 'C01.read', f.where, ys[0] if ys else lp,
                  'get yields (owner, its component of the visited type) for '
                  'every owner in the index',
                  'get does not yield (entity, _entities[entity][subtype]) for '
                  'the entity and subtype it is visiting', line=lp.lineno)
    if not found:
        rep.inconclusive('C01.read', f.where, f.node.name,
                         'no loop over the type index found in _get')
    g = program.method('World', 'get')
    body = strip_docstring(g.node.body)
    good = len(body) == 1 and isinstance(body[0], ast.Return) and norm(
        body[0].value) in ('list(self._get(component_type))',)
    p = g.params()[1]
    good = len(body) == 1 and isinstance(body[0], ast.Return) and norm(
        body[0].value) == f'list(self._get({p}))'
    if not good:
        # path form: every returning path hands out a fresh list of either
        # the walk itself or an answer remembered under the queried type (the
        # memo discipline is C06.memo, borrowed below as C01.read-memo)
        class _GD(Domain):
            def resolve_call(self, st, call, walker):
                r = walker.resolve_helper(st, call)
                return None if r and r[0].name == '_get' else r
        exs = [e for e in Walker(program, _GD(program)).run(
            g, program.cls('World')) if e.kind == 'return']
        good = bool(exs)
        for ex in exs:
            v = ex.payload.node if ex.payload is not None else None
            if isinstance(v, ast.Call) and dotted(v.func) == 'list' \
                    and len(v.args) == 1:
                v = v.args[0]
            else:
                good = False
                continue
            if isinstance(v, ast.Call) and dotted(v.func) in (
                    'tuple', 'list') and len(v.args) == 1:
                v = v.args[0]
            t = norm(v)
            memo_read = isinstance(v, (ast.Call, ast.Subscript)) and any(
                isinstance(x, ast.Attribute) and isinstance(
                    x.value, ast.Name) and x.value.id == 'self'
                and x.attr not in ('_entities', '_components', '_get')
                and x.attr.startswith('_') for x in ast.walk(v)) and \
                f'{p}' in t and '_get(' not in t
            if t != f'self._get({p})' and not memo_read:
                good = False
    rep.check(good, 'C01.read', g.where, body[0] if body else g.node.name,
              'get(T) is the list of _get(T)',
              'get(T) is not list(self._get(T))', line=g.node.lineno)
    from rules import c06
    rep.borrow(c06.check_query_memo, program, rep,
               keep=lambda o: o.rule == 'C06.memo' and o.verdict != 'discharged',
               rename=lambda r: 'C01.read-memo',
               why='a query answers from a stale memo: it disagrees with its '
               'sibling queries')
    # has_component / get_component : guarded reads of the entity row
    for name in ('has_component', 'get_component'):
        f = program.method('World', name)
        ent = f.params()[1]
        class _RD(Domain):
            loop_bound = 2

            def resolve_call(self, st, call, walker):
                return walker.resolve_helper(st, call)
        w = Walker(program, _RD(program))
        exits = w.run(f, world)
        bad = None
        nret = 0
        for ex in exits:
            if ex.kind != 'return':
                continue
            conds = [(e.sym.node, e.extra) for e in ex.state.trace
                     if e.kind == 'cond']
            val = ex.payload
            positive = val is not None and (
                (isinstance(val.node, ast.Constant) and val.node.value is True)
                or norm(unget(val.node)).startswith(f'{E}['))
            if not positive:
                continue
            nret += 1
            # the last decided membership must be "<x> in row(entity)" == True
            ok = False
            for n, tr in reversed(conds):
                if isinstance(n, ast.Compare) and isinstance(n.ops[0], ast.In):
                    r = norm(unget(n.comparators[0]))
                    if r == f'{E}[{ent}]' and tr:
                        ok = True
                        x = norm(n.left)
                        if name == 'get_component' and norm(unget(
                                val.node)) != f'{E}[{ent}][{x}]':
                            ok = False
                    break
            if not ok:
                bad = ex.node
        rep.check(bad is None and nret > 0, 'C01.read', f.where,
                  bad if bad is not None else f.node.name,
                  f'{name} answers from the row of the given entity, for the '
                  'type it just found there',
                  f'{name} has a positive answer that is not backed by a '
                  'membership test on the row of the given entity '
                  '(or returns another slot)', line=getattr(bad, 'lineno',
                                                            f.node.lineno))


class _IdDomain(Domain):
    loop_bound = 3
    PRIM = {'add_handler', 'remove_handler', 'dispatch', 'remove_component'}

    def resolve_call(self, st, call, walker):
        r = walker.default_resolve(st, call)
        if r is None or r[0].name in self.PRIM:
            return None
        return r

    def for_counts(self, st, node, itersym):
        return [0, 1]


def _lazy_absent_filter(v):
    """Is this expression an iterator that yields, item by item, only values
    found `not in self._entities` when they are pulled?  (filterfalse / filter
    with a membership lambda, or a generator expression with that condition -
    NOT dropwhile / takewhile, which stop testing after the first item.)"""
    def member(test, var, want_in):
        return (isinstance(test, ast.Compare) and len(test.ops) == 1
                and isinstance(test.ops[0], ast.In if want_in else ast.NotIn)
                and isinstance(test.left, ast.Name) and test.left.id == var
                and norm(test.comparators[0]) == E)
    if isinstance(v, ast.Call) and len(v.args) == 2 and not v.keywords \
            and isinstance(v.args[0], ast.Lambda) \
            and len(v.args[0].args.args) == 1:
        fn = (dotted(v.func) or '').split('.')[-1]
        var = v.args[0].args.args[0].arg
        if fn == 'filterfalse':
            return member(v.args[0].body, var, True)
        if fn == 'filter':
            return member(v.args[0].body, var, False)
    if isinstance(v, ast.GeneratorExp) and len(v.generators) == 1 \
            and isinstance(v.generators[0].target, ast.Name) \
            and isinstance(v.elt, ast.Name) \
            and v.elt.id == v.generators[0].target.id:
        return any(member(c, v.elt.id, False) for c in v.generators[0].ifs)
    return False


def _drawn_from_filtered(program, world, ident, trace):
    """next(self.<x>) where every store of self.<x> in the class family is a
    lazy not-in-the-table filter."""
    call = [e.extra for e in trace if e.kind == 'fresh'
            and e.sym.text == ident]
    cn = getattr(call[0], 'node', None) if call else None
    if not (isinstance(cn, ast.Call) and dotted(cn.func) == 'next'
            and len(cn.args) == 1 and isinstance(cn.args[0], ast.Attribute)
            and dotted(cn.args[0].value) == 'self'):
        return False
    attr = cn.args[0].attr
    vals = []
    for c in [world] + program.subclasses(world) + [
            b for b in program.mro(world) if b is not world]:
        for n in ast.walk(c.node):
            if isinstance(n, (ast.Assign, ast.AnnAssign, ast.AugAssign)):
                ts = n.targets if isinstance(n, ast.Assign) else [n.target]
                if any(isinstance(t, ast.Attribute) and t.attr == attr
                       for t in ts):
                    vals.append(n.value)
    return bool(vals) and all(v is not None and _lazy_absent_filter(v)
                              for v in vals)


def check_fresh_id(program, rep):
    f = program.method('World', 'create_entity')
    world = program.cls('World')
    w = Walker(program, _IdDomain(program))
    exits = w.run(f, world)
    nauto = 0
    bad = None
    unsure = None
    for ex in exits:
        if ex.kind != 'return' or ex.payload is None:
            continue
        rv = ex.payload
        if not (isinstance(rv.node, ast.Name) and rv.node.id.startswith(
                'next·')):
            continue
        nauto += 1
        ident = rv.node.id
        proved = _drawn_from_filtered(program, world, ident, ex.state.trace)
        for e in ex.state.trace:
            if e.kind == 'cond' and e.sym.text == f'{ident} in {E}' \
                    and e.extra is False:
                proved = True
            if e.kind == 'store' and e.target is not None and e.target.text \
                    .startswith(f'{E}[') and not proved \
                    and ident in e.target.text:
                break
        if not proved:
            # the id was tested through some other query of the world
            # (`self.get_components(id)`, ...): whether that answers "no row"
            # rests on invariants of the tables this rule does not carry -
            # except entity_exists(), which is known to deny pending entities
            other = [e for e in ex.state.trace if e.kind == 'cond'
                     and e.extra is False and ident in e.sym.text
                     and ((e.sym.text.startswith('self.')
                           and '(' in e.sym.text
                           and not e.sym.text.startswith(
                               'self.entity_exists('))
                          or (E in e.sym.text and 'self._dead_entities'
                              not in e.sym.text))]
            if other:
                unsure = other[0]
            else:
                bad = ex
    if unsure is not None and bad is None:
        rep.inconclusive('C01.fresh-id', f.where, unsure.node,
                         f'the automatic id is tested with {unsure.sym.text}: '
                         'that this is false exactly when the id has no row '
                         'is not decided here')
    if nauto == 0:
        rep.inconclusive('C01.fresh-id', f.where, f.node.name,
                         'no path returns an id drawn from the generator')
        return
    if w.diverging:
        rep.bad('C01.fresh-id', f.where, w.diverging[0].test,
                'the loop that skips ids already in use does not draw a new '
                'id: once an automatic id collides with an existing entity '
                'create_entity never returns', line=w.diverging[0].lineno)
    rep.check(bad is None, 'C01.fresh-id', f.where,
              'entity_id = next(self.id_generator)',
              f'on all {nauto} automatic-id paths the id handed out was '
              'tested absent from _entities',
              'an automatic id can reach the tables without having been '
              'tested "not in self._entities" (an id imposed earlier by the '
              'user, or an entity awaiting deletion, is handed out again and '
              'the two entities merge)',
              detail={'path': [f'{"" if e.extra else "not "}({e.sym.text})'
                               for e in bad.state.trace if e.kind == 'cond'][
                                   :8]} if bad else None, line=f.node.lineno)


def check_clear(program, rep):
    """clear() leaves no entity behind (shared with C02 / C05)."""
    from rules import c02
    n0 = len(rep.obs)
    c02.clear_total(program, rep)
    for o in rep.obs[n0:]:
        o.rule = 'C01.clear'
        if o.verdict == 'violated':
            o.why = ('clear() does not delete every row of the component '
                     'table (it iterates a filtered view): entities awaiting '
                     'deletion survive clear() and every query reports them '
                     'afterwards')


def check_clear_marks(program, rep, rule='C01.clear'):
    """clear() forgets the pending marks AFTER the rows are gone: the on_remove
    callbacks its deletions run may mark entities (delete_entity) - a mark set
    during the loop for an entity the loop has already deleted would survive
    a wipe that came first, and the restarted id generator hands that id out
    again: the new entity is denied by entity_exists and deleted by the next
    process()."""
    cl = program.method('World', 'clear')
    body = cl.node.body
    wipe = [i for i, s in enumerate(body) if any(
        isinstance(c, ast.Call) and norm(c.func) == 'self._dead_entities.clear'
        for c in ast.walk(s)) or (isinstance(s, ast.Assign) and any(
            norm(t) == 'self._dead_entities' for t in s.targets))]
    loops = [i for i, s in enumerate(body) if isinstance(s, (ast.For,
                                                             ast.While))
             and any(isinstance(c, ast.Call) and isinstance(
                 c.func, ast.Attribute) and c.func.attr in (
                     '_delete_entity_now', 'delete_entity',
                     'remove_component') for c in ast.walk(s))]
    if not wipe or not loops:
        return
    rep.check(wipe[-1] > loops[-1], rule, cl.where, body[wipe[0]],
              'the pending marks are wiped after the deletion loop',
              'clear() wipes the pending marks BEFORE deleting the entities: '
              'an on_remove callback of that loop that marks an already '
              'deleted entity leaves a mark behind - the entity created next '
              'under that id owns components but entity_exists() denies it '
              'and the next process() deletes it',
              line=body[wipe[0]].lineno)


def run(program, rep, tier):
    check_clear_marks(program, rep)
    check_clear(program, rep)
    check_owners(program, rep)
    analyse_writers(program, rep)
    check_readers(program, rep)
    check_fresh_id(program, rep)
    # entity_exists / entities subtract the pending set: a mark must not
    # outlive the row it refers to (C05's discipline of the pending set)
    from rules import c05
    rep.borrow(c05.run, program, rep, 'quick',
               keep=lambda o: o.rule in ('C05.subset', 'C05.mark'),
               rename=lambda r: 'C01.pending-' + r.split('.')[1],
               why='a stale pending mark makes entity_exists / entities deny '
               'an entity that owns components (e.g. after its id is reused)')
    # "exactly one pair per attached component": the subclass walk behind
    # get(T) visits each type once (C06's rule for the walk of get)
    from rules import c06
    rep.borrow(c06.run, program, rep, 'quick',
               keep=lambda o: o.rule in ('C06.once', 'C06.closure')
               and o.site.endswith(('World._get', 'World.get')),
               rename=lambda r: 'C01.' + r.split('.')[1],
               why='get(T) lists a pair twice, or misses components of an '
               'indirect subtype that has_component / get_component / '
               'get(<subtype>) report')
